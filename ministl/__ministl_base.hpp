// ministl: flat, fixed-capacity, pointer-free model of the part of the C++ standard library that libtheo uses.
// It is the *environment model* of engine E1 (DESIGN.md 2.2): every library precondition is an assertion tagged "(UB)" or
// "(throws)", every capacity limit an assertion tagged "(model bound)".  Containers of trivially copyable elements are
// themselves trivially copyable, so that copies are plain struct assignments in the generated C.
//
// Two rules keep the encoding inside what CBMC 6.11 decides correctly and quickly:
//  (1) every loop of the model has a constant trip count (the capacity) with the dynamic size as a guard, so LLVM's
//      loop-unroll removes it before CBMC sees the program; only loops of the code under test remain to be unwound;
//  (2) the model never forms the address of an element at a *symbolic* index (CBMC's simplifier resolves a pointer with a
//      symbolic byte offset into a nested array wrongly - minimal reproduction in DESIGN.md): element references are selected
//      among the CAP constant-index addresses (__at), and iterators are (container, index) pairs instead of raw pointers.
#pragma once
#define MINISTL 1
#include <stddef.h>
#include <stdint.h>
#include <limits.h>
#include <stdlib.h>
extern "C" { void __CPROVER_assert(bool, const char*); void __CPROVER_assume(bool); }
#ifndef MINISTL_STR_CAP
#define MINISTL_STR_CAP 24
#endif
#ifndef MINISTL_VEC_CAP
#define MINISTL_VEC_CAP 12
#endif
#ifndef MINISTL_MAP_CAP
#define MINISTL_MAP_CAP 6
#endif
#ifndef MINISTL_FN_CAP
#define MINISTL_FN_CAP 32
#endif
inline void* operator new(unsigned long, void* p) noexcept { return p; }
void* operator new(unsigned long);
void operator delete(void*) noexcept;
namespace std {
using ::size_t; using ::ptrdiff_t; using ::strtol;
template<class T> struct remove_reference{typedef T type;}; template<class T> struct remove_reference<T&>{typedef T type;}; template<class T> struct remove_reference<T&&>{typedef T type;};
template<class T> constexpr typename remove_reference<T>::type&& move(T&& t) noexcept { return static_cast<typename remove_reference<T>::type&&>(t); }
template<class T> constexpr T&& forward(typename remove_reference<T>::type& t) noexcept { return static_cast<T&&>(t); }
template<class T> constexpr const T& max(const T&a,const T&b){ return (a<b)?b:a; }
template<class T> constexpr const T& min(const T&a,const T&b){ return (b<a)?b:a; }
template<class T> class initializer_list { const T* _M_array; size_t _M_len; constexpr initializer_list(const T*a,size_t l):_M_array(a),_M_len(l){} public: constexpr initializer_list():_M_array(0),_M_len(0){} constexpr size_t size()const{return _M_len;} constexpr const T* begin()const{return _M_array;} constexpr const T* end()const{return _M_len ? _M_array+_M_len : _M_array;} };
template<class A,class B> struct pair { A first; B second; pair():first(),second(){} pair(const A&a,const B&b):first(a),second(b){} template<class A2,class B2> pair(const pair<A2,B2>&o):first(o.first),second(o.second){} };
template<class A,class B> pair<A,B> make_pair(A a,B b){ return pair<A,B>(a,b); }
template<class A,class B> bool operator==(const pair<A,B>&x,const pair<A,B>&y){ return x.first==y.first && x.second==y.second; }
template<class T> void swap(T&a,T&b){ T t=a; a=b; b=t; }
template<class T> constexpr T abs(T a){ return a<0?-a:a; }
template<class T> constexpr const T& clamp(const T&v,const T&lo,const T&hi){ return (v<lo)?lo:(hi<v)?hi:v; }
template<class A,class B> bool operator<(const pair<A,B>&x,const pair<A,B>&y){ if(x.first<y.first) return true; if(y.first<x.first) return false; return x.second<y.second; }
struct nullopt_t{}; constexpr nullopt_t nullopt{};
template<class T> struct optional { bool has; T v; optional():has(false),v(){} optional(nullopt_t):has(false),v(){} optional(const T&x):has(true),v(x){} explicit operator bool()const{return has;} bool has_value()const{return has;} T& value(){ __CPROVER_assert(has,"ministl: optional value() without value (throws)"); return v;} T value_or(const T&d)const{ return has? v : d; } void reset(){ has=false; } T& operator*(){ __CPROVER_assert(has,"ministl: optional deref (UB)"); return v;} T* operator->(){ __CPROVER_assert(has,"ministl: optional deref (UB)"); return &v;} };

template<class T> constexpr bool __triv = __is_trivially_copyable(T) && __is_trivially_destructible(T);
template<class T,int CAP,bool TRIV=__triv<T>> struct __flat;
// element selection among constant-index addresses (rule 2); an index outside [0,CAP) selects slot 0 - every caller asserts its range first
#define __MINISTL_AT \
  T& __at(long i){ T* r=&u.d[0]; for(int k=1;k<CAP;k++) if(i==k) r=&u.d[k]; return *r; } \
  const T& __at(long i)const{ const T* r=&u.d[0]; for(int k=1;k<CAP;k++) if(i==k) r=&u.d[k]; return *r; }
template<class T,int CAP> struct __flat<T,CAP,true> { typedef T value_type; static constexpr int FCAP=CAP; int n; union U { T d[CAP]; U(){} } u; __flat():n(0){} void __clear(){ n=0; } __MINISTL_AT };
template<class T,int CAP> struct __flat<T,CAP,false> {
  typedef T value_type; static constexpr int FCAP=CAP;
  int n; union U { T d[CAP]; U(){} ~U(){} } u;
  __flat():n(0){}
  __flat(const __flat&o):n(0){ for(int i=0;i<CAP;i++) if(i<o.n){ new(&u.d[i]) T(o.u.d[i]); n++; } }
  __flat& operator=(const __flat&o){ if(this!=&o){ __clear(); for(int i=0;i<CAP;i++) if(i<o.n){ new(&u.d[i]) T(o.u.d[i]); n++; } } return *this; }
  ~__flat(){ __clear(); }
  void __clear(){ for(int i=CAP-1;i>=0;i--) if(i<n) u.d[i].~T(); n=0; }
  __MINISTL_AT
};

// iterator = (container, index); E is the element type seen through the iterator (const-qualified for const containers)
template<class F,class E> struct __iter {
  typedef E value_type; typedef long difference_type; static constexpr int ICAP = F::FCAP;
  F* c; int i;
  __iter():c(0),i(0){} __iter(F*c_,int i_):c(c_),i(i_){}
  template<class F2,class E2> __iter(const __iter<F2,E2>&o):c(o.c),i(o.i){}
  E& operator*()const{ __CPROVER_assert(i>=0&&i<c->n,"ministl: dereferencing end() or an invalid iterator (UB)"); return c->__at(i); }
  E* operator->()const{ __CPROVER_assert(i>=0&&i<c->n,"ministl: dereferencing end() or an invalid iterator (UB)"); return &c->__at(i); }
  E& operator[](long k)const{ __CPROVER_assert(i+k>=0&&i+k<c->n,"ministl: iterator index outside the sequence (UB)"); return c->__at(i+k); }
  __iter& operator++(){ ++i; return *this; } __iter operator++(int){ __iter t=*this; ++i; return t; }
  __iter& operator--(){ --i; return *this; } __iter operator--(int){ __iter t=*this; --i; return t; }
  __iter operator+(long k)const{ return __iter(c,(int)(i+k)); } __iter operator-(long k)const{ return __iter(c,(int)(i-k)); }
  __iter& operator+=(long k){ i+=(int)k; return *this; } __iter& operator-=(long k){ i-=(int)k; return *this; }
  template<class F2,class E2> long operator-(const __iter<F2,E2>&o)const{ return (long)i-(long)o.i; }
  template<class F2,class E2> bool operator==(const __iter<F2,E2>&o)const{ return i==o.i; }
  template<class F2,class E2> bool operator!=(const __iter<F2,E2>&o)const{ return i!=o.i; }
  template<class F2,class E2> bool operator<(const __iter<F2,E2>&o)const{ return i<o.i; }
  template<class F2,class E2> bool operator<=(const __iter<F2,E2>&o)const{ return i<=o.i; }
  template<class F2,class E2> bool operator>(const __iter<F2,E2>&o)const{ return i>o.i; }
  template<class F2,class E2> bool operator>=(const __iter<F2,E2>&o)const{ return i>=o.i; }
};
template<class F,class E> struct __riter {   // reverse iterator: designates element i-1
  F* c; int i; __riter(F*c_,int i_):c(c_),i(i_){}
  E& operator*()const{ __CPROVER_assert(i>=1&&i<=c->n,"ministl: dereferencing rend() or an invalid iterator (UB)"); return c->__at(i-1); }
  E* operator->()const{ __CPROVER_assert(i>=1&&i<=c->n,"ministl: dereferencing rend() or an invalid iterator (UB)"); return &c->__at(i-1); }
  __riter& operator++(){ --i; return *this; } __riter operator++(int){ __riter t=*this; --i; return t; }
  bool operator!=(const __riter&o)const{ return i!=o.i; } bool operator==(const __riter&o)const{ return i==o.i; }
};

// string: canonical flat buffer (unused bytes are 0), content beyond CAP-1 is dropped and flagged (only diagnostics get that long)
struct string {
  int n; int trunc; char b[MINISTL_STR_CAP];   // (int flag: no tail padding, copies are whole-struct assignments)
  string():n(0),trunc(0){ for(int i=0;i<MINISTL_STR_CAP;i++) b[i]=0; }
  string(const char*s):n(0),trunc(0){ for(int i=0;i<MINISTL_STR_CAP;i++) b[i]=0; bool live=true; for(int k=0;k<MINISTL_STR_CAP;k++){ if(live && s[k]==0) live=false; if(live) __push(s[k]); } if(live) trunc=1; }
  void __push(char c){ if(n<MINISTL_STR_CAP-1){ b[n]=c; n++; } else trunc=1; }
  static constexpr size_t npos=(size_t)-1;
  size_t size()const{return n;} size_t length()const{return n;} bool empty()const{return n==0;}
  void clear(){ for(int i=0;i<MINISTL_STR_CAP;i++) b[i]=0; n=0; trunc=0; }
  void push_back(char c){ __push(c); } string& operator+=(char c){ __push(c); return *this; }
  string& append(const string&o){ return *this+=o; }
  char& operator[](size_t i){ __CPROVER_assert(i<=(size_t)n&&i<MINISTL_STR_CAP,"ministl: string index out of range (UB)"); return b[i]; }
  const char& operator[](size_t i)const{ __CPROVER_assert(i<=(size_t)n&&i<MINISTL_STR_CAP,"ministl: string index out of range (UB)"); return b[i]; }
  char& back(){ __CPROVER_assert(n>0,"ministl: back() on empty string (UB)"); return b[n-1]; } char& front(){ __CPROVER_assert(n>0,"ministl: front() on empty string (UB)"); return b[0]; }
  size_t find(char c,size_t from=0)const{ size_t r=npos; for(int i=MINISTL_STR_CAP-1;i>=0;i--) if((size_t)i>=from && i<n && b[i]==c) r=i; return r; }
  int compare(const string&o)const{ return (*this<o)?-1:(o<*this)?1:0; }
  bool starts_with(const string&o)const{ bool e=o.n<=n; for(int i=0;i<MINISTL_STR_CAP;i++) if(i<o.n) e = e & (b[i]==o.b[i]); return e; }
  const char* c_str()const{return b;} const char* data()const{return b;}
  char* begin(){return b;} char* end(){return b+n;}
#ifdef MINISTL_OPAQUE_CONCAT
  // harnesses in which concatenation only builds diagnostics: the result is an opaque, non-empty text flagged as truncated (comparing it is a model-bound failure)
  void __opaque(){ for(int i=0;i<MINISTL_STR_CAP;i++) b[i]=0; b[0]='?'; n=1; trunc=1; }
  string& operator+=(const string&o){ __opaque(); return *this; }
  string& operator+=(const char*s){ __opaque(); return *this; }
#else
  string& operator+=(const string&o){ for(int i=0;i<MINISTL_STR_CAP;i++) if(i<o.n) __push(o.b[i]); if(o.trunc) trunc=1; return *this; }
  string& operator+=(const char*s){ bool live=true; for(int k=0;k<MINISTL_STR_CAP;k++){ if(live && s[k]==0) live=false; if(live) __push(s[k]); } if(live) trunc=1; return *this; }
#endif
  string substr(size_t pos,size_t len=(size_t)-1)const{ __CPROVER_assert(pos<=(size_t)n,"ministl: substr pos > size (throws)"); string r; for(size_t i=0;i<MINISTL_STR_CAP;i++) if(i>=pos && i<(size_t)n && i-pos<len) r.__push(b[i]); r.trunc=trunc; return r; }
  template<class It> void insert(char*at,It f,It l){ string r; int a=(int)(at-b); long m=l-f; for(int i=0;i<MINISTL_STR_CAP;i++) if(i<a) r.__push(b[i]); for(long q=0;q<MINISTL_STR_CAP;q++) if(q<m) r.__push(f[q]); if(m>=MINISTL_STR_CAP) r.trunc=1; for(int i=0;i<MINISTL_STR_CAP;i++) if(i>=a && i<n) r.__push(b[i]); if(trunc) r.trunc=1; *this=r; }
  bool __eq(const string&o)const{ (__CPROVER_assert(!trunc&&!o.trunc,"ministl: comparing truncated string (model bound)"), __CPROVER_assume(!trunc&&!o.trunc)); bool e=(n==o.n); for(int i=0;i<MINISTL_STR_CAP;i++) e = e & (b[i]==o.b[i]); return e; }
  bool operator==(const string&o)const{ return __eq(o); }
  bool operator!=(const string&o)const{ return !__eq(o); }
  // canonical form (unused bytes are 0, no embedded NUL) makes whole-buffer comparison equal to lexicographic comparison
  bool operator<(const string&o)const{ (__CPROVER_assert(!trunc&&!o.trunc,"ministl: comparing truncated string (model bound)"), __CPROVER_assume(!trunc&&!o.trunc)); bool lt=false, dec=false; for(int i=0;i<MINISTL_STR_CAP;i++){ unsigned char x=b[i],y=o.b[i]; bool d=(x!=y)&!dec; lt = d ? (x<y) : lt; dec = dec|d; } return lt; }
};
inline bool operator==(const string&a,const char*s){ return a==string(s); }
inline bool operator!=(const string&a,const char*s){ return !(a==string(s)); }
inline string operator+(const string&a,const string&b){ string r=a; r+=b; return r; }
inline string operator+(const string&a,const char*b){ string r=a; r+=b; return r; }
inline string operator+(const char*a,const string&b){ string r(a); r+=b; return r; }
inline string operator+(const string&a,char c){ string r=a; r.__push(c); return r; }
inline bool operator>(const string&a,const string&b){ return b<a; } inline bool operator<=(const string&a,const string&b){ return !(b<a); } inline bool operator>=(const string&a,const string&b){ return !(a<b); }
inline int stoi(const string&s){ return (int)strtol(s.c_str(),0,10); } inline long stol(const string&s){ return strtol(s.c_str(),0,10); }
inline string to_string(long v){ string r; char tmp[20]; int k=0; bool neg=v<0; unsigned long u=neg?-(unsigned long)v:v; for(int i=0;i<20;i++){ if(i==0||u){ tmp[k++]='0'+u%10; u/=10; } } if(neg) r.__push('-'); for(int i=19;i>=0;i--) if(i<k) r.__push(tmp[i]); return r; }
inline string to_string(int v){ return to_string((long)v); } inline string to_string(unsigned v){ return to_string((long)v); } inline string to_string(unsigned long v){ return to_string((long)v); }

template<class T> struct __cap { static constexpr int v = MINISTL_VEC_CAP; };
template<class T> struct vector : __flat<T,__cap<T>::v> {
  static constexpr int VCAP = __cap<T>::v;
  typedef __flat<T,VCAP> F;
  using F::n; using F::u; using F::__at;
  typedef __iter<F,T> iterator; typedef __iter<const F,const T> const_iterator; typedef size_t size_type; typedef T value_type;
  vector(){}
  vector(size_t k,const T&x){ (__CPROVER_assert(k<=(size_t)VCAP,"ministl: vector capacity (model bound)"), __CPROVER_assume(k<=(size_t)VCAP)); for(size_t i=0;i<(size_t)VCAP;i++) if(i<k){ new(&u.d[i]) T(x); n++; } }
  vector(initializer_list<T> l){ for(const T*p=l.begin();p!=l.end();++p) push_back(*p); }
  template<class It> requires requires(It i, It j){ *i; ++i; i!=j; } vector(It a, It b){ for(int i=0;i<=VCAP;i++) if(a!=b){ push_back(*a); ++a; } }   // iterator-range constructor
  void push_back(const T&x){ (__CPROVER_assert(n<VCAP,"ministl: vector capacity (model bound)"), __CPROVER_assume(n<VCAP)); new(&__at(n)) T(x); n++; }
  void pop_back(){ __CPROVER_assert(n>0,"ministl: pop_back on empty vector (UB)"); n--; __at(n).~T(); }
  void clear(){ this->__clear(); }
  void resize(size_t k){ (__CPROVER_assert(k<=(size_t)VCAP,"ministl: vector capacity (model bound)"), __CPROVER_assume(k<=(size_t)VCAP)); for(int i=VCAP-1;i>=0;i--) if((size_t)i>=k && i<n) u.d[i].~T(); for(int i=0;i<VCAP;i++) if(i>=n && (size_t)i<k) new(&u.d[i]) T(); n=(int)k; }
  void resize(size_t k,const T&x){ (__CPROVER_assert(k<=(size_t)VCAP,"ministl: vector capacity (model bound)"), __CPROVER_assume(k<=(size_t)VCAP)); for(int i=VCAP-1;i>=0;i--) if((size_t)i>=k && i<n) u.d[i].~T(); for(int i=0;i<VCAP;i++) if(i>=n && (size_t)i<k) new(&u.d[i]) T(x); n=(int)k; }
  T& back(){ __CPROVER_assert(n>0,"ministl: back() on empty vector (UB)"); return __at(n-1); }
  const T& back()const{ __CPROVER_assert(n>0,"ministl: back() on empty vector (UB)"); return __at(n-1); }
  T& front(){ __CPROVER_assert(n>0,"ministl: front() on empty vector (UB)"); return u.d[0]; }
  T& at(size_t i){ __CPROVER_assert(i<(size_t)n,"ministl: vector::at out of range (throws)"); return __at((long)i); }
  template<class... A> T& emplace_back(A&&... a){ push_back(T(static_cast<A&&>(a)...)); return __at(n-1); }
  void reserve(size_t k){ (__CPROVER_assert(k<=(size_t)VCAP,"ministl: vector capacity (model bound)"), __CPROVER_assume(k<=(size_t)VCAP)); } size_t capacity()const{ return VCAP; } void shrink_to_fit(){}
  void assign(size_t k,const T&x){ clear(); resize(k,x); }
  iterator insert(iterator at,const T&x){ const T*p=&x; insert(at,p,p+1); return at; }
  iterator erase(iterator at){ erase(at,at+1); return at; }
  const_iterator cbegin()const{ return begin(); } const_iterator cend()const{ return end(); }
  typedef __riter<F,T> reverse_iterator; reverse_iterator rbegin(){ return reverse_iterator(this,n); } reverse_iterator rend(){ return reverse_iterator(this,0); }
  bool operator==(const vector&o)const{ bool e=n==o.n; for(int i=0;i<VCAP;i++) if(i<n&&i<o.n) e = e && (u.d[i]==o.u.d[i]); return e; }
  T& operator[](size_t i){ __CPROVER_assert(i<(size_t)n,"ministl: vector index out of range (UB)"); return __at((long)i); }
  const T& operator[](size_t i)const{ __CPROVER_assert(i<(size_t)n,"ministl: vector index out of range (UB)"); return __at((long)i); }
  size_t size()const{return n;} bool empty()const{return n==0;}
  iterator begin(){ return iterator(this,0); } iterator end(){ return iterator(this,n); }
  const_iterator begin()const{ return const_iterator(this,0); } const_iterator end()const{ return const_iterator(this,n); }
  // insert [f,l) before at: shift the tail up by m (highest index first), then copy the new elements in
  template<class It> void insert(iterator at,It f,It l){ int a=at.i; int m=(int)(l-f); __CPROVER_assert(a>=0&&a<=n,"ministl: insert position outside vector (UB)"); (__CPROVER_assert(m>=0&&n+m<=VCAP,"ministl: vector capacity (model bound)"), __CPROVER_assume(m>=0&&n+m<=VCAP));
    for(int j=VCAP-1;j>=0;j--) if(m>0 && j>=a+m && j<n+m){ new(&u.d[j]) T(__at(j-m)); __at(j-m).~T(); }
    for(int q=0;q<VCAP;q++) if(q<m) new(&__at(a+q)) T(f[q]);
    n+=m; }
  void erase(iterator f,iterator l){ int a=f.i, e=l.i, k=e-a; __CPROVER_assert(a>=0&&a<=e&&e<=n,"ministl: erase range outside vector (UB)");
    for(int j=0;j<VCAP;j++) if(j>=a && j<e) u.d[j].~T();
    for(int j=0;j<VCAP;j++) if(k>0 && j>=a && j+k<n){ new(&u.d[j]) T(__at(j+k)); __at(j+k).~T(); }
    n-=k; }
};
template<class T,class U2> void erase(vector<T>&v,const U2&x){ vector<T> r; for(int i=0;i<vector<T>::VCAP;i++) if(i<v.n && !(v.u.d[i]==x)) r.push_back(v.u.d[i]); v=r; }
template<class T,class P> void erase_if(vector<T>&v,P pr){ vector<T> r; for(int i=0;i<vector<T>::VCAP;i++) if(i<v.n && !pr(v.u.d[i])) r.push_back(v.u.d[i]); v=r; }

template<class K,class V> struct __mcap { static constexpr int v = MINISTL_MAP_CAP; };
template<class K> struct __scap { static constexpr int v = MINISTL_MAP_CAP; };
// map: slots sorted by key (iteration order equals the standard's). value_type is pair<K,V> (the key is not const-qualified:
// the code under test never assigns to it, and one slot type avoids pointer casts between layout-identical structs).
template<class K,class V> struct map : __flat<pair<K,V>,__mcap<K,V>::v> {
  typedef pair<K,V> value_type; typedef pair<K,V> slot;
  static constexpr int MCAP = __mcap<K,V>::v;
  typedef __flat<slot,MCAP> F;
  using F::n; using F::u; using F::__at;
  typedef __iter<F,slot> iterator; typedef __iter<const F,const slot> const_iterator; typedef __riter<F,slot> reverse_iterator;
  map(){}
  map(initializer_list<pair<K,V>> l){ for(auto p=l.begin();p!=l.end();++p) (*this)[p->first]=p->second; }
  void clear(){ this->__clear(); }
  // slots are sorted, so the lower bound of k is the number of keys below k
  int lower(const K&k)const{ int r=0; for(int i=0;i<MCAP;i++) if(i<n && u.d[i].first<k) r++; return r; }
  bool __has(const K&k)const{ bool h=false; for(int i=0;i<MCAP;i++) if(i<n && !(u.d[i].first<k) && !(k<u.d[i].first)) h=true; return h; }
  iterator begin(){ return iterator(this,0); } iterator end(){ return iterator(this,n); }
  const_iterator begin()const{ return const_iterator(this,0); } const_iterator end()const{ return const_iterator(this,n); }
  reverse_iterator rbegin(){ return reverse_iterator(this,n); } reverse_iterator rend(){ return reverse_iterator(this,0); }
  iterator find(const K&k){ return __has(k) ? iterator(this,lower(k)) : end(); }
  bool contains(const K&k)const{ return __has(k); } size_t count(const K&k)const{ return __has(k)?1:0; } bool empty()const{ return n==0; }
  V& at(const K&k){ __CPROVER_assert(__has(k),"ministl: map::at key not found (throws)"); return __at(lower(k)).second; }
  size_t erase(const K&k){ if(!__has(k)) return 0; erase(iterator(this,lower(k))); return 1; }
  template<class V2> void emplace(const K&k,const V2&v){ insert(slot(k,V(v))); }
  template<class V2> void insert_or_assign(const K&k,const V2&v){ (*this)[k]=V(v); }
  template<class... A> pair<iterator,bool> try_emplace(const K&k,A&&... a){ bool had=__has(k); int i=lower(k); if(!had) __ins(i,k,V(static_cast<A&&>(a)...)); return pair<iterator,bool>(iterator(this,i),!had); }
  void __ins(int i,const K&k,const V&v){ (__CPROVER_assert(n<MCAP,"ministl: map capacity (model bound)"), __CPROVER_assume(n<MCAP)); for(int j=MCAP-1;j>0;j--) if(j<=n && j>i){ new(&u.d[j]) slot(u.d[j-1]); u.d[j-1].~slot(); } new(&__at(i)) slot(k,v); n++; }
  V& operator[](const K&k){ int i=lower(k); if(!__has(k)) __ins(i,k,V()); return __at(i).second; }
  void insert(const slot&p){ if(!__has(p.first)) __ins(lower(p.first),p.first,p.second); }
  template<class A2,class B2> void insert(const pair<A2,B2>&p){ insert(slot(K(p.first),V(p.second))); }
  void erase(iterator it){ int i=it.i; __CPROVER_assert(i>=0&&i<n,"ministl: erase(end) (UB)"); __at(i).~slot(); for(int j=0;j+1<MCAP;j++) if(j>=i && j+1<n){ new(&u.d[j]) slot(u.d[j+1]); u.d[j+1].~slot(); } n--; }
  size_t size()const{return n;}
};
template<class K> struct set : __flat<K,__scap<K>::v> {
  static constexpr int SCAP = __scap<K>::v;
  typedef __flat<K,SCAP> F;
  using F::n; using F::u; using F::__at;
  typedef __iter<const F,const K> iterator; typedef iterator const_iterator; typedef K value_type;
  set(){}
  set(initializer_list<K> l){ for(auto p=l.begin();p!=l.end();++p) insert(*p); }
  void clear(){ this->__clear(); }
  int lower(const K&k)const{ int r=0; for(int i=0;i<SCAP;i++) if(i<n && u.d[i]<k) r++; return r; }
  bool __has(const K&k)const{ bool h=false; for(int i=0;i<SCAP;i++) if(i<n && !(u.d[i]<k) && !(k<u.d[i])) h=true; return h; }
  iterator begin()const{ return iterator(this,0); } iterator end()const{ return iterator(this,n); }
  bool contains(const K&k)const{ return __has(k); } size_t count(const K&k)const{ return __has(k)?1:0; } bool empty()const{ return n==0; }
  iterator find(const K&k)const{ return __has(k) ? iterator(this,lower(k)) : end(); }
  void emplace(const K&k){ insert(k); }
  void insert(const K&k){ if(__has(k)) return; int i=lower(k); (__CPROVER_assert(n<SCAP,"ministl: set capacity (model bound)"), __CPROVER_assume(n<SCAP)); for(int j=SCAP-1;j>0;j--) if(j<=n && j>i){ new(&u.d[j]) K(u.d[j-1]); u.d[j-1].~K(); } new(&__at(i)) K(k); n++; }
  size_t erase(const K&k){ if(!__has(k)) return 0; int i=lower(k); __at(i).~K(); for(int j=0;j+1<SCAP;j++) if(j>=i && j+1<n){ new(&u.d[j]) K(u.d[j+1]); u.d[j+1].~K(); } n--; return 1; }
  size_t size()const{return n;}
};
template<class K> bool operator<(const set<K>&a,const set<K>&b){ bool lt=false,dec=false; for(int i=0;i<set<K>::SCAP;i++) if(!dec && i<a.n && i<b.n){ if(a.u.d[i]<b.u.d[i]){ lt=true; dec=true; } else if(b.u.d[i]<a.u.d[i]){ dec=true; } } return dec ? lt : (a.n<b.n); }

// tuple / tie (lexicographic comparison, as used for ordering keys)
template<class... T> struct tuple;
template<> struct tuple<> { };
template<class H,class... R> struct tuple<H,R...> { H head; tuple<R...> tail; tuple(H h, R... r):head(h),tail(r...){} };
template<class... T> tuple<T&...> tie(T&... t){ return tuple<T&...>(t...); }
template<class... T> tuple<T...> make_tuple(T... t){ return tuple<T...>(t...); }
inline bool operator<(const tuple<>&,const tuple<>&){ return false; } inline bool operator==(const tuple<>&,const tuple<>&){ return true; }
template<class H,class... R,class H2,class... R2> bool operator<(const tuple<H,R...>&a,const tuple<H2,R2...>&b){ if(a.head<b.head) return true; if(b.head<a.head) return false; return a.tail<b.tail; }
template<class H,class... R,class H2,class... R2> bool operator==(const tuple<H,R...>&a,const tuple<H2,R2...>&b){ return a.head==b.head && a.tail==b.tail; }
template<class... A,class... B> bool operator!=(const tuple<A...>&a,const tuple<B...>&b){ return !(a==b); }
template<class... A,class... B> bool operator>(const tuple<A...>&a,const tuple<B...>&b){ return b<a; }
template<int I,class H,class... R> struct __tget { static auto& g(tuple<H,R...>&t){ return __tget<I-1,R...>::g(t.tail); } };
template<class H,class... R> struct __tget<0,H,R...> { static H& g(tuple<H,R...>&t){ return t.head; } };
template<int I,class... T> auto& get(tuple<T...>&t){ return __tget<I,T...>::g(t); }
struct mutex { void lock(){} void unlock(){} bool try_lock(){ return true; } };
template<class M> struct lock_guard { explicit lock_guard(M&){} };
template<class M> struct unique_lock { explicit unique_lock(M&){} void lock(){} void unlock(){} };
template<class... M> struct scoped_lock { explicit scoped_lock(M&...){} };
// smart pointers: plain pointer + shared count cell; the pointee is never released in the model (allocation is outside every property)
template<class T> struct shared_ptr { T* p; shared_ptr():p(0){} shared_ptr(T*q):p(q){} template<class U> shared_ptr(const shared_ptr<U>&o):p(o.p){} T& operator*()const{ __CPROVER_assert(p!=0,"ministl: null shared_ptr dereferenced (UB)"); return *p; } T* operator->()const{ __CPROVER_assert(p!=0,"ministl: null shared_ptr dereferenced (UB)"); return p; } T* get()const{ return p; } explicit operator bool()const{ return p!=0; } long use_count()const{ return p?2:0; } bool unique()const{ return false; } void reset(){ p=0; } void reset(T*q){ p=q; } };
template<class T,class... A> shared_ptr<T> make_shared(A&&... a){ return shared_ptr<T>(new T(static_cast<A&&>(a)...)); }
template<class T> struct unique_ptr { T* p; unique_ptr():p(0){} explicit unique_ptr(T*q):p(q){} unique_ptr(unique_ptr&&o):p(o.p){ o.p=0; } unique_ptr& operator=(unique_ptr&&o){ p=o.p; o.p=0; return *this; } T& operator*()const{ __CPROVER_assert(p!=0,"ministl: null unique_ptr dereferenced (UB)"); return *p; } T* operator->()const{ __CPROVER_assert(p!=0,"ministl: null unique_ptr dereferenced (UB)"); return p; } T* get()const{ return p; } explicit operator bool()const{ return p!=0; } void reset(T*q=0){ p=q; } };
template<class T,class... A> unique_ptr<T> make_unique(A&&... a){ return unique_ptr<T>(new T(static_cast<A&&>(a)...)); }
template<class> struct function;
template<class R,class... A> struct function<R(A...)> {
  R (*inv)(const char*,A...); char buf[MINISTL_FN_CAP];
  function():inv(0){}
  template<class F> function(F f){ static_assert(sizeof(F)<=MINISTL_FN_CAP,"ministl: closure too large"); new((void*)buf) F(f); inv=[](const char*p,A... a)->R{ return (*(const F*)(const void*)p)(a...); }; }
  R operator()(A... a)const{ __CPROVER_assert(inv!=0,"ministl: empty std::function called (throws)"); return inv(buf,a...); }
  explicit operator bool()const{ return inv!=0; }
};
struct ostream{ template<class T> ostream& operator<<(const T&){ return *this; } ostream& operator<<(ostream&(*)(ostream&)){ return *this; } };
inline ostream& endl(ostream&o){ return o; }
extern ostream cout, cerr;
// algorithms over model iterators: constant trip count = capacity of the underlying container
template<class It,class F> F for_each(It a,It b,F f){ for(int k=0;k<It::ICAP;k++) if(a!=b){ f(*a); ++a; } return f; }
template<class It,class C> It min_element(It a,It b,C c){ if(a==b) return b; It m=a; ++a; for(int k=0;k<It::ICAP;k++) if(a!=b){ if(c(*a,*m)) m=a; ++a; } return m; }
// sort: bubble passes with constant trip counts (stable; ICAP rounds of ICAP-1 adjacent comparisons), elements exchanged by copy
template<class It,class C> void stable_sort(It a,It b,C c){ for(int r=0;r<It::ICAP;r++){ It p=a; for(int k=0;k+1<It::ICAP;k++) if(p!=b){ It q=p; ++q; if(q!=b){ if(c(*q,*p)){ auto t=*p; *p=*q; *q=t; } } ++p; } } }
template<class It,class C> void sort(It a,It b,C c){ stable_sort(a,b,c); }
template<class It> void sort(It a,It b){ stable_sort(a,b,[](const auto&x,const auto&y){ return x<y; }); }
template<class It,class C> It max_element(It a,It b,C c){ if(a==b) return b; It m=a; ++a; for(int k=0;k<It::ICAP;k++) if(a!=b){ if(c(*m,*a)) m=a; ++a; } return m; }
template<class It,class T> It find(It a,It b,const T&x){ It r=b; bool f=false; for(int k=0;k<It::ICAP;k++) if(a!=b){ if(!f && *a==x){ r=a; f=true; } ++a; } return r; }
template<class It,class P> It find_if(It a,It b,P p){ It r=b; bool f=false; for(int k=0;k<It::ICAP;k++) if(a!=b){ if(!f && p(*a)){ r=a; f=true; } ++a; } return r; }
template<class It,class T> long count(It a,It b,const T&x){ long c=0; for(int k=0;k<It::ICAP;k++) if(a!=b){ if(*a==x) c++; ++a; } return c; }
template<class It,class P> long count_if(It a,It b,P p){ long c=0; for(int k=0;k<It::ICAP;k++) if(a!=b){ if(p(*a)) c++; ++a; } return c; }
template<class It,class P> bool any_of(It a,It b,P p){ bool r=false; for(int k=0;k<It::ICAP;k++) if(a!=b){ if(p(*a)) r=true; ++a; } return r; }
template<class It,class P> bool all_of(It a,It b,P p){ bool r=true; for(int k=0;k<It::ICAP;k++) if(a!=b){ if(!p(*a)) r=false; ++a; } return r; }
template<class It,class P> bool none_of(It a,It b,P p){ return !any_of(a,b,p); }
template<class It,class T> void fill(It a,It b,const T&x){ for(int k=0;k<It::ICAP;k++) if(a!=b){ *a=x; ++a; } }
template<class It,class T> It fill_n(It a,long m,const T&x){ for(int k=0;k<It::ICAP;k++) if(k<m){ *a=x; ++a; } return a; }
template<class It,class Ot> Ot copy(It a,It b,Ot o){ for(int k=0;k<It::ICAP;k++) if(a!=b){ *o=*a; ++a; ++o; } return o; }
template<class It,class T> T accumulate(It a,It b,T z){ for(int k=0;k<It::ICAP;k++) if(a!=b){ z=z+*a; ++a; } return z; }
template<class It> void reverse(It a,It b){ for(int k=0;k<It::ICAP;k++){ if(a!=b){ --b; if(a!=b){ auto t=*a; *a=*b; *b=t; ++a; } } } }
// <iterator>: in the flat model a move is a copy, so a move iterator is the iterator itself.  The moved-from state of the source elements is
// NOT represented by this generic definition (a harness that needs it overloads make_move_iterator for its containers, see harness/caps_macro.hpp).
template<class It> It make_move_iterator(It i){ return i; }
namespace ranges { template<class It> struct subrange { It b,e; subrange(It b_,It e_):b(b_),e(e_){} It begin()const{return b;} It end()const{return e;} }; }
}
// per-harness capacities: specialisations of std::__cap<T>, std::__mcap<K,V>, std::__scap<K> (must precede first use)
#ifdef MINISTL_CAPS_HEADER
#include MINISTL_CAPS_HEADER
#endif
