#!/usr/bin/env python3
"""Entry point of every registered check:  python3 check.py <property id> --tier quick|thorough
   python3 check.py --replay <replay.json>   re-runs a stored counterexample natively."""
import argparse, importlib, json, os, shutil, sys, time

HERE = os.path.dirname(os.path.abspath(__file__))
sys.path.insert(0, os.path.join(HERE, 'lib'))
sys.path.insert(0, os.path.join(HERE, 'props'))
import framework as fw


def replay(path):
    r = json.load(open(path))
    if 'nondet_stream' in r:
        j = fw.Job(r['job'], os.path.join(HERE, r['harness']), r['entry'], tus=r['tus'], defines=r['defines'])
        wd = fw.workdir('replay')
        try:
            rep = fw.native_replay(j, r['nondet_stream'], wd, 'manual')
        finally:
            shutil.rmtree(wd, ignore_errors=True)
        print(json.dumps({k: v for k, v in rep.items()}, indent=1))
        bad = rep.get('failed') or rep.get('sanitizer')
        print('REPRODUCED' if bad else 'NOT REPRODUCED')
        return 1 if bad else 0
    mod = importlib.import_module(r['module'])
    return mod.replay(r)


def main():
    ap = argparse.ArgumentParser()
    ap.add_argument('prop', nargs='?')
    ap.add_argument('--tier', default=os.environ.get('VERIF_TIER', 'quick'))
    ap.add_argument('--replay')
    a = ap.parse_args()
    if a.replay:
        sys.exit(replay(a.replay))
    prop = a.prop.upper()
    seed = int(os.environ.get('VERIF_SEED', '0') or 0)
    mod = importlib.import_module(prop.lower())
    t0 = time.time()
    wd = fw.workdir(prop)
    try:
        rc = mod.run(prop, a.tier, seed, wd, t0)
    finally:
        shutil.rmtree(wd, ignore_errors=True)
    sys.exit(rc)


if __name__ == '__main__':
    main()
