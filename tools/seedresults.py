#!/usr/bin/env python3
"""store the output of tools/seedtest.py runs (build/r5/test_<seed>.json) as seeded/<seed>/results.json (merging with earlier results of that seed)"""
import json, glob, os, sys
for f in sorted(glob.glob('/verif/build/r5/test_*.json')):
    sid = os.path.basename(f)[5:-5]
    s = open(f).read()
    try: res = json.loads(s[s.index('{'):])
    except Exception: continue
    d = '/verif/seeded/%s/' % sid
    if not os.path.isdir(d): continue
    old = json.load(open(d + 'results.json')) if os.path.exists(d + 'results.json') else {'seed': sid, 'results': {}}
    old['results'].update(res)
    old['caught_by'] = sorted(k for k, v in old['results'].items() if isinstance(v, dict) and v.get('rc') == 1)
    json.dump(old, open(d + 'results.json', 'w'), indent=1)
    print(sid, old['caught_by'])
