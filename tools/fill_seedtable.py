#!/usr/bin/env python3
"""replace the seed table of DESIGN.md 9.6 by the current output of tools/seedtable.py"""
import subprocess, re, os
V = os.path.dirname(os.path.dirname(os.path.abspath(__file__)))
t = subprocess.run(['python3', os.path.join(V, 'tools', 'seedtable.py')], capture_output=True, text=True).stdout
p = os.path.join(V, 'DESIGN.md'); s = open(p).read()
s = re.sub(r'<!-- SEEDTABLE-BEGIN -->.*?<!-- SEEDTABLE-END -->', lambda m: '<!-- SEEDTABLE-BEGIN -->\n' + t + '<!-- SEEDTABLE-END -->', s, flags=re.S)
open(p, 'w').write(s)
