#!/usr/bin/env python3
"""replace the thorough-tier table of DESIGN.md 9.8 by the output of tools/thorough_summary.py"""
import subprocess, re, os
V = os.path.dirname(os.path.dirname(os.path.abspath(__file__)))
t = subprocess.run(['python3', os.path.join(V, 'tools', 'thorough_summary.py')], capture_output=True, text=True).stdout
p = os.path.join(V, 'DESIGN.md'); s = open(p).read()
s = re.sub(r'<!-- THOROUGH-BEGIN -->.*?<!-- THOROUGH-END -->', lambda m: '<!-- THOROUGH-BEGIN -->\n' + t + '<!-- THOROUGH-END -->', s, flags=re.S)
open(p, 'w').write(s)
