#!/usr/bin/env python3
"""markdown table of the seeded changes and which checks catch them (from seeded/*/meta.json, results.json)"""
import json, glob, os
rows = []
for d in sorted(glob.glob('/verif/seeded/*/')):
    m = json.load(open(d + 'meta.json'))
    r = json.load(open(d + 'results.json')) if os.path.exists(d + 'results.json') else {}
    caught = r.get('caught_by')
    how = []
    for p, v in (r.get('results') or {}).items():
        if isinstance(v, dict) and v.get('rc') == 1:
            a = [l.split('assertion="')[1].split('"')[0][:70] for l in v['lines'] if 'assertion="' in l][:1]
            o = [l.split('obligation=')[1].split(' ')[0] for l in v['lines'] if 'obligation=' in l][:1]
            how.append('%s (%s%s)' % (p, o[0] if o else '', ': ' + a[0] if a else ''))
    rows.append('| %s | %s | %s | %s | %s |' % (os.path.basename(d.rstrip('/')), m['property'], m['needs'][:110], 'yes' if m.get('confirmed') else 'NO', ('; '.join(how) if how else ('not run' if caught is None else '**missed**'))))
print('| seed | breaks | needs | confirmed | caught by |\n|---|---|---|---|---|')
print('\n'.join(rows))
