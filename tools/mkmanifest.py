#!/usr/bin/env python3
"""Regenerates /verif/MANIFEST.json from the table below (keeps the interface file consistent with what is built)."""
import json, os
V = os.path.dirname(os.path.dirname(os.path.abspath(__file__)))
BASE_OFF = "cmake -S /repo -B /repo/_build -G Ninja >/dev/null && cmake --build /repo/_build >/dev/null && ctest --test-dir /repo/_build -j8 --timeout 900"
E1 = "E1: real C++ of /repo -> LLVM IR (clang 14, container model ministl) -> C (ir2c.py) -> CBMC 6.11 bounded symbolic execution, SAT"
CLAIMS = {
 # id: (category, level text, design ref, level note, technique)
 'C01': ('model_checking', 'Bounded symbolic checking of the real VM step against a reference semantics for every opcode and all operand values (one inductive step from an arbitrary invariant state); end-to-end composition with the compiler links is argued in DESIGN.md, not solved.', 'DESIGN.md 3 C01', 'WF program, Inv state, values below 2^31-1; ministl container model; bounds in evidence', 'CBMC symbolic execution of VM::executeSingle from a symbolic state vs reference step function'),
 'C02': ('model_checking', 'Per-stage bounded symbolic execution of the real front-end code with every library precondition, pointer check and unwinding bound as assertion; the parser is covered function by function with contract stubs (any token stream length).', 'DESIGN.md 3 C02', 'stage decomposition with interface invariants; LR generator on symbolic patterns, flex runtime and allocation failure outside', 'CBMC memory-safety/termination assertions over IR-derived C of parse.cpp functions (modular, contract stubs) and other stages'),
 'C03': ('model_checking', 'Inductive invariant (stack types against the annotated program) preserved by one symbolic step of the real VM, with all container preconditions and pointer checks as assertions; bounded array sizes, unbounded execution length.', 'DESIGN.md 3 C03', 'WF assumed in part (i); ministl; bounds in evidence', 'CBMC one-step induction over VM::executeSingle with WF type system as assumption'),
 'C04': ('model_checking', 'Modular (assume/guarantee) symbolic check of every grammar function of the real recursive-descent parser against the LL(1) row it must implement, callees as nondeterministic contract stubs, symbolic token window at a symbolic cursor: sound, complete, progress. Unbounded input length by the standard composition theorem.', 'DESIGN.md 3 C04', 'reference LL(1) tables from the fixed grammar spec; composition theorem is an argument; static rules are generator obligations', 'CBMC per-function check of parse.cpp against generated LL(1) tables with contract stubs (ir2c --stub)'),
 'C05': ('model_checking', '2-safety lemma (twin machines) and frame lemma for every debugger method, each one symbolic call from an arbitrary invariant state; histories of any length follow by induction.', 'DESIGN.md 3 C05', 'Inv_tab/Inv_en assumed in the pre-state and re-established; composition argument', 'CBMC 2-safety self-composition of VM::executeSingle + per-method frame conditions'),
 'C06': ('model_checking', 'Stop rule, current-location report and enabled-set bookkeeping checked per method from arbitrary invariant states against a ghost model; execute() against a shadow run.', 'DESIGN.md 3 C06', 'ghost model of the enabled set; bounded fuel for execute()', 'CBMC one-step checks of VM debugger API against a ghost enabled-set model'),
 'C17': ('model_checking', 'reset() from an arbitrary invariant state equals a freshly constructed machine field by field; HALT step is the identity.', 'DESIGN.md 3 C17', 'Inv, Inv_tab, Inv_en in the pre-state', 'CBMC field-wise equality of VM::reset() result with VM(original program)'),
 'C07': ('translation_validation', 'Per enumerated program shape (canonical layout) the natively compiled program is run by the real VM symbolically in all literal values and compared stop by stop with a reference interpreter that emits line events.', 'DESIGN.md 3 C07', 'shape family enumerated, literals symbolic; compiler executed natively per shape; reference = lib/theolang.py', 'CBMC symbolic execution of the real VM on natively compiled shapes vs reference interpreter (translation validation)'),
 'C08': ('model_checking', 'One-step inductive invariant (tables inverse, sites are exactly the POTENTIAL_BREAK instructions, no hidden-file location) over the real GenState::breakpoint / removeTopPotBreak / advanceLine / getMarkPos / emit from arbitrary symbolic table states, with the exact effect of each call; generator runs of any length by induction.', 'DESIGN.md 3 C08', 'syntactic frame check that only these functions touch the tables; token-line provenance checked concretely on native layouts', 'CBMC one-step induction over GenState table functions of gen.cpp from symbolic states'),
 'C12': ('translation_validation', 'Per enumerated macro pattern the real MacroDetector constructor runs natively; the solver validates its verdict and tables: non-prefix-free / ambiguous patterns (witness found by the solver on a derivation-table encoding) must be rejected, accepted patterns are recognised exactly by the real LR driver on all inputs up to the bound; getErrors executed symbolically; fixed expectation file for verdicts.', 'DESIGN.md 3 C12', 'pattern family <= 2 (quick) / <= 3 symbols; generator internals run natively only; expectation file spec/c12_rejections.json', 'translation validation: native LR table generation per pattern + CBMC symbolic execution of LRParser::parse and derivation-table oracle'),
 'C13': ('translation_validation', 'Per enumerated grammar the real generateParseTables runs natively; the real LRParser<int,int>::parse is executed symbolically on the produced tables for all inputs up to the bound against a CYK-style derivation-table oracle (accept iff in language / prefix in language, returned value = fold of the unique derivation, conflict-free implies unambiguous); FIRST sets compared with the textbook fixpoint on every grammar natively.', 'DESIGN.md 3 C13', 'grammar family sampled for the solver, exhaustive natively for FIRST; symbolic calculateFirstSets did not finish and is not part of the verdict', 'translation validation: native table generation per grammar + CBMC symbolic execution of the real LR driver vs derivation-table oracle'),
 'C14': ('model_checking', 'Bisimulation of the scanner automata (committed flex tables, lexer.l, fixed token spec, regenerated tables) proved as a one-step inductive SMT query over all 256 bytes (inputs of any length), plus bounded symbolic-string checks of the flex matching loop (longest match, line numbers).', 'DESIGN.md 2.3 / 3 C14', 'flex runtime buffer management not modelled; table model validated against the native yylex on every run', 'SMT (z3 + cvc5) inductive bisimulation query over DFAs extracted from lex.yy.c / lexer.l / tokens.spec'),
 'C15': ('model_checking', 'The real Theo::scan is executed symbolically with the flex API replaced by a script lexer: include graphs (targets, presence, main) and line numbers chosen by the solver within small bounds, compared with a reference include expander; layer-A obligations on exists_scanner/create_scanner/cleanup_scanner; every solver counterexample and 242 generated graphs are replayed through the native scanner.', 'DESIGN.md 3 C15', 'bounds: <= 3 files x <= 2 entries x <= 3 visits symbolic (quick); larger layouts concrete with symbolic lines; termination beyond the bound argued from the distinct-names invariant', 'CBMC bounded symbolic execution of scan.cpp with a scripted lexer stub vs reference expander'),
 'C16': ('translation_validation', 'Per compiled shape the solver finds a routine annotation proving the call graph acyclic (existential SAT query) and the real VM run (symbolic literals) respects the depth bound and halts after exactly the reference number of steps.', 'DESIGN.md 3 C16', 'shape family enumerated; compiler native per shape', 'SAT-found region annotation (CBMC) + symbolic VM run vs reference step count'),
 'C19': ('model_checking', 'Inductive invariant data.size()==sum of live frame sizes and contiguity, preserved by one symbolic step for all opcodes.', 'DESIGN.md 3 C19', 'WF program; bounds in evidence', 'CBMC one-step induction over VM::executeSingle'),
 'C20': ('model_checking', 'Signed-overflow assertions on the nsw arithmetic of the real step for all 32-bit operands plus the natural-number invariant.', 'DESIGN.md 3 C20', 'WF program (CONST operands >= 0)', 'CBMC --signed-overflow-check on IR-derived C of VM::executeSingle, all operand values'),
}
NA = {}
for i in range(1, 21):
    p = 'C%02d' % i
    if p not in CLAIMS:
        NA[p] = 'check not built yet in this round (planned per DESIGN.md); not claimed until its solver-based check exists'
def main():
    over = os.path.join(V, 'tools', 'manifest_overrides.json')
    claims = dict(CLAIMS); na = dict(NA)
    if os.path.exists(over):
        o = json.load(open(over))
        for k, v in o.get('claims', {}).items(): claims[k] = tuple(v); na.pop(k, None)
        for k, v in o.get('not_applicable', {}).items(): na[k] = v; claims.pop(k, None)
    checks = []
    for p in sorted(claims):
        cat, text, ref, note, tech = claims[p]
        eng = 'E2' if p == 'C14' else 'E1'
        checks.append({'property_id': p, 'quick_cmd': 'python3 check.py %s --tier quick' % p, 'thorough_cmd': 'python3 check.py %s --tier thorough' % p,
                       'evidence_file': 'evidence/%s.json' % p, 'replay_cmd_template': 'python3 check.py --replay {path}', 'engine': eng,
                       'level_claimed': {'category': cat, 'text': text, 'design_ref': ref}, 'level_note': note, 'technique': tech})
    m = {'version': 1, 'setup_cmd': 'python3 tools/setup.py',
         'hooks': {'guard': 'THEO_IDE_LIBTHEO_VERIF', 'enable': 'none needed: harness translation units are compiled with -fno-access-control and include the real .cpp files; no source hooks exist',
                   'baseline_off_cmd': BASE_OFF, 'source_commits': [], 'add_only': True},
         'engines': [{'name': 'E1', 'path': 'lib/e1.py', 'serves_properties': sorted(c for c in claims if c != 'C14'), 'kind_free_text': E1},
                     {'name': 'E2', 'path': 'lib/lexenc.py', 'serves_properties': ['C14'], 'kind_free_text': 'scanner tables of lex.yy.c, lexer.l and a fixed token spec -> DFAs -> SMT-LIB (z3 5.1 via python3-vt, cvc5 1.0), inductive bisimulation and bounded munch queries'}],
         'checks': checks,
         'notes': 'Every check regenerates its encoding from /repo\'s working tree. fix: commits in /repo: see known_findings.json.',
         'not_applicable': [{'property_id': p, 'reason': na[p]} for p in sorted(na)]}
    json.dump(m, open(os.path.join(V, 'MANIFEST.json'), 'w'), indent=1)
if __name__ == '__main__':
    main()
