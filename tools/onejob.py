#!/usr/bin/env python3
"""debug helper: run only the jobs of one provider whose name matches a regex, print failing properties.
usage: [VERIF_REPO=...] onejob.py <module.func> <tier> <prop> <regex>    e.g.  onejob.py c04.parser_jobs quick C02 'parse.MVARGS'"""
import sys, os, re, json, importlib
V = os.path.dirname(os.path.dirname(os.path.abspath(__file__)))
sys.path[:0] = [os.path.join(V, 'lib'), os.path.join(V, 'props')]
import framework as fw
mod, fn = sys.argv[1].split('.'); tier, prop, rx = sys.argv[2], sys.argv[3], sys.argv[4]
wd = os.path.join(V, 'build', 'onejob_' + prop + ('_' + os.path.basename(os.environ['VERIF_REPO']) if os.environ.get('VERIF_REPO') else '')); os.makedirs(wd, exist_ok=True)
m = importlib.import_module(mod); f = getattr(m, fn)
try: r = f(prop, tier, wd, [prop])
except TypeError:
    try: r = f(prop, tier, wd)
    except TypeError: r = f(tier, prop)
jobs = r[0] if isinstance(r, tuple) else r
jobs = [j for j in jobs if re.search(rx, j.name)]
print('jobs:', [j.name for j in jobs])
fw.run_jobs(prop, jobs, wd)
for j in jobs:
    if j.error or j.result is None: print(j.name, 'ERROR', (j.error or '')[:2000]); continue
    r = j.result; print(j.name, r.status, '%.0fs' % r.wall, '%d MB' % r.rss_mb)
    for pid, pr in r.props.items():
        if pr['status'] != 'SUCCESS': print('   ', pr['status'], pid, '|', pr['description'][:160])
out = fw.classify(prop, jobs, wd)
print('violations', [(v['job'], v['assertion'][:100]) for v in out.violations]); print('inconclusive', out.inconclusive); print('out_of_scope', out.out_of_scope[:10]); print('known', out.known)
