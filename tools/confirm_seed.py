#!/usr/bin/env python3
"""confirm a seeded change independently: scratch worktree of /repo HEAD, apply patch, build + ctest (12/12), demo passes without / fails with the change.
usage: confirm_seed.py <id> <patch.diff> <demo.cpp> <property> "<needs>"   -> writes /verif/seeded/<id>/{patch.diff,demo.cpp,meta.json}"""
import subprocess, sys, os, shutil, json, re
sid, patch, demo, prop, needs = sys.argv[1:6]
W = '/tmp/seedchk_' + sid
def sh(cmd, **kw): return subprocess.run(cmd, shell=True, stdout=subprocess.PIPE, stderr=subprocess.STDOUT, text=True, **kw)
sh('git -C /repo worktree remove --force %s' % W); shutil.rmtree(W, ignore_errors=True)
r = sh('git -C /repo worktree add -q --detach %s HEAD' % W); assert r.returncode == 0, r.stdout
meta = {'id': sid, 'property': prop, 'needs': needs, 'base_commit': sh('git -C /repo rev-parse --short HEAD').stdout.strip()}
try:
    def build_demo(tag):
        src = open(demo).read()
        cmd = 'g++ -std=c++20 -O1 -I{w} -I{w}/Compiler/include {d} {w}/Compiler/src/ast.cpp {w}/Compiler/src/parse.cpp {w}/Compiler/src/gen.cpp {w}/Compiler/src/compiler.cpp {w}/Compiler/src/scan.cpp {w}/Compiler/src/macro.cpp {w}/Compiler/src/ParserGenerator/*.cpp -x c++ {w}/Compiler/src/lex.yy.c -x none {w}/VM/src/*.cpp -o {w}/demo_{t}'.format(w=W, d=demo, t=tag)
        b = sh(cmd)
        if b.returncode != 0: return None, b.stdout[-600:]
        try:
            q = sh('%s/demo_%s' % (W, tag), timeout=300)
            return q.returncode, q.stdout[-400:]
        except subprocess.TimeoutExpired:
            return -999, 'timeout'
    rc0, out0 = build_demo('clean')
    a = sh('git -C %s apply %s' % (W, os.path.abspath(patch)))
    meta['patch_applies'] = a.returncode == 0
    if a.returncode != 0: meta['apply_error'] = a.stdout[-300:]
    else:
        t = sh('cmake -S {w} -B {w}/_build -G Ninja >/dev/null && cmake --build {w}/_build 2>&1 | tail -3 && ctest --test-dir {w}/_build -j8 --timeout 900 2>&1 | tail -4'.format(w=W))
        m = re.search(r'(\d+)% tests passed, (\d+) tests failed out of (\d+)', t.stdout)
        meta['compiles_and_tests'] = t.stdout[-300:] if not m else '%s%% passed, %s failed of %s' % m.groups()
        meta['tests_pass'] = bool(m and m.group(2) == '0' and m.group(3) == '12')
        # cmake may have regenerated the scanner in-tree: restore exactly the patched state
        sh('git -C %s checkout -- . && git -C %s apply %s' % (W, W, os.path.abspath(patch)))
        rc1, out1 = build_demo('mut')
        meta['demo_clean'] = {'rc': rc0, 'out': out0[-200:]}; meta['demo_mutated'] = {'rc': rc1, 'out': out1[-200:]}
        meta['demo_discriminates'] = rc0 == 0 and rc1 not in (0, None)
    meta['confirmed'] = bool(meta.get('patch_applies') and meta.get('tests_pass') and meta.get('demo_discriminates'))
finally:
    sh('git -C /repo worktree remove --force %s' % W); shutil.rmtree(W, ignore_errors=True)
d = '/verif/seeded/' + sid
os.makedirs(d, exist_ok=True)
shutil.copy(patch, d + '/patch.diff'); shutil.copy(demo, d + '/demo.cpp')
old = {}
if os.path.exists(d + '/meta.json'): old = json.load(open(d + '/meta.json'))
old.update(meta); json.dump(old, open(d + '/meta.json', 'w'), indent=1)
print(json.dumps(meta, indent=1))
