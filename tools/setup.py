#!/usr/bin/env python3
"""setup_cmd: nothing persistent is built (all engines are scripts; every check rebuilds what it needs from /repo).
Verifies that the tools the checks call are present."""
import shutil, sys, os
need = ['clang++-14', 'llvm-link-14', 'opt-14', 'cbmc', 'g++', 'z3', 'cvc5', 'flex']
missing = [t for t in need if shutil.which(t) is None]
os.makedirs(os.path.join(os.path.dirname(os.path.dirname(os.path.abspath(__file__))), 'evidence'), exist_ok=True)
print('missing tools: %s' % missing if missing else 'all tools present')
sys.exit(1 if [m for m in missing if m != 'flex'] else 0)
