#!/usr/bin/env python3
"""run the registered checks against every confirmed seed (sequentially; /repo is patched and restored per seed); results -> seeded/<id>/results.json"""
import json, os, subprocess, sys, glob, time
only = sys.argv[1:]
for d in sorted(glob.glob('/verif/seeded/*/')):
    sid = os.path.basename(d.rstrip('/'))
    if only and sid not in only: continue
    meta = json.load(open(d + 'meta.json'))
    if not meta.get('confirmed'): continue
    props = sorted(set([meta['property']] + meta.get('also_run', ['C01', 'C03', 'C05', 'C06', 'C07', 'C16', 'C17', 'C19'])))
    t = time.time()
    p = subprocess.run([sys.executable, '/verif/tools/seedtest.py', d + 'patch.diff'] + props, stdout=subprocess.PIPE, stderr=subprocess.STDOUT, text=True)
    try:
        res = json.loads(p.stdout[p.stdout.index('{'):])
    except Exception:
        res = {'error': p.stdout[-800:]}
    caught = sorted(k for k, v in res.items() if isinstance(v, dict) and v.get('rc') == 1)
    json.dump({'seed': sid, 'wall_s': round(time.time() - t), 'caught_by': caught, 'results': res}, open(d + 'results.json', 'w'), indent=1)
    print(sid, 'caught by', caught, round(time.time() - t), 's', flush=True)
