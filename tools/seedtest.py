#!/usr/bin/env python3
"""apply a seeded change to /repo, run the given checks (quick tier), undo the change.  usage: seedtest.py <patch.diff> C19 C03 ..."""
import subprocess, sys, os, time, json
patch = os.path.abspath(sys.argv[1]); props = sys.argv[2:]
tier = os.environ.get('SEED_TIER', 'quick')
assert subprocess.run(['git', '-C', '/repo', 'status', '--porcelain', '--untracked-files=no'], capture_output=True, text=True).stdout.strip() == '', '/repo has local edits'
subprocess.run(['git', '-C', '/repo', 'apply', patch], check=True)
res = {}
try:
    procs = {p: subprocess.Popen([sys.executable, '/verif/check.py', p, '--tier', tier], cwd='/verif', stdout=subprocess.PIPE, stderr=subprocess.STDOUT, text=True) for p in props}
    for p, pr in procs.items():
        out, _ = pr.communicate()
        lines = [l for l in out.splitlines() if l.startswith(('VIOLATION', 'KNOWN', 'INCONCLUSIVE', p)) or 'assertion=' in l]
        res[p] = {'rc': pr.returncode, 'lines': lines[-8:]}
finally:
    subprocess.run(['git', '-C', '/repo', 'checkout', '--', '.'], check=True)
print(json.dumps(res, indent=1))
