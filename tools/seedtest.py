#!/usr/bin/env python3
"""run checks against a seeded change WITHOUT touching /repo: scratch worktree of /repo HEAD + patch, checks run with VERIF_REPO pointing at it
(equivalent to `git -C /repo apply`, run, `git -C /repo checkout -- .`, but safe while other work reads /repo).
usage: seedtest.py <patch.diff> C19 C03 ..."""
import subprocess, sys, os, time, json, shutil, hashlib
patch = os.path.abspath(sys.argv[1]); props = sys.argv[2:]
tier = os.environ.get('SEED_TIER', 'quick')
W = '/tmp/seedrepo_' + hashlib.md5(patch.encode()).hexdigest()[:8]
subprocess.run(['git', '-C', '/repo', 'worktree', 'remove', '--force', W], capture_output=True); shutil.rmtree(W, ignore_errors=True)
subprocess.run(['git', '-C', '/repo', 'worktree', 'add', '-q', '--detach', W, 'HEAD'], check=True)
res = {}
try:
    subprocess.run(['git', '-C', W, 'apply', patch], check=True)
    os.makedirs('/verif/build/seed_evidence', exist_ok=True)
    env = dict(os.environ, VERIF_REPO=W, VERIF_EVIDENCE_DIR='/verif/build/seed_evidence')
    procs = {p: subprocess.Popen([sys.executable, '/verif/check.py', p, '--tier', tier], cwd='/verif', stdout=subprocess.PIPE, stderr=subprocess.STDOUT, text=True, env=env) for p in props}
    for p, pr in procs.items():
        out, _ = pr.communicate()
        lines = [l[:400] for l in out.splitlines() if l.startswith(('VIOLATION', 'KNOWN', 'INCONCLUSIVE', p)) or 'assertion=' in l]
        res[p] = {'rc': pr.returncode, 'lines': lines[-8:]}
finally:
    subprocess.run(['git', '-C', '/repo', 'worktree', 'remove', '--force', W], capture_output=True); shutil.rmtree(W, ignore_errors=True)
print(json.dumps(res, indent=1))
