#!/bin/bash
# run every registered quick (or $1) check on /repo, two chains in parallel, evidence into /verif/evidence; summary in build/t/runall.log
cd /verif
tier=${1:-quick}
mkdir -p build/t
chain(){ for p in "$@"; do /usr/bin/time -f "$p $tier wall=%e rc=%x" python3 check.py $p --tier $tier 2>&1 | grep -E "^(VIOLATION|KNOWN|INCONCLUSIVE|C[0-9][0-9] $tier)|wall=" | cut -c1-300; done; }
chain C02 C01 C16 C12 C09 C15 C19 C05 C10 C18 > build/t/runall_a.log 2>&1 &
chain C04 C07 C20 C13 C03 C17 C06 C08 C14 C11 > build/t/runall_b.log 2>&1 &
wait
cat build/t/runall_a.log build/t/runall_b.log > build/t/runall.log
