#!/usr/bin/env python3
"""markdown table of the last thorough runs (evidence written to build/thorough_evidence by VERIF_EVIDENCE_DIR=... check.py <id> --tier thorough)"""
import json, glob, os
V = os.path.dirname(os.path.dirname(os.path.abspath(__file__)))
print('| id | obligations discharged | solver queries | solver s | wall s | max RSS MB | inconclusive | violations |'); print('|---|---|---|---|---|---|---|---|')
for f in sorted(glob.glob(os.path.join(V, 'build', 'thorough_evidence', 'C*.json'))):
    e = json.load(open(f)); c = e['coverage']
    print('| %s | %s/%s | %s | %s | %s | %s | %d | %s |' % (e['property_id'], c.get('discharged'), c.get('obligations'), c.get('evaluations'), round(c.get('solver_seconds', 0)), round(e.get('wall_s', 0)), c.get('max_rss_mb'), len(c.get('inconclusive', [])), e.get('violations')))
