// Native helper (real libstdc++, real /repo sources): compile a set of files and dump the result as JSON.
// usage: theoc_dump <main name> <name1> <path1> [<name2> <path2> ...]     (absent main allowed)
#include <cstdio>
#include <fstream>
#include <iostream>
#include <sstream>
#include "Compiler/include/compiler.hpp"
#include "VM/include/vm.hpp"
static std::string esc(const std::string &s) { std::string o; for (unsigned char c : s) { if (c == '"' || c == '\\') { o += '\\'; o += c; } else if (c < 32 || c > 126) { char b[8]; snprintf(b, 8, "\\u%04x", c); o += b; } else o += c; } return o; }
int main(int argc, char **argv) {
  std::map<Theo::FileName, Theo::FileContent> files;
  for (int i = 2; i + 1 < argc; i += 2) { std::ifstream f(argv[i + 1], std::ios::binary); std::stringstream ss; ss << f.rdbuf(); files[argv[i]] = ss.str(); }
  Theo::CodegenResult r = Theo::compile(files, argv[1]);
  std::cout << "{\"ok\": " << (r.generated_correctly ? "true" : "false") << ", \"errors\": [";
  for (size_t i = 0; i < r.errors.size(); i++) std::cout << (i ? ", " : "") << "{\"type\": " << (int)r.errors[i].t << ", \"msg\": \"" << esc(r.errors[i].message) << "\", \"file\": \"" << esc(r.errors[i].file) << "\", \"line\": " << r.errors[i].line << "}";
  std::cout << "], \"file_requests\": [";
  for (size_t i = 0; i < r.file_requests.size(); i++) std::cout << (i ? ", " : "") << "\"" << esc(r.file_requests[i]) << "\"";
  std::cout << "], \"code\": [";
  for (size_t i = 0; i < r.code.code.size(); i++) { auto &I = r.code.code[i]; std::cout << (i ? ", " : "") << "[" << (int)I.op << ", " << I.parameters.test.target << ", " << I.parameters.test.op1 << ", " << I.parameters.test.op2 << "]"; }
  std::cout << "], \"stack_maps\": [";
  for (size_t i = 0; i < r.code.stack_maps.size(); i++) { std::cout << (i ? ", " : "") << "{\"func\": \"" << esc(r.code.stack_maps[i].func_name) << "\", \"map\": {"; bool f = true; for (auto &kv : r.code.stack_maps[i].map) { std::cout << (f ? "" : ", ") << "\"" << kv.first << "\": \"" << esc(kv.second) << "\""; f = false; } std::cout << "}}"; }
  std::cout << "], \"line_info\": [";
  { bool f = true; for (auto &kv : r.code.line_info) { std::cout << (f ? "" : ", ") << "[" << kv.first << ", \"" << esc(kv.second.file) << "\", " << kv.second.line << "]"; f = false; } }
  std::cout << "], \"potential_breaks\": [";
  { bool f = true; for (auto &kv : r.code.potential_breaks) { std::cout << (f ? "" : ", ") << "[\"" << esc(kv.first.file) << "\", " << kv.first.line << ", ["; for (size_t k = 0; k < kv.second.size(); k++) std::cout << (k ? ", " : "") << kv.second[k]; std::cout << "]]"; f = false; } }
  std::cout << "]";
  // optional execution: VERIF_RUN=<max steps>  -> complete stepping run: stops with location and variable views, final variables
  if (getenv("VERIF_RUN") && r.generated_correctly) {
    long maxsteps = atol(getenv("VERIF_RUN")); long steps = 0;
    Theo::VM vm(r.code); vm.setSteppingMode(true);
    std::cout << ", \"stops\": [";
    bool first = true; size_t maxdata = 0, maxdepth = 0;
    auto views = [&]() { std::cout << "["; bool f2 = true; for (auto &a : vm.getActivations()) { std::cout << (f2 ? "" : ", ") << "{"; bool f3 = true; for (auto &kv : a.getActivationVariables()) { std::cout << (f3 ? "" : ", ") << "\"" << esc(kv.first) << "\": " << kv.second; f3 = false; } std::cout << "}"; f2 = false; } std::cout << "]"; };
    // a stop is recorded whenever executeSingle() reports one for a breakpoint instruction (also for the site directly before HALT)
    while (steps < maxsteps) {
      Theo::OpCode op = vm.code.code[vm.instruction_pointer].op;
      if (op == Theo::OpCode::HALT) break;
      bool stop = vm.executeSingle(); steps++;
      if (vm.data.size() > maxdata) maxdata = vm.data.size();
      if (vm.stack.size() > maxdepth) maxdepth = vm.stack.size();
      if (!stop) continue;
      Theo::BreakPoint bp = vm.getCurrentBreak();
      std::cout << (first ? "" : ", ") << "{\"file\": \"" << esc(bp.file) << "\", \"line\": " << bp.line << ", \"views\": "; views(); std::cout << "}"; first = false;
    }
    std::cout << "], \"done\": " << (vm.isDone() ? "true" : "false") << ", \"steps\": " << steps << ", \"max_data\": " << maxdata << ", \"max_depth\": " << maxdepth << ", \"final\": "; views();
  }
  std::cout << "}" << std::endl;
  return 0;
}
