// Native helper (real libstdc++, real /repo sources, -fno-access-control): runs the REAL LR(1) table generator on one instance per input
// line and prints one JSON object per line.  The generator (hull/jump/elements/generateParseTables) is never executed symbolically
// (DESIGN.md 1 item 5); its OUTPUT is what the solver validates (harness/lr_parse.cpp).
//
// input lines (stdin):
//   G <prefix 0|1> <eof terminal> <#nonterminals> <start nonterminal> <rules>            tables of LRParser<int,int> for an enumerated grammar
//        rules: ';'-separated, each "<lhs>:<sym>,<sym>,..." with sym = t<k> (terminal k) | n<k> (nonterminal k); empty right side = epsilon
//        the k-th rule of the line has rule id k; its semantic action is the Goedel fold  v = k+1; for c in popped: v = (v*31 + c) mod 2^31
//        leaf values: creator(token) = token + 1; translator(token) = Terminal(token)
//   G ... # <tok> <tok> ...      additionally parse the token sequence (end marker must be included) with the real driver
//   P <type>[:<text>] ...        the REAL MacroDetector constructor (Compiler/src/macro.cpp) on the pattern whose tokens have these Token::Type numbers
//   P ... # <type> <type> ...    additionally run the detector's own parser (prefix mode, Accumulation values) on the token-type sequence
#include <cstdio>
#include <cstdlib>
#include <iostream>
#include <sstream>
#include <string>
#include <vector>
#include "Compiler/src/macro.cpp"

// macro.cpp refers to it in a diagnostic; scan.cpp (flex scanner) is not linked into this tool
std::string Theo::token_string(Theo::Token::Type t) { return std::to_string((int)t); }

using namespace Theo;
typedef LRParser<int, int> IntParser;

static std::string esc(const std::string &s) { std::string o; for (unsigned char c : s) { if (c == '"' || c == '\\') { o += '\\'; o += c; } else if (c < 32 || c > 126) { char b[8]; snprintf(b, 8, "\\u%04x", c); o += b; } else o += c; } return o; }

static std::string sym_json(const Grammar::Symbol &s) { return "[" + std::to_string((int)s.t) + ", " + std::to_string(s.index) + "]"; }

// tables + grammar facts of a parser after generateParseTables(); rule_id(cell) -> int (or -1 when it cannot be told)
template <class Parser, class RuleId>
static void dump_tables(std::ostream &o, Parser &p, RuleId rule_id) {
  o << "\"nstates\": " << p.action.size() << ", \"action_width\": " << (p.action.empty() ? 0 : p.action[0].size())
    << ", \"jump_width\": " << (p.jump.empty() ? 0 : p.jump[0].size()) << ", \"max_used_terminal\": " << p.G.max_used_terminal
    << ", \"total_non_terminals\": " << p.G.total_non_terminals << ", \"accept_prefix\": " << (p.accept_prefix ? "true" : "false")
    << ", \"eof\": " << p.eof.index << ", \"start\": " << p.S.index << ", \"action\": [";
  for (size_t s = 0; s < p.action.size(); s++) {
    o << (s ? ", [" : "[");
    for (size_t a = 0; a < p.action[s].size(); a++) {
      auto &c = p.action[s][a];
      int t = (int)c.t, st = 0, left = 0, beta = 0, rid = -1;
      if (c.t == Parser::Action::SHIFT) st = c.state;
      if (c.t == Parser::Action::REDUCE) { left = c.left; beta = c.beta; rid = rule_id(c); }
      o << (a ? ", " : "") << "[" << t << ", " << st << ", " << left << ", " << beta << ", " << rid << "]";
    }
    o << "]";
  }
  o << "], \"jump\": [";
  for (size_t s = 0; s < p.jump.size(); s++) {
    o << (s ? ", [" : "[");
    for (size_t a = 0; a < p.jump[s].size(); a++) o << (a ? ", " : "") << p.jump[s][a];
    o << "]";
  }
  o << "], \"first_sets\": [";
  bool f = true;
  for (auto &kv : p.G.first_sets) {
    o << (f ? "" : ", ") << "{\"sym\": " << sym_json(kv.first) << ", \"first\": ["; f = false;
    bool g = true; for (auto &x : kv.second) { o << (g ? "" : ", ") << sym_json(x); g = false; }
    o << "]}";
  }
  o << "], \"rules\": [";
  f = true;
  for (auto &kv : p.G.right_sides) for (size_t k = 0; k < kv.second.size(); k++) {
    o << (f ? "" : ", ") << "{\"left\": " << kv.first.index << ", \"alt\": " << k << ", \"right\": ["; f = false;
    for (size_t i = 0; i < kv.second[k].size(); i++) o << (i ? ", " : "") << sym_json(kv.second[k][i]);
    o << "]}";
  }
  o << "]";
}

template <class V> static void dump_conflicts(std::ostream &o, const V &res) {
  o << "\"conflicts\": [";
  for (size_t i = 0; i < res.size(); i++) o << (i ? ", " : "") << "{\"type\": " << (int)res[i].t << ", \"msg\": \"" << esc(res[i].msg) << "\"}";
  o << "]";
}

static std::vector<std::string> split(const std::string &s, char sep) { std::vector<std::string> r; std::string cur; for (char c : s) { if (c == sep) { r.push_back(cur); cur.clear(); } else cur += c; } r.push_back(cur); return r; }

static int fold_action(int rule, const std::vector<int> &c) { unsigned v = (unsigned)rule + 1u; for (int x : c) v = (v * 31u + (unsigned)x) & 0x7fffffffu; return (int)v; }

static void do_grammar(std::istringstream &in, std::ostream &o) {
  int prefix, eof, nnt, start; std::string rules;
  in >> prefix >> eof >> nnt >> start >> rules;
  SemanticGrammar<int> G;
  std::vector<Grammar::Symbol> nts;
  for (int i = 0; i < nnt; i++) nts.push_back(G.createNonTerminal());
  int rid = 0;
  if (rules != "-") for (auto &r : split(rules, ';')) {
    auto lr = split(r, ':');
    int lhs = atoi(lr[0].c_str());
    std::vector<Grammar::Symbol> right;
    if (lr.size() > 1 && !lr[1].empty()) for (auto &s : split(lr[1], ',')) {
      if (s[0] == 't') right.push_back(Grammar::Symbol::Terminal(atoi(s.c_str() + 1)));
      else if (s[0] == 'n') right.push_back(nts.at(atoi(s.c_str() + 1)));
      else if (s[0] == 'e') right.push_back(Grammar::Symbol::Epsilon());
    }
    int id = rid++;
    G.add(std::make_pair(nts.at(lhs), right), [id](std::vector<int> c) -> int { return fold_action(id, c); });
  }
  IntParser p(G, prefix != 0, [](int t) -> Grammar::Symbol { return Grammar::Symbol::Terminal((unsigned)t); }, [](int t) -> int { return t + 1; },
              nts.at(start), Grammar::Symbol::Terminal((unsigned)eof));
  auto res = p.generateParseTables();
  o << "{\"kind\": \"grammar\", ";
  dump_conflicts(o, res);
  o << ", ";
  dump_tables(o, p, [](const IntParser::Action &c) -> int { return c.action ? c.action(std::vector<int>{}) - 1 : -1; });
  // the real Grammar::first on every string of at most two symbols of the (augmented) grammar
  {
    std::vector<Grammar::Symbol> syms;
    for (auto &kv : p.G.first_sets) if (kv.first.t != Grammar::Symbol::EPSILON) syms.push_back(kv.first);
    o << ", \"first_strings\": [";
    bool f = true;
    auto one = [&](std::vector<Grammar::Symbol> str) {
      auto r = p.G.first(str);
      o << (f ? "" : ", ") << "{\"string\": ["; f = false;
      for (size_t i = 0; i < str.size(); i++) o << (i ? ", " : "") << sym_json(str[i]);
      o << "], \"first\": [";
      bool g = true; for (auto &x : r) { o << (g ? "" : ", ") << sym_json(x); g = false; }
      o << "]}";
    };
    one({});
    for (auto &a : syms) { one({a}); for (auto &b : syms) one({a, b}); }
    o << "]";
  }
  std::string tok;
  if (in >> tok && tok == "#") {
    std::vector<int> w; int x; while (in >> x) w.push_back(x);
    // a driver over tables with conflicts may not terminate: the caller applies a time limit
    auto pr = p.parse(w);
    o << ", \"parse\": {\"accept\": " << (pr.t == IntParser::ParseResult::ACCEPT ? "true" : "false") << ", \"value\": " << (pr.t == IntParser::ParseResult::ACCEPT ? pr.st : 0) << "}";
  }
  o << "}";
}

static void do_pattern(std::istringstream &in, std::ostream &o) {
  MacroDefinition md = {.priority = 0, .rule = {}, .content_constraint_token_indices = {}, .template_token_indices = {}, .replacement = {}};
  std::string tok; bool has_input = false;
  while (in >> tok) {
    if (tok == "#") { has_input = true; break; }
    auto tt = split(tok, ':');
    Token t((Token::Type)atoi(tt[0].c_str()), tt.size() > 1 ? tt[1] : std::string("x"), "m", 7);
    md.rule.push_back(t);
    switch (t.t) {
      case Token::NV_ID: case Token::ID: case Token::INT: md.content_constraint_token_indices.push_back(md.rule.size() - 1); break;
      case Token::PROG_TEMP: case Token::ARGS_TEMP: case Token::ID_TEMP: case Token::INT_TEMP: case Token::VALUE_TEMP: md.template_token_indices.push_back(md.rule.size() - 1); break;
      default: break;
    }
  }
  MacroDetector det(md);
  auto errs = det.getErrors();
  o << "{\"kind\": \"pattern\", \"errors\": [";
  for (size_t i = 0; i < errs.size(); i++) o << (i ? ", " : "") << "{\"type\": " << (int)errs[i].t << ", \"non_lr\": " << (errs[i].t == ParseError::MACRO_COMPILE_NON_LR ? "true" : "false") << ", \"file\": \"" << esc(errs[i].file) << "\", \"line\": " << errs[i].line << "}";
  o << "], ";
  dump_conflicts(o, det.gen_res);
  o << ", ";
  typedef LRParser<MacroDetector::Accumulation, Token> MP;
  dump_tables(o, det.parser, [](const MP::Action &) -> int { return -1; });
  if (has_input) {
    std::vector<Token> w; int x; while (in >> x) w.push_back(Token((Token::Type)x, "x", "m", 9));
    auto pr = det.parser.parse(w);
    o << ", \"parse\": {\"accept\": " << (pr.t == MP::ParseResult::ACCEPT ? "true" : "false") << ", \"length\": " << (pr.t == MP::ParseResult::ACCEPT ? (long)pr.st.total_sequence.size() : -1L) << "}";
  }
  o << "}";
}

int main() {
  std::string line;
  while (std::getline(std::cin, line)) {
    if (line.empty()) continue;
    std::istringstream in(line);
    std::string kind; in >> kind;
    std::ostringstream o;
    if (kind == "G") do_grammar(in, o);
    else if (kind == "P") do_pattern(in, o);
    else o << "{\"kind\": \"error\", \"msg\": \"unknown line kind\"}";
    std::cout << o.str() << std::endl;
  }
  return 0;
}
