// Native helper of C15 (real libstdc++, real /repo sources incl. the real flex scanner lex.yy.c): run Theo::scan - or, built with
// -DWITH_PARSE, Theo::parse - on include graphs and print what the public API returns, one JSON line per case.
// usage: scan_dump scan|parse <case file>
// case file:   CASE <main> <n>        followed by n lines   <name> <content>      every field hex-encoded, "-" = empty string
#include <cstdio>
#include <fstream>
#include <iostream>
#include <map>
#include <sstream>
#include <string>
#include "Compiler/include/scan.hpp"
#ifdef WITH_PARSE
#include "Compiler/include/parse.hpp"
#endif
static std::string unhex(const std::string &h) {
  if (h == "-") return "";
  std::string o;
  for (size_t i = 0; i + 1 < h.size(); i += 2) o += (char)std::stoi(h.substr(i, 2), nullptr, 16);
  return o;
}
static std::string esc(const std::string &s) {
  std::string o;
  for (unsigned char c : s) { if (c == '"' || c == '\\') { o += '\\'; o += c; } else if (c < 32 || c > 126) { char b[8]; snprintf(b, 8, "\\u%04x", c); o += b; } else o += c; }
  return o;
}
int main(int argc, char **argv) {
  if (argc < 3) return 2;
  std::string mode = argv[1];
  std::ifstream in(argv[2]);
  std::string w;
  while (in >> w) {
    if (w != "CASE") return 3;
    std::string mainh; int n; in >> mainh >> n;
    std::map<Theo::FileName, Theo::FileContent> files;
    for (int i = 0; i < n; i++) { std::string a, b; in >> a >> b; files[unhex(a)] = unhex(b); }
    std::string mainname = unhex(mainh);
    if (mode == "scan") {
      Theo::ScanResult r = Theo::scan(files, mainname);
      std::cout << "{\"tokens\": [";
      for (size_t i = 0; i < r.toks.size(); i++) std::cout << (i ? ", " : "") << "[" << (int)r.toks[i].t << ", \"" << esc(r.toks[i].text) << "\", \"" << esc(r.toks[i].file) << "\", " << r.toks[i].line << "]";
      std::cout << "], \"errors\": [";
      for (size_t i = 0; i < r.errors.size(); i++) std::cout << (i ? ", " : "") << "[" << (int)r.errors[i].t << ", \"" << esc(r.errors[i].file) << "\", " << r.errors[i].line << ", \"" << esc(r.errors[i].file_request) << "\"]";
      std::cout << "]}" << std::endl;
    }
#ifdef WITH_PARSE
    else if (mode == "parse") {
      Theo::ParseResult pr = Theo::parse(files, mainname);
      std::cout << "{\"missing\": [";
      for (size_t i = 0; i < pr.missing_files.size(); i++) std::cout << (i ? ", " : "") << "\"" << esc(pr.missing_files[i]) << "\"";
      std::cout << "]}" << std::endl;
      pr.a.clear();
    }
#endif
    else return 4;
  }
  return 0;
}
