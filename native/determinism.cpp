// Native confirmation for C18 (not the verdict): compile the same inputs repeatedly, interleaved with other compilations and VM runs, in one
// process and from two threads (build with -fsanitize=thread); all results for the same input must be identical.
#include <thread>
#include <sstream>
#include <iostream>
#include "Compiler/include/compiler.hpp"
#include "VM/include/vm.hpp"
static std::string render(std::map<std::string, std::string> files, std::string mainf) {
  Theo::CodegenResult r = Theo::compile(files, mainf);
  std::ostringstream o;
  o << r.generated_correctly << "|";
  for (auto &e : r.errors) o << (int)e.t << ":" << e.message << "@" << e.file << ":" << e.line << ";";
  for (auto &i : r.code.code) o << (int)i.op << "," << i.parameters.test.target << "," << i.parameters.test.op1 << "," << i.parameters.test.op2 << ";";
  for (auto &m : r.code.stack_maps) { o << m.func_name << "{"; for (auto &kv : m.map) o << kv.first << "=" << kv.second << ","; o << "}"; }
  for (auto &kv : r.code.line_info) o << kv.first << ">" << kv.second.file << ":" << kv.second.line << ";";
  for (auto &kv : r.code.potential_breaks) { o << kv.first.file << ":" << kv.first.line << ">"; for (auto i : kv.second) o << i << ","; }
  for (auto &f : r.file_requests) o << "?" << f;
  if (r.generated_correctly) {
    Theo::VM vm(r.code); int n = 0; while (!vm.isDone() && n++ < 20000) vm.executeSingle();
    for (auto &a : vm.getActivations()) for (auto &kv : a.getActivationVariables()) o << kv.first << "=" << kv.second << ";";
  }
  return o.str();
}
int main() {
  std::map<std::string, std::string> A = {{"m", "INCLUDE \"l\"\nn := 3;\nLOOP n DO\n  y := RUN f WITH y END\nEND;\nIF y = 3 THEN GOTO e;\nz := 7;\ne: z := z + 1\n"}, {"l", "PROGRAM f IN a DO\n  x0 := a + 1\nEND\n"}};
  std::map<std::string, std::string> B = {{"m", "DEFINE TWICE <ID> AS $0 := $0 + 1; #0 := $0; $0 := #0 + 1 END DEFINE\nx := 5;\nTWICE x;\nWHILE x != 0 DO x := x - 2 END\n"}};
  std::map<std::string, std::string> C = {{"m", "x := ; LOOP DO"}};
  // same macro pattern, different body / priority / definition line in two compilations
  std::map<std::string, std::string> D1 = {{"m", "DEFINE BUMP <ID> AS $0 := $0 + 1 END DEFINE\nx0 := 5;\nBUMP x0\n"}};
  std::map<std::string, std::string> D2 = {{"m", "\n\nDEFINE PRIO 7 BUMP <ID> AS $0 := $0 + 2 END DEFINE\nx0 := 5;\nBUMP x0\n"}};
  std::string a0 = render(A, "m"), b0 = render(B, "m"), c0 = render(C, "m"), d0 = render(A, "absent");
  int bad = 0;
  { std::string e1 = render(D1, "m"), e2 = render(D2, "m"); if (render(D1, "m") != e1) bad++; if (render(D2, "m") != e2) bad++; if (e1 == e2) bad++; }
  // a copied VM is an independent machine: resetting the copy must not disarm the original's breakpoint
  { Theo::CodegenResult r = Theo::compile(A, "m");
    if (r.generated_correctly) {
      auto locs = r.code.getAvailableBreakpoints();
      Theo::BreakPoint bp = *locs.begin();
      Theo::VM a(r.code), ctl(r.code); a.setBreakPoint(bp.file, bp.line, true); ctl.setBreakPoint(bp.file, bp.line, true);
      Theo::VM b = a; b.reset(); b.clearBreakpoints();
      a.execute(); ctl.execute();
      if (a.getCurrentBreak().line != ctl.getCurrentBreak().line || a.isDone() != ctl.isDone()) bad++;
    } else bad++; }
  for (int k = 0; k < 3; k++) { if (render(B, "m") != b0) bad++; if (render(C, "m") != c0) bad++; if (render(A, "m") != a0) bad++; if (render(A, "absent") != d0) bad++; }
  std::string ta, tb, tc, td;
  std::thread t1([&] { for (int k = 0; k < 3; k++) { ta = render(A, "m"); tc = render(C, "m"); } });
  std::thread t2([&] { for (int k = 0; k < 3; k++) { tb = render(B, "m"); td = render(A, "absent"); } });
  t1.join(); t2.join();
  if (ta != a0) bad++; if (tb != b0) bad++; if (tc != c0) bad++; if (td != d0) bad++;
  std::cout << (bad ? "DIFFERENT" : "IDENTICAL") << " mismatches=" << bad << " lens=" << a0.size() << "," << b0.size() << "," << c0.size() << std::endl;
  return bad ? 1 : 0;
}
