// capacities of the container model for the parser layer-B harness
namespace Theo { struct Token; struct Node; struct SyntaxError; struct ParseError; struct MacroDefinition; }
namespace std {
template<> struct __cap<Theo::Token> { static constexpr int v = PB_W + 1; };
template<> struct __cap<Theo::Node*> { static constexpr int v = 24; };
template<> struct __cap<Theo::ParseError> { static constexpr int v = 3; };
template<> struct __cap<Theo::MacroDefinition> { static constexpr int v = 1; };
template<> struct __cap<unsigned int> { static constexpr int v = 1; };
template<> struct __cap<Theo::SyntaxError> { static constexpr int v = 2 * PB_W + 4; };
}
