// C02 / C09: the real Theo::extract_macros (Compiler/src/macro.cpp) on a symbolic token vector satisfying the scanner's interface invariant
// (exactly one T_EOF, last).  Linear recursion S/D/MD/A: depth <= number of tokens.  The LR machinery of macro.cpp is not reachable from here.
#include "Compiler/src/macro.cpp"
extern "C" { int nondet_int(); }
static inline bool nondet_bool() { return (nondet_int() & 1) != 0; }
#define ASSUME(c) __CPROVER_assume(c)
#define ASSERT(c, msg) __CPROVER_assert(c, msg)
#ifndef EX_N
#define EX_N 7
#endif
std::string Theo::token_string(Theo::Token::Type) { return "t"; }     // environment: formats diagnostics only (scan.cpp)
extern "C" { int CEX_kind[EX_N], CEX_n; }

extern "C" void h_extract() {
  std::vector<Token> toks;
  int n = nondet_int(); ASSUME(n >= 1 && n <= EX_N); CEX_n = n;
  for (int i = 0; i < EX_N; i++) if (i < n) {
    int k = nondet_int(); ASSUME(k >= 1 && k <= 38); if (i == n - 1) k = 0;
    Token t; t.t = (Token::Type)k; t.file = (i % 2) ? "a" : "m"; t.line = 1 + i;
    // texts: numbers for INT / PRIORITY arguments, "$d" for insertions, short names otherwise
    int d = nondet_int(); ASSUME(d >= 0 && d <= 9);
    if (k == Token::INT) { t.text = d < 5 ? std::string("7") : std::string("99999999999"); }
    else if (k == Token::INSERTION) { std::string s("$"); s.__push((char)('0' + d)); t.text = s; }
    else t.text = "x";
    toks.push_back(t); CEX_kind[i] = k;
  }
  Theo::MacroExtractionResult r = Theo::extract_macros(toks);
  // result shape
  ASSERT(r.tokens.size() >= 1 && r.tokens[r.tokens.size() - 1].t == Token::T_EOF, "C02: the token stream after macro extraction still ends in the end-of-file token");
  bool one_eof = true; for (int i = 0; i < EX_N; i++) if (i + 1 < (int)r.tokens.size()) one_eof = one_eof && r.tokens[i].t != Token::T_EOF;
  ASSERT(one_eof, "C02: the token stream after macro extraction contains exactly one end-of-file token");
  bool no_def = true; for (int i = 0; i < EX_N; i++) if (i < (int)r.tokens.size()) no_def = no_def && r.tokens[i].t != Token::DEFINE;
  ASSERT(no_def, "C09: no DEFINE token survives macro extraction");
  bool errs_ok = true; for (int i = 0; i < EX_N + 4; i++) if (i < (int)r.errors.size()) errs_ok = errs_ok && r.errors[i].msg.size() > 0 && (r.errors[i].file == std::string("a") || r.errors[i].file == std::string("m")) && r.errors[i].line >= 1 && r.errors[i].line <= n;
  ASSERT(errs_ok, "C02: every extraction error has a non-empty message and the location of an input token");
  // every $n left in a macro body designates an existing slot
  bool ins_ok = true;
  for (int m = 0; m < 3; m++) if (m < (int)r.macros.size()) { const MacroDefinition &md = r.macros[m]; for (int j = 0; j < EX_N; j++) if (j < (int)md.replacement.size() && md.replacement[j].t == Token::INSERTION) { int ind = md.replacement[j].text.b[1] - '0'; ins_ok = ins_ok && md.replacement[j].text.n == 2 && ind >= 0 && ind < (int)md.template_token_indices.size(); } }
  ASSERT(ins_ok, "C02: every insertion $n kept in a macro body designates an existing slot of the pattern");
  bool rule_ok = true; for (int m = 0; m < 3; m++) if (m < (int)r.macros.size()) rule_ok = rule_ok && r.macros[m].rule.size() >= 1;
  ASSERT(rule_ok, "C12: every extracted macro has a non-empty pattern (its first token carries the definition's location)");
  ASSERT(0, "WITNESS: end of h_extract reachable");
}
