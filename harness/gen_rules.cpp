// C04 (static rules), C03 (generator emits well-formed call sequences / jumps / register indices), C16 (no recursion) and C02
// (generator is total on the tree shapes of the parser), decided on the REAL functions of /repo/Compiler/src/gen.cpp:
// GenState::popSymbols/backpatch/createLabel/setLabel/emitBackpatched, FunctionGenState::fetchTemporary/releaseTemporary/
// fetchVariableRegister, dispatchValue (CALL), dispatchCallArgs, dispatchArgs, dispatchProgram, dispatchGoto/If/Mark/Loop/While/
// Assign/Void, gen_ast, Theo::gen.  Nothing of the generator is re-implemented here (exception: the ten statements of Theo::gen()
// around gen_ast() are mirrored in run_gen() of part 5, see there): the harness builds small node structures exactly as parse.cpp
// builds them (on its stack), with SYMBOLIC names, table contents and operands, runs the real code and compares the result with the
// rule written as a predicate over the harness' own choice variables.  COUNTS (arguments, parameters, statements) are fixed per
// entry: all containers of the generator live in the one GenState object, and a write at a symbolic position is encoded by CBMC as
// a byte-wise update of that whole object, after which no field is a constant for the symbolic execution (see sym_code).
//
//  h_regs_step / h_regs_seq   one register operation from an arbitrary register file (layer A) / hygiene over two operations
//  h_call                     dispatchValue(CALL) against a symbolic funcAddrs table: rules of C04, call-sequence shape of C03, C16
//  h_program                  dispatchProgram with the body (dispatchVoid) replaced by an observing contract stub: C16, C03
//  h_labels                   two routines of symbolic GOTO / IF / MARK statements + popSymbols + backpatch: C04 unknown label, C03 jumps
//  harness_void_*, harness_gen_ast  every traversal function on every node shape of error-free parses, children stubbed (layer B): C02
//  h_gen_frame                the real Theo::gen() around an observing gen_ast(): C02
//  h_shape_<k>                gen_ast() on small whole trees (layer C cross-check): C02
//  h_assign / h_loop / h_while  lowering of assignment, LOOP, WHILE from an arbitrary generator state (part 8): C01, C03, C16
// One part of the file is compiled per build (-DGR_PART=1..8: registers, call, program, labels, shapes, traversal functions, gen frame, lowering), each with its own capacities.
// Written against the container model only (job option native=False).  Assertion texts contain no double quotes.
#include "Compiler/src/gen.cpp"

extern "C" { int nondet_int(); }
static inline bool nondet_bool() { return (nondet_int() & 1) != 0; }
#define ASSUME(c) __CPROVER_assume(c)
#define ASSERT(c, msg) __CPROVER_assert(c, msg)
typedef CodegenResult::Error::Type ET;

// ---- counterexample read-out
extern "C" {
int CEX_op, CEX_idx, CEX_name, CEX_nregs, CEX_reg_temp[GR_REGS], CEX_reg_used[GR_REGS], CEX_reg_name[GR_REGS], CEX_ret;
int CEX_nf, CEX_first_g, CEX_callee, CEX_nargs, CEX_arg_kind[2], CEX_arg_name[2], CEX_argnum[2], CEX_stack[2], CEX_ind[2], CEX_mi[2], CEX_tgt, CEX_n0;
int CEX_rname, CEX_nparams, CEX_param[2], CEX_has_ports, CEX_has_out, CEX_out, CEX_body_k, CEX_body_var, CEX_body_tmp;
int CEX_kind[8], CEX_lab[8];
int CEX_g8[12];
}

// one-character names chosen by symbolic index.  The strings are built once (init_names) and copied afterwards (a copy is
// one struct assignment in the container model).  f < g < h, a < b < c, l < m: all insertion positions of the maps occur.
static const char *const TEMP = "Temporary Variable";
static std::string FN[3], VN[3], LN[2], TEMPS;
static void init_names() {
  FN[0] = std::string("f"); FN[1] = std::string("g"); FN[2] = std::string("h");
  VN[0] = std::string("a"); VN[1] = std::string("b"); VN[2] = std::string("c");
  LN[0] = std::string("l"); LN[1] = std::string("m");
  TEMPS = std::string(TEMP);
}
static std::string sel3(const std::string *t, int i) { std::string r = t[0]; if (i == 1) r = t[1]; if (i == 2) r = t[2]; return r; }
static std::string sel2(const std::string *t, int i) { std::string r = t[0]; if (i == 1) r = t[1]; return r; }
// environment model of strtol for the literals of the harness (decimal digit strings of at most 3 characters; the conversion of
// literals is the subject of C20): Horner evaluation, no division
extern "C" long gr_strtol(const char *s, char **end, int base) {
  long v = 0; bool live = true;
  for (int i = 0; i < 3; i++) { char c = s[live ? i : 0]; if (live && !(c >= '0' && c <= '9')) live = false; if (live) v = (v << 3) + (v << 1) + (long)(c - '0'); }
  return v;
}
// environment model of std::to_string for the diagnostics and loop-counter names the generator builds: exact for 0..999 without
// division (the 20 divisions by ten of the generic model dominate the SAT instance otherwise); any other value yields a string that is
// flagged as truncated, so that comparing it is a model-bound failure and never influences a verdict silently
static std::string small_to_string(long v) {
  std::string r;
  if (v < 0 || v > 999) { r.__push('?'); r.trunc = 1; return r; }
  int h = 0, t = 0; long w = v;
  for (int k = 0; k < 9; k++) if (w >= 100) { w -= 100; h++; }
  for (int k = 0; k < 9; k++) if (w >= 10) { w -= 10; t++; }
  if (h > 0) r.__push((char)('0' + h));
  if (h > 0 || t > 0) r.__push((char)('0' + t));
  r.__push((char)('0' + w));
  return r;
}
extern "C" std::string gr_to_string_i(int v) { return small_to_string(v); }
extern "C" std::string gr_to_string_m(unsigned long v) { return small_to_string(v > 999 ? 1000 : (long)v); }
// environment model of the string concatenations that build diagnostics (job option stubs; not used where a concatenated text is
// compared, i.e. for the loop-counter names of dispatchLoop): the text of a diagnostic is not modelled, the result is flagged as
// truncated, so that comparing it is a model-bound failure and can never influence a verdict silently
static std::string no_text() { std::string r; r.__push('~'); r.trunc = 1; return r; }
extern "C" std::string gr_plus_ss(const std::string &a, const std::string &b) { return no_text(); }
extern "C" std::string gr_plus_cs(const char *a, const std::string &b) { return no_text(); }
extern "C" std::string gr_plus_sc(const std::string &a, const char *b) { return no_text(); }
static int pick(int lo, int hi) { int v = nondet_int(); ASSUME(v >= lo && v <= hi); return v; }

static GenState fresh_state() {
  init_names();
  GenState gs = {.in = {}, .out = {.code = {}, .stack_maps = {}, .potential_breaks = {}, .line_info = {}}, .errors = {}, .symbols = {},
                 .funcAddrs = {}, .labels = {}, .backpatching_todo = {}, .fs = {.name = "m", .line = 1}};
  return gs;
}
// all nodes of the harness carry the current position of the generator (file m, line 1): advanceLine() emits no site, so the
// emitted code consists of the instructions of the construct under test only (breakpoint sites are the subject of C08)
// (nodes are filled in place, field by field: kind and child pointers then stay constants for the symbolic execution, which is
// what ends the recursion of the traversal on a concrete tree)
static void mknode(Node &n, Node::Type t, const std::string &tok, Node *l, Node *r) {
  std::string m; m.__push('m');    // (built locally: a copy from a global string is a byte-wise memcpy in the generated C, which would blur the whole node)
  n.t = t; n.tok = tok; n.file = m; n.line = 1; n.left = l; n.right = r;
}
static Instruction code_at(const GenState &gs, int at) { Instruction r = gs.out.code.u.d[0]; for (int i = 1; i < GR_CODE; i++) if (i == at) r = gs.out.code.u.d[i]; return r; }
static int count_err(const GenState &gs, ET t) { int c = 0; for (int i = 0; i < MINISTL_VEC_CAP; i++) if (i < (int)gs.errors.size() && gs.errors.u.d[i].t == t) c++; return c; }

// =========================================================================================================
// 4. registers.  Inv_reg(register file): a temporary carries the name TEMP; a variable register is in use for ever, is not a
// temporary and carries a name other than TEMP (identifiers and loop counters cannot be spelled like TEMP).  Established by
// dispatchArgs / fetchVariableRegister / fetchTemporary (asserted below), so it holds after generator runs of any length.
static void sym_regs(FunctionGenState &f, int maxn) {
  int n = pick(0, maxn); CEX_nregs = n;
  for (int i = 0; i < GR_REGS; i++) {
    VReg r; bool t = nondet_bool(); int nm = pick(0, 2);
    r.is_temp = t; r.in_use = t ? nondet_bool() : true; r.name = t ? TEMPS : sel3(VN, nm);
    f.register_state.u.d[i] = r;
    CEX_reg_temp[i] = t; CEX_reg_used[i] = r.in_use; CEX_reg_name[i] = nm;
  }
  f.register_state.n = n;
}
static bool inv_reg(const FunctionGenState &f) {
  bool ok = true;
  for (int i = 0; i < GR_REGS; i++) if (i < (int)f.register_state.size()) {
    const VReg &r = f.register_state.u.d[i];
    bool tn = r.name == TEMPS;
    ok = ok & (r.is_temp ? tn : (r.in_use & !tn));
  }
  return ok;
}
static bool same_reg(const VReg &a, const VReg &b) { return (a.in_use == b.in_use) & (a.is_temp == b.is_temp) & (a.name == b.name); }
// registers [0, m) of g equal those of f, except register `but`
static bool regs_kept(const FunctionGenState &f, const FunctionGenState &g, int m, int but) {
  bool ok = true;
  for (int i = 0; i < GR_REGS; i++) if (i < m && i != but) ok = ok & same_reg(f.register_state.u.d[i], g.register_state.u.d[i]);
  return ok;
}
static int first_named(const FunctionGenState &f, const std::string &v) {
  int r = -1;
  for (int i = GR_REGS - 1; i >= 0; i--) if (i < (int)f.register_state.size() && f.register_state.u.d[i].name == v) r = i;
  return r;
}
static VReg reg_at(const FunctionGenState &f, int at) { VReg r = f.register_state.u.d[0]; for (int i = 1; i < GR_REGS; i++) if (i == at) r = f.register_state.u.d[i]; return r; }

#if GR_PART == 1
#define REG_PRE (GR_REGS - 2)    /* registers of the pre-state; an operation adds at most one, h_regs_seq at most four */
extern "C" void h_regs_step() {
  init_names();
  FunctionGenState f; f.name = FN[0];
  sym_regs(f, REG_PRE);
  ASSUME(inv_reg(f));
  FunctionGenState pre = f;
  int n = (int)pre.register_state.size();
  int op = pick(0, 2); CEX_op = op;
  if (op == 0) {
    int free_temp = -1;
    for (int i = GR_REGS - 1; i >= 0; i--) if (i < n && pre.register_state.u.d[i].is_temp && !pre.register_state.u.d[i].in_use) free_temp = i;
    int r = f.fetchTemporary(); CEX_ret = r;
    int n2 = (int)f.register_state.size();
    ASSERT(r >= 0 && r < n2, "C03: fetchTemporary() returns a register index below the size of the register file");
    ASSERT(n2 >= n && n2 <= n + 1, "C03: fetchTemporary() never shrinks the register file and adds at most one register");
    VReg got = reg_at(f, r);
    ASSERT(got.is_temp && got.in_use, "C03: the register handed out by fetchTemporary() is a temporary and is marked in use");
    bool was_busy = r < n && reg_at(pre, r).in_use;
    ASSERT(!was_busy, "C03: fetchTemporary() never hands out a register that is in use (neither a live temporary nor a variable)");
    ASSERT(r >= n || reg_at(pre, r).is_temp, "C03: fetchTemporary() never turns a variable register into a temporary");
    ASSERT(free_temp >= 0 ? (r == free_temp && n2 == n) : (r == n && n2 == n + 1), "C03: fetchTemporary() reuses the first free temporary, else appends one");
    ASSERT(regs_kept(pre, f, n, r), "C03: fetchTemporary() leaves every other register unchanged");
  } else if (op == 1) {
    int idx = pick(0, REG_PRE - 1); ASSUME(idx < n); CEX_idx = idx;
    VReg old = reg_at(pre, idx);
    f.releaseTemporary(idx);
    ASSERT((int)f.register_state.size() == n, "C03: releaseTemporary() keeps the size of the register file");
    VReg now = reg_at(f, idx);
    ASSERT(now.is_temp == old.is_temp && now.name == old.name && now.in_use == (old.is_temp ? false : old.in_use),
           "C03: releaseTemporary() frees a temporary and leaves a variable register untouched (names are never treated as temporaries)");
    ASSERT(regs_kept(pre, f, n, idx), "C03: releaseTemporary() leaves every other register unchanged");
  } else {
    int nm = pick(0, 2); CEX_name = nm;
    std::string v = sel3(VN, nm);
    int known = first_named(pre, v);
    int r = f.fetchVariableRegister(v); CEX_ret = r;
    int n2 = (int)f.register_state.size();
    ASSERT(r >= 0 && r < n2, "C03: fetchVariableRegister() returns a register index below the size of the register file");
    ASSERT(n2 >= n && n2 <= n + 1, "C03: fetchVariableRegister() never shrinks the register file and adds at most one register");
    VReg got = reg_at(f, r);
    ASSERT(!got.is_temp && got.in_use && got.name == v, "C03: the register of a variable carries its name, is not a temporary and is in use");
    ASSERT(known >= 0 ? (r == known && n2 == n) : (r == n && n2 == n + 1), "C03: a known variable name gets its (first) register again, a new name gets a new register at the end");
    ASSERT(regs_kept(pre, f, n, -1), "C03: fetchVariableRegister() leaves every existing register unchanged");
  }
  // frame of the induction: the register of every name is stable, the invariant is kept
  bool stable = true;
  for (int k = 0; k < 3; k++) { int b = first_named(pre, VN[k]); if (b >= 0) stable = stable & (first_named(f, VN[k]) == b); }
  ASSERT(stable, "C03: no register operation changes the register a variable name is bound to");
  ASSERT(inv_reg(f), "C03: Inv_reg preserved by the register operation (temporaries and variables stay apart)");
  ASSERT(0, "WITNESS: end of h_regs_step reachable");
}

// two fetches around an arbitrary operation: the same variable gets the same register, a live temporary is not handed out twice
extern "C" void h_regs_seq() {
  init_names();
  FunctionGenState f; f.name = FN[0];
  sym_regs(f, REG_PRE - 2);
  ASSUME(inv_reg(f));
  int nm = pick(0, 2); CEX_name = nm;
  std::string v = sel3(VN, nm);
  int v1 = f.fetchVariableRegister(v);
  int t1 = f.fetchTemporary();
  int op = pick(0, 3); CEX_op = op;
  bool released_t1 = false;
  if (op == 0) { (void)f.fetchTemporary(); }
  else if (op == 1) { int idx = pick(0, REG_PRE); ASSUME(idx < (int)f.register_state.size()); CEX_idx = idx; f.releaseTemporary(idx); released_t1 = idx == t1; }
  else if (op == 2) { (void)f.fetchVariableRegister(sel3(VN, pick(0, 2))); }
  int v2 = f.fetchVariableRegister(v);
  int t2 = f.fetchTemporary();
  ASSERT(v1 == v2, "C03: a variable name gets the same register every time");
  ASSERT(released_t1 || t2 != t1, "C03: a temporary in use is not handed out again until it is released");
  ASSERT(t1 != v1 && t2 != v2, "C03: a variable register is never handed out as a temporary");
  ASSERT(t2 < (int)f.register_state.size() && v2 < (int)f.register_state.size(), "C03: register indices stay below the size of the register file");
  ASSERT(0, "WITNESS: end of h_regs_seq reachable");
}

#endif
// =========================================================================================================
// symbolic table of closed definitions: 0..2 entries with names from {f, g}; Prog{ind, mi, argnum in 0..2, stack_size >= argnum}
struct FA { int nf; bool first_g; Prog p[2]; bool has[3]; Prog of[3]; };
static void sym_funcs(GenState &gs, FA &fa, int code_size) {
  fa.nf = pick(0, 2); fa.first_g = nondet_bool(); CEX_nf = fa.nf; CEX_first_g = fa.first_g;
  for (int k = 0; k < 2; k++) {
    Prog p; p.ind = nondet_int(); p.mi = nondet_int(); p.argnum = pick(0, 2); p.stack_size = nondet_int(); ASSUME(p.stack_size >= p.argnum);
    // Inv_fa: a recorded entry is the start of a routine that is already closed, i.e. 1 <= ind <= index of its RET < code size
    ASSUME(p.ind >= 1 && p.ind < code_size);
    fa.p[k] = p; CEX_ind[k] = p.ind; CEX_mi[k] = p.mi; CEX_argnum[k] = p.argnum; CEX_stack[k] = p.stack_size;
  }
  bool one_g = fa.nf == 1 && fa.first_g;
  gs.funcAddrs.u.d[0].first = one_g ? FN[1] : FN[0]; gs.funcAddrs.u.d[0].second = fa.p[0];
  gs.funcAddrs.u.d[1].first = FN[1]; gs.funcAddrs.u.d[1].second = fa.p[1];
  gs.funcAddrs.n = fa.nf;
  fa.has[0] = fa.nf == 2 || (fa.nf == 1 && !fa.first_g); fa.of[0] = fa.p[0];
  fa.has[1] = fa.nf == 2 || one_g; fa.of[1] = fa.nf == 2 ? fa.p[1] : fa.p[0];
  fa.has[2] = false; fa.of[2] = fa.p[0];
}
static bool same_prog(const Prog &a, const Prog &b) { return (a.ind == b.ind) & (a.mi == b.mi) & (a.argnum == b.argnum) & (a.stack_size == b.stack_size); }
// the table holds exactly the entries of fa (slot by slot: the representation is canonical, slots sorted by key)
static bool funcs_same(const GenState &gs, const FA &fa) {
  bool ok = (int)gs.funcAddrs.size() == fa.nf;
  bool one_g = fa.nf == 1 && fa.first_g;
  if (fa.nf >= 1) ok = ok && gs.funcAddrs.u.d[0].first == (one_g ? FN[1] : FN[0]) && same_prog(gs.funcAddrs.u.d[0].second, fa.p[0]);
  if (fa.nf >= 2) ok = ok && gs.funcAddrs.u.d[1].first == FN[1] && same_prog(gs.funcAddrs.u.d[1].second, fa.p[1]);
  return ok;
}
// code emitted so far: n0 instructions, the first one the root PREPARE, the others arbitrary.  The LENGTH is a constant of the
// entry: with a symbolic length every emit() writes at a symbolic offset into the GenState object, which CBMC encodes as a
// byte-wise update of the whole object (the dominating cost of these queries); nothing in the generator depends on the
// absolute position.
static int sym_code(GenState &gs, int n0) {
  CEX_n0 = n0;
  gs.emit(Instruction::PrepareExec(-1, -1, 0));
  for (int i = 1; i < GR_CODE; i++) if (i < n0) {
    Instruction ins; ins.op = (OpCode)pick(0, 11);
    ins.parameters.test.target = nondet_int(); ins.parameters.test.op1 = nondet_int(); ins.parameters.test.op2 = nondet_int();
    gs.emit(ins);
  }
  return n0;
}

// =========================================================================================================
// 1. dispatchValue(CALL): RUN <callee> WITH <NA arguments> END inside an open routine.  The number of arguments and their kinds
// (K = 1: NAME, K = 0: NUMBER) are fixed per entry (the node kinds steer the recursion of the traversal, a symbolic kind would make
// the symbolic execution clone the recursion up to the unwinding bound); names, literal digits, the table of definitions, the
// register file, the code emitted so far and the result register are symbolic.
#if GR_PART == 2
static void sym_arg(Node &n, bool is_name, int k) {
  int nm = pick(0, 2); int digit = pick(0, 9);
  std::string lit; lit.__push((char)('0' + digit));
  if (is_name) mknode(n, Node::Type::NAME, sel3(VN, nm), NULL, NULL); else mknode(n, Node::Type::NUMBER, lit, NULL, NULL);
  CEX_arg_kind[k] = is_name; CEX_arg_name[k] = is_name ? nm : digit;
}
template <int NA, int K0, int K1> static void call_case() {
  GenState gs = fresh_state();
  int n0 = sym_code(gs, 3);
  FA fa; sym_funcs(gs, fa, n0);
  gs.pushSymbols(std::string("r"));
  sym_regs(gs.getSymbols(), 2);
  ASSUME(inv_reg(gs.getSymbols()));
  int callee = pick(0, 2); const int na = NA; CEX_callee = callee; CEX_nargs = na;
  Node a0, a1;     // (separate objects, filled without a loop: an array of nodes indexed by a loop counter is not resolved by the symbolic execution)
  sym_arg(a0, K0 == 1, 0); sym_arg(a1, K1 == 1, 1);
  // VARGS / MVARGS of parse.cpp: SPLIT(arg1, SPLIT(arg2, NULL)), NULL for an empty list
  Node s2, s1, nm, call;
  mknode(s2, Node::Type::SPLIT, std::string(), &a1, NULL);
  mknode(s1, Node::Type::SPLIT, std::string(), &a0, NA == 2 ? &s2 : NULL);
  mknode(nm, Node::Type::NAME, sel3(FN, callee), NULL, NULL);
  mknode(call, Node::Type::CALL, std::string(), &nm, NA >= 1 ? &s1 : NULL);
  int tgt = nondet_int(); ASSUME(tgt >= 0); CEX_tgt = tgt;

  dispatchValue(gs, &call, tgt);

  int n = (int)gs.out.code.size(), ne = (int)gs.errors.size();
  bool known = fa.has[0] && callee == 0 || fa.has[1] && callee == 1;
  Prog p = callee == 1 ? fa.of[1] : fa.of[0];
  int base = n0 + na;   // one instruction per argument (ADD for a name, CONST for a literal)
  ASSERT(funcs_same(gs, fa), "C16: compiling a call does not change the table of closed definitions");
  ASSERT((count_err(gs, ET::UNKNOWN_PROGRAM_NAME) == 1) == !known && count_err(gs, ET::UNKNOWN_PROGRAM_NAME) <= 1,
         "C04: UNKNOWN_PROGRAM_NAME is recorded (once) iff the callee is not the name of a closed definition");
  ASSERT((count_err(gs, ET::ARGSIZE_MISMATCH) == 1) == (known && p.argnum != na) && count_err(gs, ET::ARGSIZE_MISMATCH) <= 1,
         "C04: ARGSIZE_MISMATCH is recorded (once) iff the callee is known and its parameter count differs from the number of arguments");
  ASSERT(ne == ((known && p.argnum == na) ? 0 : 1), "C04: a call to a known program with the right number of arguments records no error, any other call exactly one");
  if (!known || p.argnum != na) {
    ASSERT(n == base, "C04: a rejected call emits nothing besides the evaluation of its arguments");
  } else {
    ASSERT(n == base + na + 2, "C03: an accepted call emits exactly PREPARE, one ARG per argument and EXEC after the argument code");
    Instruction pre = code_at(gs, base), ex = code_at(gs, base + na + 1);
    ASSERT(pre.op == OpCode::PREPARE_EXEC && pre.parameters.prepare.count == p.stack_size && pre.parameters.prepare.index == p.mi && pre.parameters.prepare.target == tgt,
           "C03: the call sequence starts with PREPARE(frame size of the callee, stack map of the callee, result register)");
    bool args_ok = true, temps_ok = true, freed = true;
    int src[2] = {-1, -2};
    int regs1 = (int)gs.getSymbols().register_state.size();
    for (int k = 0; k < 2; k++) if (k < na) {
      Instruction ev = code_at(gs, n0 + k), a = code_at(gs, base + 1 + k);
      src[k] = ev.parameters.add.target;     // register the k-th argument was evaluated into (ADD and CONST: first operand)
      args_ok = args_ok & (a.op == OpCode::ARG) & (a.parameters.arg.target == k) & (a.parameters.arg.source == src[k]) & (k < p.argnum) & (p.argnum <= p.stack_size);
      bool in = src[k] >= 0 && src[k] < regs1;
      temps_ok = temps_ok & in;
      if (in) { VReg r = reg_at(gs.getSymbols(), src[k]); temps_ok = temps_ok & r.is_temp; freed = freed & !r.in_use; }
    }
    ASSERT(args_ok, "C03: ARG k copies the register the k-th argument was evaluated into to register k of the callee frame, k = 0..n-1 in order, k < argnum <= frame size");
    ASSERT(temps_ok && src[0] != src[1], "C03: the arguments are evaluated into pairwise distinct temporaries of the caller frame");
    ASSERT(freed, "C03: the argument temporaries are released after the call sequence");
    ASSERT(ex.op == OpCode::EXEC && ex.parameters.exec.entry == p.ind, "C03: the call sequence ends with EXEC(entry recorded for the callee)");
    ASSERT(ex.parameters.exec.entry >= 1 && ex.parameters.exec.entry < base + na + 1, "C16: an EXEC at index i targets an entry e < i (given Inv_fa: recorded entries lie in code that is already emitted)");
  }
  ASSERT(inv_reg(gs.getSymbols()), "C03: Inv_reg preserved by compiling a call");
  ASSERT(!(known && p.argnum == na), "C04(EXISTS): an accepted call");
  ASSERT(known, "C04(EXISTS): a call of an unknown name");
  ASSERT(!(known && p.argnum != na), "C04(EXISTS): a call with the wrong number of arguments");
}
#define CALL_ENTRY(nm, NA, K0, K1) extern "C" void nm() { call_case<NA, K0, K1>(); ASSERT(0, "WITNESS: end of " #nm " reachable"); }
CALL_ENTRY(h_call_0, 0, 0, 0)
CALL_ENTRY(h_call_1n, 1, 1, 0)
CALL_ENTRY(h_call_1c, 1, 0, 0)
CALL_ENTRY(h_call_2nn, 2, 1, 1)
CALL_ENTRY(h_call_2nc, 2, 1, 0)
CALL_ENTRY(h_call_2cn, 2, 0, 1)
CALL_ENTRY(h_call_2cc, 2, 0, 0)
#endif

// =========================================================================================================
// 2. dispatchProgram with the body replaced by an observing contract stub (job option stubs: dispatchVoid -> stub_body).
// NP = number of parameters (0: the PORTS node is absent, as for PROGRAM f DO ... END), HAS_OUT: an OUT port is declared.
// Symbolic: routine name in {f, g, h}, table of closed definitions, parameter names and OUT name in {a, b, c} (equal names
// allowed), the content of the code / labels / jump list emitted so far.
#if GR_PART == 3
static struct BodyCtx {
  FA *fa; Node *body; int calls; int routine; int np; int param[2]; int n_entry; int syms_entry;
  int k; int var; bool tmp; int regs_after; int var_reg;
} B;
extern "C" void stub_body(GenState &gs, Node *c) {
  B.calls++;
  ASSERT(c == B.body, "C16: dispatchProgram hands exactly the body of the definition to the traversal");
  ASSERT(funcs_same(gs, *B.fa), "C16: while the body of a routine is compiled the table of closed definitions is the one from before its header: the routine itself is not callable, a name defined earlier still denotes the earlier routine");
  ASSERT((int)gs.symbols.size() == B.syms_entry + 1 && gs.getSymbols().name == sel3(FN, B.routine), "C03: the body is compiled in a fresh symbol table carrying the name of the routine");
  FunctionGenState &f = gs.getSymbols();
  bool params = f.argnum == B.np && (int)f.register_state.size() == B.np;
  for (int i = 0; i < 2; i++) if (i < B.np) { const VReg &r = f.register_state.u.d[i]; params = params && !r.is_temp && r.in_use && r.name == sel3(VN, B.param[i]); }
  ASSERT(params, "C03: parameter k occupies register k of the routine (also when a name is repeated), argnum is the number of parameters");
  ASSERT(gs.getNextPos() == B.n_entry + 1, "C03: the entry of the routine is the position right after the JMP that skips it");
  ASSERT(f.marks.size() == 0, "C04: a routine starts without labels");
  // effect of a body: a temporary and one arbitrary instruction other than a breakpoint site.  (The COUNTS are fixed: a symbolic
  // count - also one that merely depends on a comparison of symbolic names, as fetching a variable would - makes every later write
  // into the GenState a write at a symbolic offset, see sym_code.)
  B.var_reg = -1;
  { int t = f.fetchTemporary(); f.releaseTemporary(t); }
  {
    Instruction ins; ins.op = (OpCode)pick(1, 11);
    ins.parameters.test.target = nondet_int(); ins.parameters.test.op1 = nondet_int(); ins.parameters.test.op2 = nondet_int();
    gs.emit(ins);
  }
  B.regs_after = (int)f.register_state.size();
}
static const StackMapIndex NO_MAP = -7;
template <int NP, int HAS_OUT> static void program_case() {
  GenState gs = fresh_state();
  int n0 = sym_code(gs, 2);
  FA fa; sym_funcs(gs, fa, n0);
  // jump bookkeeping and stack maps of the code emitted so far
  // (one older label, one older jump, one older stack map: sizes are constants for the reason given at sym_code, contents arbitrary)
  const int nl = 1, nt = 1, ns = 1;
  gs.labels.push_back(nondet_int());
  gs.backpatching_todo.push_back(0);
  { Program::StackMap old; gs.out.stack_maps.push_back(old); }
  gs.pushSymbols(std::string("#root"));
  int routine = pick(0, 2); CEX_rname = routine;
  int p0 = pick(0, 2), p1 = pick(0, 2), o = pick(0, 2); CEX_param[0] = p0; CEX_param[1] = p1; CEX_out = o; CEX_nparams = NP; CEX_has_out = HAS_OUT;
  // S / PORTS / OPORTS / ARGS / MARGS of parse.cpp
  Node name, id0, id1, a1, a0, outn, ports, hdr, bodyst, endn, endm, bodysp, prog;
  mknode(name, Node::Type::NAME, sel3(FN, routine), NULL, NULL);
  mknode(id0, Node::Type::NAME, sel3(VN, p0), NULL, NULL);
  mknode(id1, Node::Type::NAME, sel3(VN, p1), NULL, NULL);
  mknode(a1, Node::Type::SPLIT, std::string(), &id1, NULL);
  mknode(a0, Node::Type::SPLIT, std::string(), &id0, NP == 2 ? &a1 : NULL);
  mknode(outn, Node::Type::NAME, sel3(VN, o), NULL, NULL);
  mknode(ports, Node::Type::SPLIT, std::string(), &a0, HAS_OUT ? &outn : NULL);
  mknode(hdr, Node::Type::SPLIT, std::string(), &name, NP >= 1 ? &ports : NULL);
  mknode(bodyst, Node::Type::STOP, std::string(), NULL, NULL);
  mknode(endn, Node::Type::NAME, std::string("END"), NULL, NULL);
  mknode(endm, Node::Type::MARK, std::string(), &endn, NULL);
  mknode(bodysp, Node::Type::SPLIT, std::string(), &bodyst, &endm);
  mknode(prog, Node::Type::PROGRAM, std::string(), &hdr, &bodysp);
  B.fa = &fa; B.body = &bodysp; B.calls = 0; B.routine = routine; B.np = NP; B.param[0] = p0; B.param[1] = p1; B.n_entry = n0; B.syms_entry = 1;
  B.k = 1; B.var = -1; B.tmp = true;

  dispatchProgram(gs, &prog);

  ASSERT(B.calls == 1, "C16: dispatchProgram compiles the body exactly once");
  ASSERT(gs.errors.size() == 0, "C04: a definition without labels and calls records no error");
  ASSERT(gs.symbols.size() == 1, "C03: the symbol table of the routine is closed again");
  // reference: which register holds the result (OUT name, x0 by default): parameters first, then the body's variable, else a new one
  std::string out_name = HAS_OUT ? sel3(VN, o) : std::string("x0");
  int ret_reg = -1;
  if (HAS_OUT) { if (NP == 2 && p1 == o) ret_reg = 1; if (NP >= 1 && p0 == o) ret_reg = 0; }
  int size = B.regs_after + (ret_reg < 0 ? 1 : 0);
  if (ret_reg < 0) ret_reg = B.regs_after;
  int n = (int)gs.out.code.size();
  ASSERT(n == n0 + 1 + B.k + 1, "C03: a definition emits JMP, the body and RET, nothing else");
  Instruction jmp = code_at(gs, n0), ret = code_at(gs, n - 1);
  ASSERT(ret.op == OpCode::RET && ret.parameters.ret.source == ret_reg, "C03: the routine ends with RET(register of the OUT variable, x0 without an OUT port)");
  // the recorded definition
  bool has = false; Prog rec; int others = 0; bool others_same = true;
  for (int s = 0; s < GR_FUNCS; s++) if (s < (int)gs.funcAddrs.size()) {
    const auto &sl = gs.funcAddrs.u.d[s];
    bool mine = sl.first == sel3(FN, routine);
    if (mine) { has = true; rec = sl.second; }
    else { others++; for (int q = 0; q < 2; q++) if (sl.first == FN[q]) others_same = others_same && fa.has[q] && same_prog(sl.second, fa.of[q]); }
  }
  int want_others = (fa.has[0] && routine != 0 ? 1 : 0) + (fa.has[1] && routine != 1 ? 1 : 0);
  ASSERT(has && others == want_others && others_same, "C16: closing a routine records exactly its own name (replacing an earlier definition of the same name), all other definitions stay");
  if (has) {
    ASSERT(rec.ind == n0 + 1, "C03: the recorded entry is the position right after the JMP that skips the routine");
    ASSERT(rec.ind >= 1 && rec.ind <= n - 1 && n - 1 < n, "C16: a definition is recorded only after its RET was emitted: entry <= index of its RET < current position (establishes Inv_fa)");
    ASSERT(rec.argnum == NP, "C03: the recorded parameter count is the number of declared parameters");
    ASSERT(rec.stack_size == size, "C03: the recorded frame size is the final size of the register file of the routine");
    ASSERT(ret_reg < rec.stack_size && rec.argnum <= rec.stack_size, "C03: the RET register and the parameter registers lie inside the recorded frame");
    ASSERT(rec.mi == ns && (int)gs.out.stack_maps.size() == ns + 1, "C03: the recorded stack map index is the index of the one stack map pushed for the routine");
    if ((int)gs.out.stack_maps.size() == ns + 1) {
      const Program::StackMap &sm = gs.out.stack_maps.__at(ns);
      bool keys = true, named = false; int nkeys = (int)sm.map.size();
      for (int s = 0; s < GR_REGS; s++) if (s < nkeys) {
        int key = sm.map.u.d[s].first;
        keys = keys && key >= 0 && key < rec.stack_size;
        if (key == ret_reg) named = sm.map.u.d[s].second == out_name;
      }
      ASSERT(keys, "C03: every register listed in the stack map of the routine lies inside its frame");
      ASSERT(named && sm.func_name == sel3(FN, routine), "C03: the stack map carries the name of the routine and maps the RET register to the name of the result variable");
      ASSERT(nkeys == size - (B.tmp ? 1 : 0), "C03: the stack map lists exactly the variable registers (no temporaries)");
    }
  }
  // the JMP over the routine
  ASSERT(jmp.op == OpCode::JMP && jmp.parameters.jmp.offset == nl, "C03: the routine is preceded by a JMP that carries a fresh label");
  bool listed = (int)gs.backpatching_todo.size() == nt + 1;
  if (listed) listed = gs.backpatching_todo.__at(nt) == n0;
  ASSERT(listed, "C03: the JMP over the routine is entered in the list of jumps to patch");
  bool lab = (int)gs.labels.size() == nl + 1;
  if (lab) lab = gs.labels.__at(nl) == n;
  ASSERT(lab, "C03: the label of the JMP over the routine is set to the position after the RET");
  ASSERT(ret_reg != B.regs_after, "C03(EXISTS): a routine whose result variable gets its register only when RET is compiled");
  ASSERT(!(fa.has[0] && routine == 0), "C16(EXISTS): a definition whose name was already defined");
}
#define PROGRAM_ENTRY(nm, NP, HAS_OUT) extern "C" void nm() { program_case<NP, HAS_OUT>(); ASSERT(0, "WITNESS: end of " #nm " reachable"); }
PROGRAM_ENTRY(h_program_noports, 0, 0)
PROGRAM_ENTRY(h_program_1, 1, 0)
PROGRAM_ENTRY(h_program_1out, 1, 1)
PROGRAM_ENTRY(h_program_2, 2, 0)
PROGRAM_ENTRY(h_program_2out, 2, 1)
#endif

// =========================================================================================================
// 3. labels: two routines (p, then q) of GOTO / IF..THEN GOTO / label statements built as P of parse.cpp builds them, compiled by
// the real dispatchGoto / dispatchIf / dispatchMark, closed by the real popSymbols, patched by the real backpatch.  The statement
// KINDS are fixed per entry (they determine the code positions, see sym_code); every label NAME is symbolic in {l, m}, so one entry
// covers: reference before / after the definition, reference without definition, definition without reference, one or two labels,
// the same name used in both routines.  (A label defined twice in a routine is outside C04; the last definition wins here.)
#if GR_PART == 4
enum { K_NONE = 0, K_GOTO = 1, K_IF = 2, K_MARK = 3 };
#define LAB_OPS 4
struct LabRec {
  bool ref[2][2]; int pos[2][2];            // [routine][label]: referenced; position recorded by the last definition, -1 if none
  int jloc[LAB_OPS], jlab[LAB_OPS], jrt[LAB_OPS], nj; int start[2], ret[2];
};
static void lab_op(GenState &gs, LabRec &R, int rt, int kind, int slot) {
  if (kind == K_NONE) return;
  int lab = pick(0, 1); CEX_kind[slot] = kind; CEX_lab[slot] = lab;
  Node nm, go, x, c, eq, iff, mk;
  mknode(nm, Node::Type::NAME, sel2(LN, lab), NULL, NULL);
  if (kind == K_GOTO) {
    mknode(go, Node::Type::GOTO, std::string(), &nm, NULL);
    dispatchGoto(gs, &go);
  } else if (kind == K_IF) {
    mknode(x, Node::Type::NAME, std::string("x"), NULL, NULL);
    mknode(c, Node::Type::NUMBER, std::string("0"), NULL, NULL);
    mknode(eq, Node::Type::EQ, std::string(), &x, &c);
    mknode(go, Node::Type::GOTO, std::string(), &nm, NULL);
    mknode(iff, Node::Type::IF, std::string(), &eq, &go);
    dispatchIf(gs, &iff);
  } else {
    mknode(mk, Node::Type::MARK, std::string(), &nm, NULL);
    int at = gs.getNextPos();       // (no breakpoint site on top: all nodes carry the current line)
    dispatchMark(gs, &mk);
    if (lab == 0) R.pos[rt][0] = at; else R.pos[rt][1] = at;
    return;
  }
  if (lab == 0) R.ref[rt][0] = true; else R.ref[rt][1] = true;
  R.jloc[R.nj] = gs.getNextPos() - 1; R.jlab[R.nj] = lab; R.jrt[R.nj] = rt; R.nj++;
}
static int lab_routine(GenState &gs, LabRec &R, int rt, int k0, int k1, int k2, int slot0) {
  gs.pushSymbols(std::string(rt == 0 ? "p" : "q"));
  R.start[rt] = gs.getNextPos();
  lab_op(gs, R, rt, k0, slot0); lab_op(gs, R, rt, k1, slot0 + 1); lab_op(gs, R, rt, k2, slot0 + 2);
  R.ret[rt] = gs.getNextPos();
  gs.emit(Instruction::Ret(0));
  int e0 = count_err(gs, ET::UNKNOWN_MARK);
  gs.popSymbols(R.start[rt]);
  int want = (R.ref[rt][0] && R.pos[rt][0] < 0 ? 1 : 0) + (R.ref[rt][1] && R.pos[rt][1] < 0 ? 1 : 0);
  return (count_err(gs, ET::UNKNOWN_MARK) - e0) - want;     // 0 iff the rule holds for this routine
}
static void labels_case(int a0, int a1, int a2, int b0, int b1) {
  GenState gs = fresh_state();
  gs.emit(Instruction::PrepareExec(-1, -1, 0));
  LabRec R;
  for (int r = 0; r < 2; r++) for (int q = 0; q < 2; q++) { R.ref[r][q] = false; R.pos[r][q] = -1; }
  R.nj = 0;
  int d0 = lab_routine(gs, R, 0, a0, a1, a2, 0);
  ASSERT(d0 == 0, "C04: popSymbols records UNKNOWN_MARK exactly once per label that is referenced in the routine and never set in it");
  int d1 = lab_routine(gs, R, 1, b0, b1, K_NONE, 3);
  ASSERT(d1 == 0, "C04: a label that is set only in another routine does not count: UNKNOWN_MARK is recorded for the second routine by the same rule");
  ASSERT((int)gs.errors.size() == count_err(gs, ET::UNKNOWN_MARK), "C04: GOTO, IF and label statements record no other error");
  // every emitted jump is listed for patching, in order
  bool listed = (int)gs.backpatching_todo.size() == R.nj;
  for (int j = 0; j < LAB_OPS; j++) if (j < R.nj && listed) listed = gs.backpatching_todo.u.d[j] == R.jloc[j];
  ASSERT(listed, "C03: every JMP / JMPC emitted for GOTO and IF is entered in backpatching_todo, nothing else is");
  bool all_set = gs.errors.size() == 0;
  if (all_set) {
    gs.backpatch();
    ASSERT(gs.errors.size() == 0 && gs.backpatching_todo.size() == 0, "C03: backpatch() records no error when every referenced label is set, and empties the list");
    bool lands = true, inside = true, kept = true;
    for (int j = 0; j < LAB_OPS; j++) if (j < R.nj) {
      Instruction ins = code_at(gs, R.jloc[j]);
      int rt = R.jrt[j];
      int tgt = R.jlab[j] == 0 ? (rt == 0 ? R.pos[0][0] : R.pos[1][0]) : (rt == 0 ? R.pos[0][1] : R.pos[1][1]);
      int lo = rt == 0 ? R.start[0] : R.start[1], hi = rt == 0 ? R.ret[0] : R.ret[1];
      kept = kept && (ins.op == OpCode::JMP || ins.op == OpCode::JMPC);
      lands = lands && ins.parameters.jmp.offset == tgt - R.jloc[j];      // (JMP and JMPC: the offset is the first operand)
      inside = inside && R.jloc[j] + ins.parameters.jmp.offset >= lo && R.jloc[j] + ins.parameters.jmp.offset <= hi;
    }
    ASSERT(kept && lands, "C03: after backpatch() every listed JMP / JMPC has offset = position recorded for its label in its own routine - own position");
    ASSERT(inside, "C03: every patched jump lands inside the code range of its own routine (entry .. RET)");
  }
  ASSERT(!all_set, "C03(EXISTS): a combination in which every referenced label is set");
  ASSERT(all_set, "C04(EXISTS): a combination with an unknown label");
}
#define LABELS_ENTRY(nm, a0, a1, a2, b0, b1) extern "C" void nm() { labels_case(a0, a1, a2, b0, b1); ASSERT(0, "WITNESS: end of " #nm " reachable"); }
LABELS_ENTRY(h_labels_fwd, K_GOTO, K_MARK, K_NONE, K_MARK, K_NONE)     // p: GOTO x; y: ...      q: z: ...
LABELS_ENTRY(h_labels_back, K_MARK, K_IF, K_NONE, K_MARK, K_GOTO)      // p: x: IF .. GOTO y     q: z: GOTO w
LABELS_ENTRY(h_labels_two, K_IF, K_GOTO, K_MARK, K_MARK, K_NONE)       // p: IF .. GOTO x; GOTO y; z: ...   q: w: ...
LABELS_ENTRY(h_labels_mix, K_GOTO, K_MARK, K_MARK, K_IF, K_MARK)       // p: GOTO x; y: z: ...   q: IF .. GOTO w; v: ...
#endif

// =========================================================================================================
// 5. C02: the real Theo::gen() (gen_ast, dispatchVoid, dispatchValue, dispatchProgram, dispatchLoop, ... popSymbols, backpatch) on
// the tree SHAPES an error-free parse can deliver, each built exactly as S / PORTS / OPORTS / ARGS / P / MOREP / VALUE / VARGS /
// MVARGS of parse.cpp build it - in particular with the children that are NULL on error-free parses: PORTS absent, OPORTS absent,
// VARGS absent, the `more` of every SPLIT chain.  One entry per shape; shape, names and line labels are constants of the entry
// (measured: the whole generator with symbolic labels or names gives no verdict; the opcode of an emitted instruction is not a
// constant for the symbolic execution - Instruction is passed in two 64-bit registers and holds a union - so that every error
// branch of popSymbols/backpatch stays feasible and the state blurs).  These whole-traversal runs are the cross-check of the
// per-function obligations of part 6, which carry the C02 claim for trees of any size.
#if GR_PART == 5
static std::string sym_digit() { std::string s; s.__push((char)('0' + pick(0, 9))); return s; }
static std::string lit7() { return std::string("7"); }
static void mkline(Node &n, Node::Type t, const char *tok, Node *l, Node *r, int line) { mknode(n, t, std::string(tok), l, r); n.line = line; }
// The frame of Theo::gen() around the traversal, statement by statement as in gen.cpp.  Theo::gen() itself receives the AST by value
// and copies it into its GenState; that copy reaches CBMC as a byte-wise memcpy into the GenState object (ir2c keeps the memcpy of a
// struct whose first member is a bool), after which no field of the state is a constant for the symbolic execution and the traversal
// gives no verdict.  Therefore the shapes enter the real gen_ast() from a state that is built field by field here; that the real
// Theo::gen() builds this frame is obligation h_gen_frame (real Theo::gen(), gen_ast() replaced by an observer), and lib/genh.py
// compares the text of Theo::gen() with the statement list mirrored here on every run.
static CodegenResult run_gen(Node *root) {
  init_names();
  GenState gs = {.in = {}, .out = {.code = {}, .stack_maps = {}, .potential_breaks = {}, .line_info = {}}, .errors = {}, .symbols = {},
                 .funcAddrs = {}, .labels = {}, .backpatching_todo = {}, .fs = {.name = "#root_file_context", .line = 0}};
  gs.in.parsed_correctly = true; gs.in.root = root;
  gs.emit(Instruction::PrepareExec(-1, -1, 0));
  gs.pushSymbols("#root");
  gen_ast(gs);
  gs.popSymbols(0);
  Prog p = gs.funcAddrs["#root"];
  gs.out.code[0].parameters.prepare.count = p.stack_size;
  gs.out.code[0].parameters.prepare.index = p.mi;
  gs.emit(Instruction::Halt());
  gs.backpatch();
  return {.generated_correctly = gs.errors.size() == 0, .errors = gs.errors, .code = gs.out, .file_requests = {}};
}
static void check_result(const CodegenResult &r, int want_errors) {
  ASSERT(r.generated_correctly == (r.errors.size() == 0), "C02: generated_correctly holds exactly when no error was recorded");
  ASSERT((int)r.errors.size() == want_errors, "C02: the tree compiles with exactly the diagnostics its source calls for");
  int n = (int)r.code.code.size();
  bool frame = n >= 2 && r.code.code.u.d[0].op == OpCode::PREPARE_EXEC;
  if (frame) frame = r.code.code.__at(n - 1).op == OpCode::HALT;
  ASSERT(frame, "C02: the result is a program that starts with the root PREPARE and ends with HALT");
  ASSERT(r.file_requests.size() == 0, "C02: the generator requests no files");
}
#define SHAPE_ENTRY(nm, want) extern "C" void h_shape_##nm() { Node *root = build_##nm(); CodegenResult r = run_gen(root); check_result(r, want); ASSERT(0, "WITNESS: end of h_shape_" #nm " reachable"); }
#define NODES(...) static Node __VA_ARGS__
#define N0(n, t, tok) mkline(n, Node::Type::t, tok, NULL, NULL, 1)
#define N2(n, t, l, r) mkline(n, Node::Type::t, "", l, r, 1)
#define L2(n, t, l, r, line) mkline(n, Node::Type::t, "", l, r, line)

// x := <d>
static Node *build_assign() {
  NODES(x, d, as, s);
  N0(x, NAME, "x"); mknode(d, Node::Type::NUMBER, sym_digit(), NULL, NULL);
  N2(as, ASSIGN, &x, &d); N2(s, SPLIT, &as, NULL);
  return &s;
}
SHAPE_ENTRY(assign, 0)
// x := y;          (line 1)
// y := <d>         (line 2)
static Node *build_seq() {
  NODES(x, y, as1, y2, d, as2, s2, s1);
  N0(x, NAME, "x"); N0(y, NAME, "y"); N2(as1, ASSIGN, &x, &y);
  mkline(y2, Node::Type::NAME, "y", NULL, NULL, 2); mknode(d, Node::Type::NUMBER, sym_digit(), NULL, NULL); d.line = 2;
  L2(as2, ASSIGN, &y2, &d, 2); L2(s2, SPLIT, &as2, NULL, 2); N2(s1, SPLIT, &as1, &s2);
  return &s1;
}
SHAPE_ENTRY(seq, 0)
// a definition: PROGRAM f <ports> DO <body> END <more>      (S of parse.cpp; ports may be NULL)
static void mkprogram(Node &sp, Node &prog, Node &hdr, Node &name, Node &bodysp, Node &endm, Node &endn, const char *fname, Node *ports, Node *body, Node *more, int line) {
  mkline(name, Node::Type::NAME, fname, NULL, NULL, line);
  mkline(hdr, Node::Type::SPLIT, "", &name, ports, line);
  mkline(endn, Node::Type::NAME, "END", NULL, NULL, line + 2);
  mkline(endm, Node::Type::MARK, "", &endn, NULL, line + 2);
  mkline(bodysp, Node::Type::SPLIT, "", body, &endm, line);
  mkline(prog, Node::Type::PROGRAM, "", &hdr, &bodysp, line);
  mkline(sp, Node::Type::SPLIT, "", &prog, more, line);
}
// PROGRAM f DO          (1)       PORTS absent, VARGS absent
//   x0 := <d>           (2)
// END                   (3)
// x := RUN f WITH END   (4)
static Node *build_prog_noports() {
  NODES(sp, prog, hdr, name, bodysp, endm, endn, x0, d, as, bs, x, f, call, as2, ms);
  mkline(x0, Node::Type::NAME, "x0", NULL, NULL, 2); mknode(d, Node::Type::NUMBER, lit7(), NULL, NULL); d.line = 2;
  L2(as, ASSIGN, &x0, &d, 2); L2(bs, SPLIT, &as, NULL, 2);
  mkline(x, Node::Type::NAME, "x", NULL, NULL, 4); mkline(f, Node::Type::NAME, "f", NULL, NULL, 4);
  L2(call, CALL, &f, NULL, 4); L2(as2, ASSIGN, &x, &call, 4); L2(ms, SPLIT, &as2, NULL, 4);
  mkprogram(sp, prog, hdr, name, bodysp, endm, endn, "f", NULL, &bs, &ms, 1);
  return &sp;
}
SHAPE_ENTRY(prog_noports, 0)
// PROGRAM f IN a DO x0 := a END x := RUN f WITH <d> END        OPORTS absent, one argument (MVARGS absent), all on line 1
static Node *build_prog_in() {
  NODES(sp, prog, hdr, name, bodysp, endm, endn, a, args, ports, x0, a2, as, bs, x, f, d, va, call, as2, ms);
  N0(a, NAME, "a"); N2(args, SPLIT, &a, NULL); N2(ports, SPLIT, &args, NULL);
  N0(x0, NAME, "x0"); N0(a2, NAME, "a"); N2(as, ASSIGN, &x0, &a2); N2(bs, SPLIT, &as, NULL);
  N0(x, NAME, "x"); N0(f, NAME, "f"); mknode(d, Node::Type::NUMBER, lit7(), NULL, NULL);
  N2(va, SPLIT, &d, NULL); N2(call, CALL, &f, &va); N2(as2, ASSIGN, &x, &call); N2(ms, SPLIT, &as2, NULL);
  mkprogram(sp, prog, hdr, name, bodysp, endm, endn, "f", &ports, &bs, &ms, 1);
  endn.line = 1; endm.line = 1;
  return &sp;
}
SHAPE_ENTRY(prog_in, 0)
// PROGRAM f IN a, b OUT c DO   (1)
//   c := a                     (2)
// END                          (3)
// x := RUN f WITH y, <d> END   (4)
static Node *build_prog_inout() {
  NODES(sp, prog, hdr, name, bodysp, endm, endn, a, b, ar2, ar1, c, ports, c2, a2, as, bs, x, f, y, d, v2, v1, call, as2, ms);
  N0(a, NAME, "a"); N0(b, NAME, "b"); N2(ar2, SPLIT, &b, NULL); N2(ar1, SPLIT, &a, &ar2); N0(c, NAME, "c"); N2(ports, SPLIT, &ar1, &c);
  mkline(c2, Node::Type::NAME, "c", NULL, NULL, 2); mkline(a2, Node::Type::NAME, "a", NULL, NULL, 2); L2(as, ASSIGN, &c2, &a2, 2); L2(bs, SPLIT, &as, NULL, 2);
  mkline(x, Node::Type::NAME, "x", NULL, NULL, 4); mkline(f, Node::Type::NAME, "f", NULL, NULL, 4); mkline(y, Node::Type::NAME, "y", NULL, NULL, 4);
  mknode(d, Node::Type::NUMBER, lit7(), NULL, NULL); d.line = 4;
  L2(v2, SPLIT, &d, NULL, 4); L2(v1, SPLIT, &y, &v2, 4); L2(call, CALL, &f, &v1, 4); L2(as2, ASSIGN, &x, &call, 4); L2(ms, SPLIT, &as2, NULL, 4);
  mkprogram(sp, prog, hdr, name, bodysp, endm, endn, "f", &ports, &bs, &ms, 1);
  return &sp;
}
SHAPE_ENTRY(prog_inout, 0)
// PROGRAM f IN a DO x0 := a END x := RUN f WITH END        wrong number of arguments, VARGS absent
static Node *build_argsize() {
  NODES(sp, prog, hdr, name, bodysp, endm, endn, a, args, ports, x0, a2, as, bs, x, f, call, as2, ms);
  N0(a, NAME, "a"); N2(args, SPLIT, &a, NULL); N2(ports, SPLIT, &args, NULL);
  N0(x0, NAME, "x0"); N0(a2, NAME, "a"); N2(as, ASSIGN, &x0, &a2); N2(bs, SPLIT, &as, NULL);
  N0(x, NAME, "x"); N0(f, NAME, "f"); N2(call, CALL, &f, NULL); N2(as2, ASSIGN, &x, &call); N2(ms, SPLIT, &as2, NULL);
  mkprogram(sp, prog, hdr, name, bodysp, endm, endn, "f", &ports, &bs, &ms, 1);
  endn.line = 1; endm.line = 1;
  return &sp;
}
SHAPE_ENTRY(argsize, 1)
// x := RUN g WITH <d>, RUN g WITH END END         unknown program, a call as argument (line 1)
static Node *build_unknown_call() {
  NODES(x, g, d, g2, inner, v2, v1, call, as, s);
  N0(x, NAME, "x"); N0(g, NAME, "g"); mknode(d, Node::Type::NUMBER, lit7(), NULL, NULL); N0(g2, NAME, "g"); N2(inner, CALL, &g2, NULL);
  N2(v2, SPLIT, &inner, NULL); N2(v1, SPLIT, &d, &v2); N2(call, CALL, &g, &v1); N2(as, ASSIGN, &x, &call); N2(s, SPLIT, &as, NULL);
  return &s;
}
SHAPE_ENTRY(unknown_call, 2)
// PROGRAM f DO x0 := <d> END PROGRAM g IN a DO x0 := RUN f WITH END END x := RUN g WITH RUN f WITH END END     two definitions, nested call
static Node *build_two_progs() {
  NODES(sp, prog, hdr, name, bodysp, endm, endn, x0, d, as, bs);
  NODES(sp2, prog2, hdr2, name2, bodysp2, endm2, endn2, a, args, ports, x02, f1, call1, asb, bs2, x, g, f2, inner, va, call2, as2, ms);
  N0(x0, NAME, "x0"); mknode(d, Node::Type::NUMBER, lit7(), NULL, NULL); N2(as, ASSIGN, &x0, &d); N2(bs, SPLIT, &as, NULL);
  N0(a, NAME, "a"); N2(args, SPLIT, &a, NULL); N2(ports, SPLIT, &args, NULL);
  N0(x02, NAME, "x0"); N0(f1, NAME, "f"); N2(call1, CALL, &f1, NULL); N2(asb, ASSIGN, &x02, &call1); N2(bs2, SPLIT, &asb, NULL);
  N0(x, NAME, "x"); N0(g, NAME, "g"); N0(f2, NAME, "f"); N2(inner, CALL, &f2, NULL); N2(va, SPLIT, &inner, NULL); N2(call2, CALL, &g, &va);
  N2(as2, ASSIGN, &x, &call2); N2(ms, SPLIT, &as2, NULL);
  mkprogram(sp2, prog2, hdr2, name2, bodysp2, endm2, endn2, "g", &ports, &bs2, &ms, 1); endn2.line = 1; endm2.line = 1;
  mkprogram(sp, prog, hdr, name, bodysp, endm, endn, "f", NULL, &bs, &sp2, 1); endn.line = 1; endm.line = 1;
  return &sp;
}
SHAPE_ENTRY(two_progs, 0)
// LOOP x DO       (1)
//   y := y        (2)
// END             (3)
static Node *build_loop() {
  NODES(x, y, y2, as, bs, lp, endn, endm, ls, s);
  N0(x, NAME, "x"); mkline(y, Node::Type::NAME, "y", NULL, NULL, 2); mkline(y2, Node::Type::NAME, "y", NULL, NULL, 2);
  L2(as, ASSIGN, &y, &y2, 2); L2(bs, SPLIT, &as, NULL, 2);
  N2(lp, LOOP, &x, &bs); mkline(endn, Node::Type::NAME, "END", NULL, NULL, 3); L2(endm, MARK, &endn, NULL, 3);
  N2(ls, SPLIT, &lp, &endm); N2(s, SPLIT, &ls, NULL);
  return &s;
}
SHAPE_ENTRY(loop, 0)
// WHILE x != 0 DO x := <d> END; STOP       (line 1)
static Node *build_while() {
  NODES(x, x2, d, as, bs, wh, endn, endm, ws, st, ss, s);
  N0(x, NAME, "x"); N0(x2, NAME, "x"); mknode(d, Node::Type::NUMBER, lit7(), NULL, NULL); N2(as, ASSIGN, &x2, &d); N2(bs, SPLIT, &as, NULL);
  N2(wh, WHILE, &x, &bs); N0(endn, NAME, "END"); N2(endm, MARK, &endn, NULL); N2(ws, SPLIT, &wh, &endm);
  N0(st, STOP, "STOP"); N2(ss, SPLIT, &st, NULL); N2(s, SPLIT, &ws, &ss);
  return &s;
}
SHAPE_ENTRY(while, 0)
// l: x := <d>;          (1)
// IF x = 0 THEN GOTO l; (2)
// GOTO l                (3)
static Node *build_jumps() {
  NODES(l, mk, x, d, as, x2, c, eq, l2, go, iff, l3, go2, s3, s2, s1, comb, s0);
  N0(l, NAME, "l"); N2(mk, MARK, &l, NULL); N0(x, NAME, "x"); mknode(d, Node::Type::NUMBER, lit7(), NULL, NULL); N2(as, ASSIGN, &x, &d);
  mkline(x2, Node::Type::NAME, "x", NULL, NULL, 2); mkline(c, Node::Type::NUMBER, "0", NULL, NULL, 2); L2(eq, EQ, &x2, &c, 2);
  mkline(l2, Node::Type::NAME, "l", NULL, NULL, 2); L2(go, GOTO, &l2, NULL, 2); L2(iff, IF, &eq, &go, 2);
  mkline(l3, Node::Type::NAME, "l", NULL, NULL, 3); L2(go2, GOTO, &l3, NULL, 3);
  L2(s3, SPLIT, &go2, NULL, 3); L2(s2, SPLIT, &iff, &s3, 2); N2(s1, SPLIT, &as, &s2);
  N2(comb, SPLIT, &mk, &s1); N2(s0, SPLIT, &comb, NULL);
  return &s0;
}
SHAPE_ENTRY(jumps, 0)
// GOTO l          label never set: UNKNOWN_MARK from popSymbols and from backpatch
static Node *build_unknown_mark() {
  NODES(l, go, s);
  N0(l, NAME, "l"); N2(go, GOTO, &l, NULL); N2(s, SPLIT, &go, NULL);
  return &s;
}
SHAPE_ENTRY(unknown_mark, 2)
// x := y + <d>; x := x - <d>        the standard macros: RUN __INC__ WITH y, <d> END with the call taken from the file __standards__
static Node *build_sugar() {
  NODES(x, inc, y, d, v2, v1, call, as, x2, dec, x3, d2, w2, w1, call2, as2, s2, s1);
  N0(x, NAME, "x"); N0(inc, NAME, "__INC__"); inc.file = std::string("__standards__"); N0(y, NAME, "y"); mknode(d, Node::Type::NUMBER, lit7(), NULL, NULL);
  N2(v2, SPLIT, &d, NULL); N2(v1, SPLIT, &y, &v2); N2(call, CALL, &inc, &v1); call.file = std::string("__standards__"); N2(as, ASSIGN, &x, &call);
  N0(x2, NAME, "x"); N0(dec, NAME, "__DEC__"); dec.file = std::string("__standards__"); N0(x3, NAME, "x"); mknode(d2, Node::Type::NUMBER, lit7(), NULL, NULL);
  N2(w2, SPLIT, &d2, NULL); N2(w1, SPLIT, &x3, &w2); N2(call2, CALL, &dec, &w1); call2.file = std::string("__standards__"); N2(as2, ASSIGN, &x2, &call2);
  N2(s2, SPLIT, &as2, NULL); N2(s1, SPLIT, &as, &s2);
  return &s1;
}
SHAPE_ENTRY(sugar, 0)

// (a failed parse is covered by harness_gen_ast of part 6 and h_gen_frame of part 7: the real Theo::gen() with the real gen_ast() on a
// failed parse gives no verdict, for the reason given above)
#endif

// =========================================================================================================
// 6. C02, layer B: every traversal function on every node shape it can meet, with the recursive traversal of the children replaced
// by an observing contract stub (job option stubs: dispatchVoid -> stub_void, dispatchArgs -> stub_args; the entries are named
// harness_* so that THEIR calls reach the real functions).  Tree invariant of error-free parses (read off S / P / MOREP / VALUE / VARGS / MVARGS / PORTS /
// OPORTS / ARGS / MARGS of parse.cpp), which each obligation may assume for the node it is given and for nothing below it:
//   SPLIT(l, r): l present, r present or NULL        ASSIGN(NAME, value)         LOOP / WHILE(NAME, body)       STOP
//   MARK(NAME, NULL)      GOTO(NAME, NULL)          IF(EQ(NAME, NUMBER), GOTO(NAME, NULL))
//   PROGRAM(SPLIT(NAME, ports), body) with ports = NULL or SPLIT(SPLIT(NAME, more-or-NULL), NAME-or-NULL)
//   value = NAME | NUMBER | CALL(NAME, args) with args = NULL or SPLIT(value, args)
// Each function dereferences only what the invariant guarantees and hands children (NULL or not) to functions that accept NULL; by
// induction over the height of the tree the whole traversal is free of null dereferences and container precondition violations.
#if GR_PART == 6
static struct VoidCtx { int calls; Node *seen[3]; } V;
extern "C" void stub_void(GenState &gs, Node *c) {
  if (V.calls == 0) V.seen[0] = c; if (V.calls == 1) V.seen[1] = c; if (V.calls == 2) V.seen[2] = c;
  V.calls++;
  // contract of the traversal of a subtree (established for every node kind by the obligations of this part): code is appended,
  // the symbol table stack is as before; here: one arbitrary instruction that is neither a jump nor a breakpoint site
  Instruction ins = Instruction::Add(nondet_int(), nondet_int(), nondet_int());
  gs.emit(ins);
}
// dispatchArgs() as seen from dispatchProgram() (job option stubs: dispatchArgs -> stub_args; the real one is the subject of
// h_program_* and harness_void_null): a present parameter list declares one parameter, an absent one none; the node is not followed
static struct ArgsCtx { int calls; Node *seen; } A;
extern "C" void stub_args(GenState &gs, Node *c) {
  A.calls++; A.seen = c;
  if (c != NULL) { gs.getSymbols().argnum++; gs.getSymbols().register_state.push_back({true, false, std::string("a")}); }
}
static GenState void_state(int line) {
  GenState gs = fresh_state();
  gs.fs.line = line;
  // the root PREPARE, written field by field: an instruction that went through emit() (passed in two 64-bit registers, stored into
  // a struct with a union) has no constant opcode for the symbolic execution, and removeTopPotBreak() would be explored both ways
  { Instruction &p = gs.out.code.u.d[0]; p.op = OpCode::PREPARE_EXEC; p.parameters.prepare.count = -1; p.parameters.prepare.index = -1; p.parameters.prepare.target = 0; gs.out.code.n = 1; }
  gs.pushSymbols(std::string("#root"));
  V.calls = 0; V.seen[0] = V.seen[1] = V.seen[2] = NULL; A.calls = 0; A.seen = NULL;
  return gs;
}
#define VEND(nm) ASSERT(0, "WITNESS: end of " #nm " reachable")
extern "C" void harness_void_null() {
  GenState gs = void_state(1);
  std::vector<RegisterIndex> al;
  dispatchVoid(gs, NULL); dispatchValue(gs, NULL, 0); dispatchArgs(gs, NULL); dispatchCallArgs(gs, NULL, al);
  ASSERT(V.calls == 0 && gs.out.code.size() == 1 && gs.errors.size() == 0 && al.size() == 0 && gs.getSymbols().register_state.size() == 0,
         "C02: an absent subtree (NULL) is accepted by dispatchVoid, dispatchValue, dispatchArgs and dispatchCallArgs and compiles to nothing");
  VEND(harness_void_null);
}
extern "C" void harness_void_split() {
  GenState gs = void_state(1);
  Node l, r, s;
  mknode(l, Node::Type::STOP, std::string(), NULL, NULL); mknode(r, Node::Type::STOP, std::string(), NULL, NULL);
  bool hr = nondet_bool();      // (the left child of a SPLIT is present on every error-free parse; `more` on the right may be absent)
  mknode(s, Node::Type::SPLIT, std::string(), &l, hr ? &r : NULL);
  dispatchVoid(gs, &s);
  ASSERT(V.calls == 2 && V.seen[0] == &l && V.seen[1] == (hr ? &r : NULL), "C02: a SPLIT node hands its left and then its right child - present or NULL - to the traversal exactly once each");
  ASSERT(gs.errors.size() == 0 && gs.out.code.size() == 3 && gs.symbols.size() == 1, "C02: a SPLIT node itself emits nothing and records no error");
  VEND(harness_void_split);
}
extern "C" void harness_void_assign() {
  GenState gs = void_state(1);
  Node x, y, d, as;
  mknode(x, Node::Type::NAME, std::string("x"), NULL, NULL); mknode(y, Node::Type::NAME, std::string("y"), NULL, NULL);
  std::string lit; lit.__push((char)('0' + pick(0, 9))); mknode(d, Node::Type::NUMBER, lit, NULL, NULL);
  bool from_name = nondet_bool();
  mknode(as, Node::Type::ASSIGN, std::string(), &x, from_name ? &y : &d);
  dispatchVoid(gs, &as);
  Instruction ins = code_at(gs, 1);
  ASSERT(V.calls == 0 && gs.errors.size() == 0 && gs.out.code.size() == 2, "C02: an assignment of a name or a literal compiles to one instruction without error");
  ASSERT(ins.parameters.add.target == 0 && (from_name ? (ins.op == OpCode::ADD_CONST && ins.parameters.add.source == 1 && ins.parameters.add.constant == 0) : ins.op == OpCode::CONST),
         "C03: x := y is ADD(reg x, reg y, 0), x := c is CONST(reg x, c), registers allocated in order of first use");
  ASSERT((int)gs.getSymbols().register_state.size() == (from_name ? 2 : 1), "C03: the assignment allocates registers for exactly the variables it names");
  VEND(harness_void_assign);
}
static bool in_todo(const GenState &gs, int at, int loc) { return at < (int)gs.backpatching_todo.size() && gs.backpatching_todo.u.d[at] == loc; }
extern "C" void harness_void_loop() {
  GenState gs = void_state(1);
  Node x, b, lp;
  mknode(x, Node::Type::NAME, std::string("x"), NULL, NULL); mknode(b, Node::Type::STOP, std::string(), NULL, NULL);
  mknode(lp, Node::Type::LOOP, std::string(), &x, &b);
  Node *body = lp.right;
  dispatchVoid(gs, &lp);
  ASSERT(V.calls == 1 && V.seen[0] == body && gs.errors.size() == 0, "C02: a LOOP node compiles its bound itself and hands its body to the traversal exactly once");
  ASSERT(gs.out.code.size() == 6, "C03: LOOP emits: counter := bound, JMPC, body, counter - 1, JMP");
  Instruction init = code_at(gs, 1), jc = code_at(gs, 2), dec = code_at(gs, 4), jm = code_at(gs, 5);
  int counter = init.parameters.add.target;
  bool regs = (int)gs.getSymbols().register_state.size() == 2 && counter == 0 && init.op == OpCode::ADD_CONST && init.parameters.add.source == 1 && init.parameters.add.constant == 0;
  if (regs) { VReg c = reg_at(gs.getSymbols(), 0), v = reg_at(gs.getSymbols(), 1); regs = !c.is_temp && c.in_use && !(c.name == v.name) && v.name == std::string("x"); }
  ASSERT(regs, "C03: the loop counter is a variable register of its own (never released, not the bound variable), initialised from the bound");
  ASSERT(jc.op == OpCode::JMPC && jc.parameters.jmpc.source == counter && dec.op == OpCode::ADD_CONST && dec.parameters.add.target == counter && dec.parameters.add.source == counter && dec.parameters.add.constant == -1 && jm.op == OpCode::JMP,
         "C03: the loop tests and decrements its private counter once per iteration");
  bool labs = gs.labels.size() == 2 && jm.parameters.jmp.offset == 0 && jc.parameters.jmpc.offset == 1;
  if (labs) labs = gs.labels.u.d[0] == 2 && gs.labels.u.d[1] == 6;
  ASSERT(labs, "C03: the back jump carries the label of the loop test, the exit jump the label of the position after the loop; both labels are set");
  ASSERT(gs.backpatching_todo.size() == 2 && in_todo(gs, 0, 2) && in_todo(gs, 1, 5), "C03: both jumps of the loop are entered in backpatching_todo");
  VEND(harness_void_loop);
}
extern "C" void harness_void_while() {
  GenState gs = void_state(1);
  Node x, b, wh;
  mknode(x, Node::Type::NAME, std::string("x"), NULL, NULL); mknode(b, Node::Type::STOP, std::string(), NULL, NULL);
  mknode(wh, Node::Type::WHILE, std::string(), &x, &b);
  Node *body = wh.right;
  dispatchVoid(gs, &wh);
  ASSERT(V.calls == 1 && V.seen[0] == body && gs.errors.size() == 0, "C02: a WHILE node compiles its condition itself and hands its body to the traversal exactly once");
  ASSERT(gs.out.code.size() == 5, "C03: WHILE emits: condition, JMPC, body, JMP");
  Instruction ev = code_at(gs, 1), jc = code_at(gs, 2), jm = code_at(gs, 4);
  int cond = ev.parameters.add.target;
  bool regs = (int)gs.getSymbols().register_state.size() == 2 && cond == 0 && ev.op == OpCode::ADD_CONST && ev.parameters.add.source == 1;
  if (regs) { VReg c = reg_at(gs.getSymbols(), 0); regs = c.is_temp && !c.in_use; }
  ASSERT(regs && jc.op == OpCode::JMPC && jc.parameters.jmpc.source == cond && jm.op == OpCode::JMP, "C03: the condition is evaluated into a temporary that is released after the loop");
  bool labs = gs.labels.size() == 2 && jm.parameters.jmp.offset == 0 && jc.parameters.jmpc.offset == 1;
  if (labs) labs = gs.labels.u.d[0] == 1 && gs.labels.u.d[1] == 5;
  ASSERT(labs, "C03: the back jump carries the label of the condition, the exit jump the label of the position after the loop; both labels are set");
  ASSERT(gs.backpatching_todo.size() == 2 && in_todo(gs, 0, 2) && in_todo(gs, 1, 4), "C03: both jumps of the loop are entered in backpatching_todo");
  VEND(harness_void_while);
}
// dispatchVoid routes STOP, label, GOTO and IF nodes to their functions
extern "C" void harness_void_jumps() {
  GenState gs = void_state(1);
  Node st, l, mk, l2, go, x, c, eq, l3, go2, iff;
  mknode(st, Node::Type::STOP, std::string("STOP"), NULL, NULL);
  mknode(l, Node::Type::NAME, std::string("l"), NULL, NULL); mknode(mk, Node::Type::MARK, std::string(), &l, NULL);
  mknode(l2, Node::Type::NAME, std::string("l"), NULL, NULL); mknode(go, Node::Type::GOTO, std::string(), &l2, NULL);
  mknode(x, Node::Type::NAME, std::string("x"), NULL, NULL); mknode(c, Node::Type::NUMBER, std::string("0"), NULL, NULL); mknode(eq, Node::Type::EQ, std::string(), &x, &c);
  mknode(l3, Node::Type::NAME, std::string("m"), NULL, NULL); mknode(go2, Node::Type::GOTO, std::string(), &l3, NULL); mknode(iff, Node::Type::IF, std::string(), &eq, &go2);
  dispatchVoid(gs, &st); dispatchVoid(gs, &mk); dispatchVoid(gs, &go); dispatchVoid(gs, &iff);
  ASSERT(V.calls == 0 && gs.errors.size() == 0, "C02: STOP, label, GOTO and IF nodes are compiled without looking below the children the parser guarantees");
  ASSERT(gs.out.code.size() == 7 && code_at(gs, 1).op == OpCode::HALT && code_at(gs, 2).op == OpCode::JMP && code_at(gs, 5).op == OpCode::TEST && code_at(gs, 6).op == OpCode::JMPC,
         "C03: STOP is HALT, GOTO is JMP, IF is operand code, TEST, JMPC");
  bool labs = gs.labels.size() == 2 && gs.backpatching_todo.size() == 2 && in_todo(gs, 0, 2) && in_todo(gs, 1, 6);
  if (labs) labs = gs.labels.u.d[0] == 2 && gs.labels.u.d[1] == -1 && code_at(gs, 2).parameters.jmp.offset == 0 && code_at(gs, 6).parameters.jmpc.offset == 1;
  ASSERT(labs, "C03: a label statement sets its label to the next position, a reference creates an unset label; both jumps are listed");
  VEND(harness_void_jumps);
}
// PROGRAM f <ports> DO <body> END: dispatchVoid routes the node to dispatchProgram (removeTopPotBreak() is a no-op here: the node
// carries the current line, so no site was emitted for it; the removal of a site is obligation h_remove_top of C08).  PORTS: 0 = the
// PORTS node is absent (PROGRAM f DO ..), 1 = IN a (OPORTS absent), 2 = IN a OUT b
// (a macro, not a function: only functions named harness* reach the real dispatchVoid once it is stubbed)
#define VOID_PROGRAM_BODY(PORTS) \
  GenState gs = void_state(1); \
  Node name, hdr, a, args, outn, ports, b, endn, endm, bodysp, prog; \
  mknode(name, Node::Type::NAME, std::string("f"), NULL, NULL); \
  mknode(a, Node::Type::NAME, std::string("a"), NULL, NULL); mknode(args, Node::Type::SPLIT, std::string(), &a, NULL); \
  mknode(outn, Node::Type::NAME, std::string("b"), NULL, NULL); mknode(ports, Node::Type::SPLIT, std::string(), &args, PORTS == 2 ? &outn : NULL); \
  mknode(hdr, Node::Type::SPLIT, std::string(), &name, PORTS >= 1 ? &ports : NULL); \
  mknode(b, Node::Type::STOP, std::string(), NULL, NULL); mknode(endn, Node::Type::NAME, std::string("END"), NULL, NULL); \
  mknode(endm, Node::Type::MARK, std::string(), &endn, NULL); mknode(bodysp, Node::Type::SPLIT, std::string(), &b, &endm); \
  mknode(prog, Node::Type::PROGRAM, std::string(), &hdr, &bodysp); \
  dispatchVoid(gs, &prog); \
  ASSERT(A.calls == 1 && A.seen == (PORTS >= 1 ? &args : NULL), "C02: a definition hands its parameter list - NULL when the PORTS node is absent - to dispatchArgs and dereferences no absent node"); \
  ASSERT(V.calls == 1 && V.seen[0] == &bodysp && gs.errors.size() == 0 && gs.symbols.size() == 1, "C02: the body of a definition goes to the traversal exactly once; no error is recorded"); \
  ASSERT(gs.out.code.size() == 4 && code_at(gs, 1).op == OpCode::JMP && code_at(gs, 3).op == OpCode::RET && code_at(gs, 3).parameters.ret.source == (PORTS >= 1 ? 1 : 0), "C03: the definition is JMP, body, RET(register of the OUT variable or of x0)"); \
  ASSERT(gs.out.line_info.size() == 0 && gs.out.potential_breaks.size() == 0 && gs.funcAddrs.size() == 1, "C02: no breakpoint site is left behind; the definition is recorded");
extern "C" void harness_void_program() { VOID_PROGRAM_BODY(0) VEND(harness_void_program); }
extern "C" void harness_void_program_in() { VOID_PROGRAM_BODY(1) VEND(harness_void_program_in); }
extern "C" void harness_void_program_inout() { VOID_PROGRAM_BODY(2) VEND(harness_void_program_inout); }
// node kinds the parser never puts in statement / value position: reported as MALFORMED_AST, never dereferenced
extern "C" void harness_void_malformed() {
  GenState gs = void_state(1);
  Node a, b, c;
  mknode(a, Node::Type::EQ, std::string(), NULL, NULL); mknode(b, Node::Type::CALL, std::string(), NULL, NULL); mknode(c, Node::Type::ASSIGN, std::string(), NULL, NULL);
  dispatchVoid(gs, &a); dispatchVoid(gs, &b); dispatchValue(gs, &c, 0);
  ASSERT(V.calls == 0 && gs.out.code.size() == 1 && gs.errors.size() == 3 && count_err(gs, ET::MALFORMED_AST) == 3, "C02: a node kind that cannot stand in statement or value position is reported as MALFORMED_AST and its children are not touched");
  VEND(harness_void_malformed);
}
extern "C" void harness_gen_ast() {
  GenState gs = void_state(0);
  Node s; mknode(s, Node::Type::STOP, std::string(), NULL, NULL);
  bool ok = nondet_bool(), has_root = nondet_bool();
  gs.in.parsed_correctly = ok; gs.in.root = has_root ? &s : NULL;
  int line[2], file[2];
  for (int i = 0; i < 2; i++) {
    SyntaxError e; line[i] = nondet_int(); file[i] = pick(0, 2); e.line = line[i]; e.file = sel3(VN, file[i]); e.msg = sel3(FN, file[i]);
    gs.in.errors.push_back(e);
  }
  if (ok) gs.in.errors.clear();
  gen_ast(gs);
  if (ok) {
    ASSERT(V.calls == 1 && V.seen[0] == (has_root ? &s : NULL) && gs.errors.size() == 0, "C02: after a successful parse gen_ast() traverses the root (present or NULL) exactly once and records nothing itself");
  } else {
    bool fwd = gs.errors.size() == 2;
    for (int i = 0; i < 2; i++) if (fwd) { const CodegenResult::Error &e = gs.errors.u.d[i]; fwd = e.t == ET::PARSE_ERROR && e.line == line[i] && e.file == sel3(VN, file[i]) && e.message == sel3(FN, file[i]); }
    ASSERT(fwd, "C02: after a failed parse gen_ast() forwards the parse errors one to one, in order, as PARSE_ERROR with their file, line and text");
    ASSERT(V.calls == 0 && gs.out.code.size() == 1, "C02: after a failed parse nothing is generated from the tree");
  }
  VEND(harness_gen_ast);
}
#endif

// =========================================================================================================
// 7. the frame of the real Theo::gen() (job option stubs: gen_ast -> stub_frame): what it hands to the traversal and what it makes
// of the traversal's outcome
#if GR_PART == 7
static struct FrameCtx { int calls; Node *root; bool parsed; bool fail; } F;
extern "C" void stub_frame(GenState &gs) {
  F.calls++;
  ASSERT(gs.in.root == F.root && gs.in.parsed_correctly == F.parsed, "C02: gen() hands the AST it was given to the traversal");
  bool fresh = gs.out.code.size() == 1 && gs.errors.size() == 0 && gs.symbols.size() == 1 && gs.funcAddrs.size() == 0 && gs.labels.size() == 0 && gs.backpatching_todo.size() == 0 && gs.out.stack_maps.size() == 0;
  if (fresh) fresh = gs.out.code.u.d[0].op == OpCode::PREPARE_EXEC && gs.symbols.u.d[0].name == std::string("#root") && gs.symbols.u.d[0].register_state.size() == 0;
  ASSERT(fresh, "C02: the traversal starts from the root PREPARE, an empty root symbol table and empty tables");
  // outcome of a traversal: a variable, a forward jump whose label is set, one more instruction, possibly an error
  gs.getSymbols().fetchVariableRegister(std::string("x"));
  int lab = gs.createLabel();
  gs.emitBackpatched(Instruction::Jmp(lab));
  gs.emit(Instruction::LoadConstant(0, 1));
  gs.setLabel(lab, gs.getNextPos());
  if (F.fail) gs.err(ET::UNKNOWN_PROGRAM_NAME, std::string("e"));
}
extern "C" void h_gen_frame() {
  init_names();
  Node s; mknode(s, Node::Type::STOP, std::string(), NULL, NULL);
  AST a; a.parsed_correctly = nondet_bool(); a.root = nondet_bool() ? &s : NULL;
  F.calls = 0; F.root = a.root; F.parsed = a.parsed_correctly; F.fail = nondet_bool();
  CodegenResult r = Theo::gen(a);
  ASSERT(F.calls == 1, "C02: gen() runs the traversal exactly once");
  ASSERT(r.generated_correctly == !F.fail && (int)r.errors.size() == (F.fail ? 1 : 0), "C02: generated_correctly holds exactly when the traversal recorded no error; the errors are returned");
  bool shape = r.code.code.size() == 4 && r.file_requests.size() == 0 && r.code.stack_maps.size() == 1;
  if (shape) {
    const Instruction &p = r.code.code.u.d[0], &j = r.code.code.u.d[1], &h = r.code.code.u.d[3];
    shape = p.op == OpCode::PREPARE_EXEC && p.parameters.prepare.count == 1 && p.parameters.prepare.index == 0 && h.op == OpCode::HALT &&
            j.op == OpCode::JMP && j.parameters.jmp.offset == 2 && r.code.stack_maps.u.d[0].func_name == std::string("#root") && r.code.stack_maps.u.d[0].map.size() == 1;
  }
  ASSERT(shape, "C03: gen() closes the root routine (frame size and stack map patched into the root PREPARE), appends HALT and patches the jumps");
  ASSERT(0, "WITNESS: end of h_gen_frame reachable");
}
#endif

// =========================================================================================================
// 8. lowering of LOOP, WHILE and plain assignment from an ARBITRARY generator state (C01 semantics of the lowering, C03 register
// indices / jump targets, C16 privacy of the LOOP counter).  Real dispatchLoop / dispatchWhile with the traversal of the children
// replaced by contract stubs (job option stubs: dispatchValue -> stub_value8, dispatchVoid -> stub_body8); real dispatchAssign +
// dispatchValue (NAME / NUMBER leaves) in h_assign.  Unlike parts 2-7 the COUNTS of the pre-state are symbolic too (within the
// capacities G8_*): number of instructions emitted so far, of existing labels, of pending backpatch entries, of registers, the
// loop number; the stubs emit a symbolic number of instructions.  Pre-state invariants assumed:
//   Inv_reg (part 4; variable names here: a, b, c or the counter name of an EARLIER loop, i.e. a loop number <= gs.loops)
//   Inv_lab: every existing label is unset (-1) or a position <= code size; every pending entry is the position of an emitted
//            JMP / JMPC whose operand is the index of an existing label; pending positions are increasing
// The stubs behave like an arbitrary well-behaved subtree: stub_value8 (value of the bound / condition) may declare a variable and
// emits 0..2 arbitrary non-jump instructions; stub_body8 (body) may take a temporary through the real allocator and release it at
// its end, may be / contain a LOOP (gs.loops grows), emits 0..2 arbitrary non-jump instructions and at most one jump through the
// real createLabel / emitBackpatched / setLabel (new or existing label, set anywhere or left unset: jumps out of, into, within the body).
#if GR_PART == 8
#ifndef G8_N0
#define G8_N0 3       /* instructions emitted so far: 1..G8_N0 (the first one is the root PREPARE) */
#endif
#ifndef G8_NL
#define G8_NL 2       /* existing labels: 0..G8_NL */
#endif
#ifndef G8_NT
#define G8_NT 2       /* pending backpatch entries: 0..G8_NT */
#endif
#ifndef G8_REGS
#define G8_REGS 3     /* registers of the pre-state: 0..G8_REGS */
#endif
#ifndef G8_LOOPS
#define G8_LOOPS 8    /* loops compiled so far: 0..G8_LOOPS */
#endif
#ifndef G8_N0_LO      /* lower ends of the ranges (experiments: LO == HI makes the count a constant of the build) */
#define G8_N0_LO 1
#endif
#ifndef G8_NL_LO
#define G8_NL_LO 0
#endif
#ifndef G8_NT_LO
#define G8_NT_LO 0
#endif
#ifndef G8_REGS_LO
#define G8_REGS_LO 0
#endif
#ifndef G8_KV         /* value stub: 0..G8_KV instructions; G8_VDECL 0 never / 1 always / 2 symbolic: declares a variable */
#define G8_KV 2
#endif
#ifndef G8_KV_LO
#define G8_KV_LO 0
#endif
#ifndef G8_VDECL
#define G8_VDECL 2
#endif
#ifndef G8_KB         /* body stub: 0..G8_KB plain instructions; temporary / jump / nested loop: 0 never, 1 always, 2 symbolic */
#define G8_KB 2
#endif
#ifndef G8_KB_LO
#define G8_KB_LO 0
#endif
#ifndef G8_BTMP
#define G8_BTMP 2
#endif
#ifndef G8_BJUMP
#define G8_BJUMP 2
#endif
#ifndef G8_BNEST
#define G8_BNEST 2
#endif
static int pick8(int lo, int hi) { if (lo == hi) return lo; return pick(lo, hi); }
static bool opt8(int mode) { if (mode == 0) return false; if (mode == 1) return true; return nondet_bool(); }
static bool same_ins(const Instruction &a, const Instruction &b) {
  return (a.op == b.op) & (a.parameters.test.target == b.parameters.test.target) & (a.parameters.test.op1 == b.parameters.test.op1) & (a.parameters.test.op2 == b.parameters.test.op2);
}
static Instruction any_ins(bool jumps) {
  Instruction ins; int op = pick(0, 11);
  if (!jumps) ASSUME(op != (int)OpCode::JMP && op != (int)OpCode::JMPC);
  ins.op = (OpCode)op; ins.parameters.test.target = nondet_int(); ins.parameters.test.op1 = nondet_int(); ins.parameters.test.op2 = nondet_int();
  return ins;
}
// the name dispatchLoop gives the counter of loop number k compiled at m:1 (used for registers of EARLIER loops in the pre-state only;
// the name of the loop under test is never compared with a mirrored text, see hidden_name / has_loop_number)
static std::string earlier_counter(int k) { std::string s("Loop Variable m:1["); s += small_to_string(k); s.__push(']'); return s; }
static bool ident_char(char c) { return (c >= 'a' && c <= 'z') || (c >= 'A' && c <= 'Z') || (c >= '0' && c <= '9') || c == '_'; }
// lexer.l: id = [a-zA-Z_][a-zA-Z0-9_]* - a name with any other character cannot be written in a program
static bool hidden_name(const std::string &s) { bool other = false; for (int i = 0; i < MINISTL_STR_CAP; i++) if (i < s.n && !ident_char(s.b[i])) other = true; return other && !s.trunc; }
static char char_at(const std::string &s, int at) { char r = 0; for (int i = 0; i < MINISTL_STR_CAP; i++) if (i == at) r = s.b[i]; return r; }
// s ends with [k] (decimal): the loop number is part of the name, so two loops never share a counter name
static bool has_loop_number(const std::string &s, int k) {
  std::string suf; suf.__push('['); suf += small_to_string(k); suf.__push(']');
  bool ok = s.n >= suf.n && !s.trunc && !suf.trunc;
  for (int i = 0; i < 6; i++) if (i < suf.n) ok = ok & (char_at(s, s.n - suf.n + i) == suf.b[i]);
  return ok;
}
struct Pre8 { int n0, nl, nt, loops0, nregs; Instruction code[G8_N0]; int lab[G8_NL + 1]; int todo[G8_NT + 1]; int todo_lab[G8_NT + 1]; };
static void sym_regs8(FunctionGenState &f, int loops0) {
  int n = pick8(G8_REGS_LO, G8_REGS); CEX_nregs = n;
  for (int i = 0; i < G8_REGS; i++) {
    VReg r; bool t = nondet_bool(); int nm = pick(0, 3); int k = pick(1, G8_LOOPS > 0 ? G8_LOOPS : 1);
    ASSUME(nm < 3 || k <= loops0);
    std::string v = sel3(VN, nm); if (nm == 3) v = earlier_counter(k);
    r.is_temp = t; r.in_use = t ? nondet_bool() : true; r.name = t ? TEMPS : v;
    f.register_state.u.d[i] = r;
    CEX_reg_temp[i] = t; CEX_reg_used[i] = r.in_use; CEX_reg_name[i] = nm;
  }
  f.register_state.n = n;
}
static void sym_state8(GenState &gs, Pre8 &P) {
  P.n0 = pick8(G8_N0_LO, G8_N0); P.nl = pick8(G8_NL_LO, G8_NL); P.nt = pick8(G8_NT_LO, G8_NT); P.loops0 = pick8(0, G8_LOOPS);
  CEX_g8[0] = P.n0; CEX_g8[1] = P.nl; CEX_g8[2] = P.nt; CEX_g8[3] = P.loops0;
  { Instruction &p = gs.out.code.u.d[0]; p.op = OpCode::PREPARE_EXEC; p.parameters.prepare.count = -1; p.parameters.prepare.index = -1; p.parameters.prepare.target = 0; P.code[0] = p; }
  for (int i = 1; i < G8_N0; i++) { Instruction ins = any_ins(true); gs.out.code.u.d[i] = ins; P.code[i] = ins; }
  gs.out.code.n = P.n0;
  for (int i = 0; i < G8_NL; i++) { int v = nondet_int(); ASSUME(v >= -1 && v <= P.n0); gs.labels.u.d[i] = v; P.lab[i] = v; }
  gs.labels.n = P.nl;
  int prev = 0;
  for (int i = 0; i < G8_NT; i++) {
    int loc = nondet_int();
    Instruction j = P.code[0]; for (int q = 1; q < G8_N0; q++) if (q == loc) j = P.code[q];
    bool ok = loc > prev && loc < P.n0 && (j.op == OpCode::JMP || j.op == OpCode::JMPC) && j.parameters.jmp.offset >= 0 && j.parameters.jmp.offset < P.nl;
    ASSUME(i >= P.nt || ok);
    gs.backpatching_todo.u.d[i] = loc; P.todo[i] = loc; P.todo_lab[i] = j.parameters.jmp.offset; prev = loc;
  }
  gs.backpatching_todo.n = P.nt;
  gs.loops = P.loops0;
  gs.pushSymbols(std::string("r"));
  sym_regs8(gs.getSymbols(), P.loops0);
  ASSUME(inv_reg(gs.getSymbols()));
  P.nregs = (int)gs.getSymbols().register_state.size();
}
// frame condition: what was emitted / pending before is as before
static bool frame8(const GenState &gs, const Pre8 &P, bool todo_too) {
  bool ok = (int)gs.out.code.size() >= P.n0 && (int)gs.labels.size() >= P.nl;
  for (int i = 0; i < G8_N0; i++) if (i < P.n0) ok = ok & same_ins(gs.out.code.u.d[i], P.code[i]);
  for (int i = 0; i < G8_NL; i++) if (i < P.nl) ok = ok & (gs.labels.u.d[i] == P.lab[i]);
  if (todo_too) { ok = ok & ((int)gs.backpatching_todo.size() >= P.nt); for (int i = 0; i < G8_NT; i++) if (i < P.nt) ok = ok & (gs.backpatching_todo.u.d[i] == P.todo[i]); }
  return ok;
}
static int label_at(const GenState &gs, int l) { int r = -2; for (int i = 0; i < GR_INT; i++) if (i == l && i < (int)gs.labels.size()) r = gs.labels.u.d[i]; return r; }
static int todo_at(const GenState &gs, int k) { int r = -2; for (int i = 0; i < GR_INT; i++) if (i == k && i < (int)gs.backpatching_todo.size()) r = gs.backpatching_todo.u.d[i]; return r; }

static struct Ctx8 {
  int vcalls, bcalls; Node *vnode, *bnode;
  int vtgt, vpos, vend, vlabels, vregs; bool v_in, v_temp, v_live;           // value stub: what it was asked, where, state of the target register
  int bpos, bend, blabels, btodo, blabels_end, btodo_end, bloops;            // body stub: where it ran, what it added
  bool g_in, g_temp, g_live, g_named, b_clash, b_tmp;                        // state of the guarded register (counter / condition) while the body runs
  FunctionGenState regs_end;                                                 // register file when the body returned
  int nerr;                                                                  // diagnostics recorded (stub_err8)
} X;
// GenState::err() as seen from the code under test (job option stubs): the diagnostic is counted, its text and gs.errors are not
// modelled (no obligation of this part reads them; building three texts per listed jump dominated the query of backpatch() otherwise)
extern "C" void stub_err8(GenState *gs, ET t, std::string msg) { X.nerr++; }
extern "C" void stub_value8(GenState &gs, Node *c, RegisterIndex tgt) {
  FunctionGenState &f = gs.getSymbols();
  if (X.vcalls == 0) {
    X.vnode = c; X.vtgt = tgt; X.vpos = gs.getNextPos(); X.vlabels = (int)gs.labels.size(); X.vregs = (int)f.register_state.size();
    bool in = tgt >= 0 && tgt < X.vregs; VReg g = reg_at(f, tgt);
    X.v_in = in; X.v_temp = in && g.is_temp; X.v_live = in && g.in_use;
  }
  X.vcalls++;
  bool decl = opt8(G8_VDECL); int nm = pick(0, 2); CEX_g8[4] = decl;
  if (decl) f.fetchVariableRegister(sel3(VN, nm));            // first use of a variable inside the expression
  int k = pick8(G8_KV_LO, G8_KV); CEX_g8[5] = k;
  if (k >= 1) gs.emit(any_ins(false));
  if (k >= 2) gs.emit(any_ins(false));
  X.vend = gs.getNextPos();
}
extern "C" void stub_body8(GenState &gs, Node *c) {
  FunctionGenState &f = gs.getSymbols();
  if (X.bcalls == 0) { X.bnode = c; X.bpos = gs.getNextPos(); X.blabels = (int)gs.labels.size(); X.btodo = (int)gs.backpatching_todo.size(); }
  X.bcalls++;
  int guard = X.vtgt;
  { int nr = (int)f.register_state.size(); bool in = guard >= 0 && guard < nr; VReg g = reg_at(f, guard);
    X.g_in = in; X.g_temp = in && g.is_temp; X.g_live = in && g.in_use; X.g_named = in && hidden_name(g.name); }
  bool tmp = opt8(G8_BTMP); int t = -1; CEX_g8[6] = tmp;
  if (tmp) { t = f.fetchTemporary(); X.b_clash = X.b_clash || t == guard; }
  X.b_tmp = tmp;
  int nested = opt8(G8_BNEST) ? 1 : 0; gs.loops += nested;
  int k = pick8(G8_KB_LO, G8_KB); CEX_g8[7] = k;
  if (k >= 1) gs.emit(any_ins(false));
  bool jump = opt8(G8_BJUMP); CEX_g8[8] = jump;
  if (jump) {
    bool fresh = nondet_bool(); int l = pick(0, GR_INT - 1); CEX_g8[9] = fresh;
    if (fresh) l = gs.createLabel(); else ASSUME(l < (int)gs.labels.size());
    Instruction j = nondet_bool() ? Instruction::JmpC(l, nondet_int()) : Instruction::Jmp(l);
    gs.emitBackpatched(j);
    if (fresh && nondet_bool()) gs.setLabel(l, pick(0, GR_CODE));
  }
  if (k >= 2) gs.emit(any_ins(false));
  if (tmp) f.releaseTemporary(t);
  X.bend = gs.getNextPos(); X.blabels_end = (int)gs.labels.size(); X.btodo_end = (int)gs.backpatching_todo.size(); X.bloops = gs.loops;
  X.regs_end = f;
}
static void reset8() {
  X.nerr = 0; X.vcalls = X.bcalls = 0; X.vnode = X.bnode = NULL; X.vtgt = -1; X.vpos = X.vend = X.vlabels = X.vregs = -1; X.v_in = X.v_temp = X.v_live = false;
  X.bpos = X.bend = X.blabels = X.btodo = X.blabels_end = X.btodo_end = X.bloops = -1; X.g_in = X.g_temp = X.g_live = X.g_named = X.b_clash = X.b_tmp = false;
}
// W = 0: LOOP bound DO body END through the real dispatchLoop;  W = 1: WHILE cond != 0 DO body END through the real dispatchWhile
template <int W> static void loop_case() {
  GenState gs = fresh_state();
  Pre8 P; sym_state8(gs, P);
  FunctionGenState pre = gs.getSymbols();
  Node bound, body, lp;
  mknode(bound, Node::Type::NAME, std::string("x"), NULL, NULL); mknode(body, Node::Type::STOP, std::string(), NULL, NULL);
  mknode(lp, W ? Node::Type::WHILE : Node::Type::LOOP, std::string(), &bound, &body);
  reset8();

  if (W) dispatchWhile(gs, &lp); else dispatchLoop(gs, &lp);

  FunctionGenState &f = gs.getSymbols();
  const int n = (int)gs.out.code.size(), nregs = (int)f.register_state.size();
  const int reg = X.vtgt;                  // the counter (LOOP) / condition (WHILE) register: the one the value was to be computed into
  const int head = X.vend;                 // position right after the value code
  const int tail = W ? 1 : 2;              // instructions after the body: [ADD] JMP
  ASSERT(X.vcalls == 1 && X.vnode == &bound, "C01: the bound / condition is compiled exactly once, from the left child of the node");
  ASSERT(X.bcalls == 1 && X.bnode == &body, "C01: the body (right child) is handed to the traversal exactly once");
  ASSERT(gs.errors.size() == 0 && gs.symbols.size() == 1, "C01: compiling LOOP / WHILE itself records no error and leaves the symbol table stack alone");
  ASSERT(X.vpos == P.n0 && X.bpos == head + 1 && n == X.bend + tail, "C01: nothing is emitted besides value code, one conditional jump, body code, the decrement (LOOP) and one back jump, in this order");
  Instruction jc = code_at(gs, head), dec = code_at(gs, n - 2), jm = code_at(gs, n - 1);
  ASSERT(jc.op == OpCode::JMPC && jc.parameters.jmpc.source == reg, "C01: right after the value code a JMPC tests the register the value was computed into");
  ASSERT(jm.op == OpCode::JMP, "C01: the construct ends with an unconditional back jump");
  if (!W) ASSERT(dec.op == OpCode::ADD_CONST && dec.parameters.add.target == reg && dec.parameters.add.source == reg && dec.parameters.add.constant == -1,
                 "C01: after the body, right before the back jump, the counter is decremented by one (ADD counter, counter, -1)");
  ASSERT(reg >= 0 && reg < X.vregs && reg < nregs, "C03: the counter / condition register is an index below the size of the register file, already when the value is compiled");
  // labels and the list of jumps to patch
  const int el = jc.parameters.jmpc.offset, sl = jm.parameters.jmp.offset;
  ASSERT(X.blabels == P.nl + 2 && (int)gs.labels.size() == X.blabels_end && el >= P.nl && el < P.nl + 2 && sl >= P.nl && sl < P.nl + 2 && el != sl,
         "C03: exactly two fresh labels are created, one carried by the exit jump and the other by the back jump");
  const int start_pos = W ? X.vpos : head;
  if (W) ASSERT(label_at(gs, sl) == start_pos, "C01: the label of the back jump is set to the position BEFORE the code of the condition: the condition is evaluated again on every iteration");
  else ASSERT(label_at(gs, sl) == start_pos, "C01: the label of the back jump is set to the position of the test of the counter, AFTER the code of the bound: the bound is evaluated once");
  ASSERT(label_at(gs, el) == n, "C01: the label of the exit jump is set to the position right after the back jump");
  ASSERT(X.btodo == P.nt + 1 && (int)gs.backpatching_todo.size() == X.btodo_end + 1 && todo_at(gs, P.nt) == head && todo_at(gs, X.btodo_end) == n - 1,
         "C03: the exit jump and the back jump are entered in backpatching_todo (around whatever the body entered), nothing else is");
  ASSERT(frame8(gs, P, true), "C01: code emitted before, existing labels and pending backpatch entries are untouched");
  ASSERT(nregs >= P.nregs && regs_kept(pre, f, P.nregs, -1), "C03: the register file never shrinks and no register that existed before changes");
  ASSERT(inv_reg(f), "C03: Inv_reg preserved by compiling LOOP / WHILE");
  VReg r = reg_at(f, reg);
  if (!W) {
    ASSERT(gs.loops >= P.loops0 + 1 && gs.loops == X.bloops && X.bloops - P.loops0 <= 2, "C16: every LOOP takes a new loop number (gs.loops is incremented before the body is compiled, never reset)");
    ASSERT(!r.is_temp && r.in_use && hidden_name(r.name) && has_loop_number(r.name, P.loops0 + 1),
           "C16: the LOOP counter is a variable register whose name cannot be spelled as an identifier and contains the loop number");
    ASSERT(reg >= P.nregs, "C16: the LOOP counter is a register of its own: no register that existed before the loop (variable, counter of an earlier loop, temporary)");
    ASSERT(X.g_in && !X.g_temp && X.g_live && X.g_named, "C16: while the body is compiled the counter is a live variable register under its hidden name");
    ASSERT(!X.b_clash, "C16: a temporary fetched inside the body is never the counter register");
    ASSERT(!X.v_temp && X.v_live, "C16: the counter is a variable register already when the bound is evaluated into it");
    FunctionGenState f2 = f; int t2 = f2.fetchTemporary();
    ASSERT(t2 != reg, "C16: after the loop fetchTemporary() never returns the counter register (the counter of a finished loop is not recycled either)");
  } else {
    ASSERT(gs.loops == X.bloops, "C01: WHILE takes no loop number");
    ASSERT(X.v_in && X.v_temp && X.v_live, "C01: the condition is evaluated into a temporary that is in use");
    ASSERT(X.g_in && X.g_temp && X.g_live && !X.b_clash, "C01: the condition register stays in use while the body is compiled: a temporary fetched inside the body is a different register");
    ASSERT(r.is_temp && !r.in_use, "C01: the condition register is released after the loop");
    ASSERT(nregs == (int)X.regs_end.register_state.size() && regs_kept(X.regs_end, f, nregs, reg), "C01: nothing but the condition register is released or changed after the body");
  }
  // the real backpatch(): where the two jumps land
  gs.backpatch();
  Instruction jc2 = code_at(gs, head), jm2 = code_at(gs, n - 1);
  ASSERT(gs.backpatching_todo.size() == 0 && jc2.op == OpCode::JMPC && jm2.op == OpCode::JMP && jc2.parameters.jmpc.source == reg, "C01: backpatch() patches offsets only and empties the list");
  ASSERT(head + jc2.parameters.jmpc.offset == n, "C01: after backpatch() the conditional jump leaves the loop to exactly the position after the back jump");
  if (W) ASSERT((n - 1) + jm2.parameters.jmp.offset == start_pos, "C01: after backpatch() the back jump lands on the first instruction of the condition code (the conditional jump if the condition emits none)");
  else ASSERT((n - 1) + jm2.parameters.jmp.offset == start_pos, "C01: after backpatch() the back jump lands exactly on the conditional jump that tests the counter");
  ASSERT(head + jc2.parameters.jmpc.offset >= 0 && head + jc2.parameters.jmpc.offset <= n && (n - 1) + jm2.parameters.jmp.offset >= P.n0 && (n - 1) + jm2.parameters.jmp.offset < n,
         "C03: both jump targets lie inside the code of the construct or right behind it");
  bool older = true;
  for (int i = 0; i < G8_NT; i++) if (i < P.nt) {
    Instruction o = code_at(gs, P.todo[i]); int lv = P.lab[0]; for (int q = 1; q < G8_NL; q++) if (q == P.todo_lab[i]) lv = P.lab[q];
    older = older & (o.parameters.jmp.offset == lv - P.todo[i]);
  }
  ASSERT(older, "C01: jumps that were pending before the loop still resolve to the label positions recorded before it");
  ASSERT(X.vend - X.vpos != 2 || X.bend - X.bpos != 3 || P.nt != G8_NT || P.nl != G8_NL || P.n0 != G8_N0, "C01(EXISTS): all counts at their upper bounds");
  ASSERT(P.nregs != 0 || P.n0 != 1, "C01(EXISTS): the construct as the first statement of a routine");
}
extern "C" void h_loop() { loop_case<0>(); ASSERT(0, "WITNESS: end of h_loop reachable"); }
extern "C" void h_while() { loop_case<1>(); ASSERT(0, "WITNESS: end of h_while reachable"); }

// x := y (FROM_NAME) / x := <literal of 1..3 digits> through the real dispatchAssign and the real dispatchValue
template <int FROM_NAME> static void assign_case() {
  GenState gs = fresh_state();
  Pre8 P; sym_state8(gs, P);
  FunctionGenState pre = gs.getSymbols();
  int xi = pick(0, 2), yi = pick(0, 2), nd = pick(1, 3), d0 = pick(0, 9), d1 = pick(0, 9), d2 = pick(0, 9);
  CEX_g8[4] = xi; CEX_g8[5] = yi; CEX_g8[6] = nd; CEX_g8[7] = d0; CEX_g8[8] = d1; CEX_g8[9] = d2;
  std::string lit; lit.__push((char)('0' + d0)); if (nd >= 2) lit.__push((char)('0' + d1)); if (nd >= 3) lit.__push((char)('0' + d2));
  int value = d0; if (nd >= 2) value = value * 10 + d1; if (nd >= 3) value = value * 10 + d2;
  std::string xs = sel3(VN, xi), ys = sel3(VN, yi);
  Node x, y, as;
  mknode(x, Node::Type::NAME, xs, NULL, NULL);
  if (FROM_NAME) mknode(y, Node::Type::NAME, ys, NULL, NULL); else mknode(y, Node::Type::NUMBER, lit, NULL, NULL);
  mknode(as, Node::Type::ASSIGN, std::string(), &x, &y);

  dispatchAssign(gs, &as);

  FunctionGenState &f = gs.getSymbols();
  const int n = (int)gs.out.code.size(), nregs = (int)f.register_state.size();
  int kx = first_named(pre, xs), ky = first_named(pre, ys);
  int rx = kx >= 0 ? kx : P.nregs;
  int added = kx >= 0 ? 0 : 1;
  int ry = -1;
  if (FROM_NAME) { if (ky >= 0) ry = ky; else if (yi == xi) ry = rx; else { ry = P.nregs + added; added++; } }
  ASSERT(n == P.n0 + 1 && gs.errors.size() == 0, "C01: an assignment of a variable or a literal emits exactly one instruction and records no error");
  Instruction ins = code_at(gs, P.n0);
  if (FROM_NAME) ASSERT(ins.op == OpCode::ADD_CONST && ins.parameters.add.target == rx && ins.parameters.add.source == ry && ins.parameters.add.constant == 0, "C01: x := y is ADD(register of x, register of y, 0)");
  else ASSERT(ins.op == OpCode::CONST && ins.parameters.constant.target == rx && ins.parameters.constant.constant == value, "C01: x := c is CONST(register of x, value of the literal)");
  ASSERT(nregs == P.nregs + added && regs_kept(pre, f, P.nregs, -1), "C01: registers are added for exactly the variables that had none, at the end of the register file; existing registers are unchanged");
  VReg vx = reg_at(f, rx);
  ASSERT(rx < nregs && !vx.is_temp && vx.in_use && vx.name == xs, "C01: the target is the variable register bound to the name x (allocated as a variable register if x is new)");
  if (FROM_NAME) {
    VReg vy = reg_at(f, ry);
    ASSERT(ry >= 0 && ry < nregs && !vy.is_temp && vy.in_use && vy.name == ys, "C01: the source is the variable register bound to the name y; an undeclared y gets a variable register of its own, never a temporary");
    ASSERT(ky >= 0 || yi == xi || (ry >= P.nregs && ry != rx), "C01: the register of an undeclared y is fresh (the VM zeroes the frame, so it reads 0) and differs from the register of x");
  }
  ASSERT(ins.parameters.add.target >= 0 && ins.parameters.add.target < nregs && (!FROM_NAME || (ins.parameters.add.source >= 0 && ins.parameters.add.source < nregs)), "C03: the register operands of the emitted instruction are below the size of the register file");
  ASSERT(frame8(gs, P, true) && (int)gs.labels.size() == P.nl && (int)gs.backpatching_todo.size() == P.nt && gs.loops == P.loops0 && gs.symbols.size() == 1,
         "C01: an assignment leaves earlier code, labels, pending jumps and the loop count untouched");
  ASSERT(inv_reg(f), "C03: Inv_reg preserved by compiling an assignment");
  if (FROM_NAME) ASSERT(!(kx < 0 && ky < 0 && yi != xi), "C01(EXISTS): an assignment in which both names are new");
}
extern "C" void h_assign() { if (nondet_bool()) assign_case<1>(); else assign_case<0>(); ASSERT(0, "WITNESS: end of h_assign reachable"); }
#endif
