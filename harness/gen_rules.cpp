// C04 (static rules), C03 (generator emits well-formed call sequences / jumps / register indices), C16 (no recursion) and C02
// (generator is total on the tree shapes of the parser), decided on the REAL functions of /repo/Compiler/src/gen.cpp:
// GenState::popSymbols/backpatch/createLabel/setLabel/emitBackpatched, FunctionGenState::fetchTemporary/releaseTemporary/
// fetchVariableRegister, dispatchValue (CALL), dispatchCallArgs, dispatchArgs, dispatchProgram, dispatchGoto/If/Mark/Loop/While/
// Assign/Void, gen_ast, Theo::gen.  Nothing of the generator is re-implemented here: the harness builds small node structures
// exactly as parse.cpp builds them (on its stack), with SYMBOLIC names and counts, runs the real code and compares the result
// with the rule written as a predicate over the harness' own choice variables.
//
//  h_regs_step / h_regs_seq   one register operation from an arbitrary register file (layer A) / hygiene over two operations
//  h_call                     dispatchValue(CALL) against a symbolic funcAddrs table: rules of C04, call-sequence shape of C03, C16
//  h_program                  dispatchProgram with the body (dispatchVoid) replaced by an observing contract stub: C16, C03
//  h_labels                   two routines of symbolic GOTO / IF / MARK statements + popSymbols + backpatch: C04 unknown label, C03 jumps
//  h_shape_<k>, h_parse_errors  gen() on the tree shapes of error-free parses / on a failed parse: C02
// One part of the file is compiled per build (-DGR_PART=1..5: registers, call, program, labels, shapes), each with its own capacities.
// Written against the container model only (job option native=False).  Assertion texts contain no double quotes.
#include "Compiler/src/gen.cpp"

extern "C" { int nondet_int(); }
static inline bool nondet_bool() { return (nondet_int() & 1) != 0; }
#define ASSUME(c) __CPROVER_assume(c)
#define ASSERT(c, msg) __CPROVER_assert(c, msg)
typedef CodegenResult::Error::Type ET;

// ---- counterexample read-out
extern "C" {
int CEX_op, CEX_idx, CEX_name, CEX_nregs, CEX_reg_temp[GR_REGS], CEX_reg_used[GR_REGS], CEX_reg_name[GR_REGS], CEX_ret;
int CEX_nf, CEX_first_g, CEX_callee, CEX_nargs, CEX_arg_kind[2], CEX_arg_name[2], CEX_argnum[2], CEX_stack[2], CEX_ind[2], CEX_mi[2], CEX_tgt, CEX_n0;
int CEX_rname, CEX_nparams, CEX_param[2], CEX_has_ports, CEX_has_out, CEX_out, CEX_body_k, CEX_body_var, CEX_body_tmp;
int CEX_kind[8], CEX_lab[8];
int CEX_shape;
}

// one-character names chosen by symbolic index.  The strings are built once (init_names) and copied afterwards (a copy is
// one struct assignment in the container model).  f < g < h, a < b < c, l < m: all insertion positions of the maps occur.
static const char *const TEMP = "Temporary Variable";
static std::string FN[3], VN[3], LN[2], TEMPS, MFILE;
static void init_names() {
  FN[0] = std::string("f"); FN[1] = std::string("g"); FN[2] = std::string("h");
  VN[0] = std::string("a"); VN[1] = std::string("b"); VN[2] = std::string("c");
  LN[0] = std::string("l"); LN[1] = std::string("m");
  TEMPS = std::string(TEMP); MFILE = std::string("m");
}
static std::string sel3(const std::string *t, int i) { std::string r = t[0]; if (i == 1) r = t[1]; if (i == 2) r = t[2]; return r; }
static std::string sel2(const std::string *t, int i) { std::string r = t[0]; if (i == 1) r = t[1]; return r; }
// environment model of strtol for the literals of the harness (decimal digit strings of at most 3 characters; the conversion of
// literals is the subject of C20): Horner evaluation, no division
extern "C" long gr_strtol(const char *s, char **end, int base) {
  long v = 0; bool live = true;
  for (int i = 0; i < 3; i++) { char c = s[live ? i : 0]; if (live && !(c >= '0' && c <= '9')) live = false; if (live) v = (v << 3) + (v << 1) + (long)(c - '0'); }
  return v;
}
// environment model of std::to_string for the diagnostics and loop-counter names the generator builds: exact for 0..999 without
// division (the 20 divisions by ten of the generic model dominate the SAT instance otherwise); any other value yields a string that is
// flagged as truncated, so that comparing it is a model-bound failure and never influences a verdict silently
static std::string small_to_string(long v) {
  std::string r;
  if (v < 0 || v > 999) { r.__push('?'); r.trunc = 1; return r; }
  int h = 0, t = 0; long w = v;
  for (int k = 0; k < 9; k++) if (w >= 100) { w -= 100; h++; }
  for (int k = 0; k < 9; k++) if (w >= 10) { w -= 10; t++; }
  if (h > 0) r.__push((char)('0' + h));
  if (h > 0 || t > 0) r.__push((char)('0' + t));
  r.__push((char)('0' + w));
  return r;
}
extern "C" std::string gr_to_string_i(int v) { return small_to_string(v); }
extern "C" std::string gr_to_string_m(unsigned long v) { return small_to_string(v > 999 ? 1000 : (long)v); }
static int pick(int lo, int hi) { int v = nondet_int(); ASSUME(v >= lo && v <= hi); return v; }

static GenState fresh_state() {
  init_names();
  GenState gs = {.in = {}, .out = {.code = {}, .stack_maps = {}, .potential_breaks = {}, .line_info = {}}, .errors = {}, .symbols = {},
                 .funcAddrs = {}, .labels = {}, .backpatching_todo = {}, .fs = {.name = "m", .line = 1}};
  return gs;
}
// all nodes of the harness carry the current position of the generator (file m, line 1): advanceLine() emits no site, so the
// emitted code consists of the instructions of the construct under test only (breakpoint sites are the subject of C08)
// (nodes are filled in place, field by field: kind and child pointers then stay constants for the symbolic execution, which is
// what ends the recursion of the traversal on a concrete tree)
static void mknode(Node &n, Node::Type t, const std::string &tok, Node *l, Node *r) {
  std::string m; m.__push('m');    // (built locally: a copy from a global string is a byte-wise memcpy in the generated C, which would blur the whole node)
  n.t = t; n.tok = tok; n.file = m; n.line = 1; n.left = l; n.right = r;
}
static bool same_instr(const Instruction &a, const Instruction &b) {
  return (a.op == b.op) & (a.parameters.test.target == b.parameters.test.target) & (a.parameters.test.op1 == b.parameters.test.op1) & (a.parameters.test.op2 == b.parameters.test.op2);
}
static Instruction code_at(const GenState &gs, int at) { Instruction r = gs.out.code.u.d[0]; for (int i = 1; i < GR_CODE; i++) if (i == at) r = gs.out.code.u.d[i]; return r; }
static int count_err(const GenState &gs, ET t) { int c = 0; for (int i = 0; i < MINISTL_VEC_CAP; i++) if (i < (int)gs.errors.size() && gs.errors.u.d[i].t == t) c++; return c; }

// =========================================================================================================
// 4. registers.  Inv_reg(register file): a temporary carries the name TEMP; a variable register is in use for ever, is not a
// temporary and carries a name other than TEMP (identifiers and loop counters cannot be spelled like TEMP).  Established by
// dispatchArgs / fetchVariableRegister / fetchTemporary (asserted below), so it holds after generator runs of any length.
static void sym_regs(FunctionGenState &f, int maxn) {
  int n = pick(0, maxn); CEX_nregs = n;
  for (int i = 0; i < GR_REGS; i++) {
    VReg r; bool t = nondet_bool(); int nm = pick(0, 2);
    r.is_temp = t; r.in_use = t ? nondet_bool() : true; r.name = t ? TEMPS : sel3(VN, nm);
    f.register_state.u.d[i] = r;
    CEX_reg_temp[i] = t; CEX_reg_used[i] = r.in_use; CEX_reg_name[i] = nm;
  }
  f.register_state.n = n;
}
static bool inv_reg(const FunctionGenState &f) {
  bool ok = true;
  for (int i = 0; i < GR_REGS; i++) if (i < (int)f.register_state.size()) {
    const VReg &r = f.register_state.u.d[i];
    bool tn = r.name == TEMPS;
    ok = ok & (r.is_temp ? tn : (r.in_use & !tn));
  }
  return ok;
}
static bool same_reg(const VReg &a, const VReg &b) { return (a.in_use == b.in_use) & (a.is_temp == b.is_temp) & (a.name == b.name); }
// registers [0, m) of g equal those of f, except register `but`
static bool regs_kept(const FunctionGenState &f, const FunctionGenState &g, int m, int but) {
  bool ok = true;
  for (int i = 0; i < GR_REGS; i++) if (i < m && i != but) ok = ok & same_reg(f.register_state.u.d[i], g.register_state.u.d[i]);
  return ok;
}
static int first_named(const FunctionGenState &f, const std::string &v) {
  int r = -1;
  for (int i = GR_REGS - 1; i >= 0; i--) if (i < (int)f.register_state.size() && f.register_state.u.d[i].name == v) r = i;
  return r;
}
static VReg reg_at(const FunctionGenState &f, int at) { VReg r = f.register_state.u.d[0]; for (int i = 1; i < GR_REGS; i++) if (i == at) r = f.register_state.u.d[i]; return r; }

#if GR_PART == 1
#define REG_PRE (GR_REGS - 2)    /* registers of the pre-state; an operation adds at most one, h_regs_seq at most four */
extern "C" void h_regs_step() {
  init_names();
  FunctionGenState f; f.name = FN[0];
  sym_regs(f, REG_PRE);
  ASSUME(inv_reg(f));
  FunctionGenState pre = f;
  int n = (int)pre.register_state.size();
  int op = pick(0, 2); CEX_op = op;
  if (op == 0) {
    int free_temp = -1;
    for (int i = GR_REGS - 1; i >= 0; i--) if (i < n && pre.register_state.u.d[i].is_temp && !pre.register_state.u.d[i].in_use) free_temp = i;
    int r = f.fetchTemporary(); CEX_ret = r;
    int n2 = (int)f.register_state.size();
    ASSERT(r >= 0 && r < n2, "C03: fetchTemporary() returns a register index below the size of the register file");
    ASSERT(n2 >= n && n2 <= n + 1, "C03: fetchTemporary() never shrinks the register file and adds at most one register");
    VReg got = reg_at(f, r);
    ASSERT(got.is_temp && got.in_use, "C03: the register handed out by fetchTemporary() is a temporary and is marked in use");
    bool was_busy = r < n && reg_at(pre, r).in_use;
    ASSERT(!was_busy, "C03: fetchTemporary() never hands out a register that is in use (neither a live temporary nor a variable)");
    ASSERT(r >= n || reg_at(pre, r).is_temp, "C03: fetchTemporary() never turns a variable register into a temporary");
    ASSERT(free_temp >= 0 ? (r == free_temp && n2 == n) : (r == n && n2 == n + 1), "C03: fetchTemporary() reuses the first free temporary, else appends one");
    ASSERT(regs_kept(pre, f, n, r), "C03: fetchTemporary() leaves every other register unchanged");
  } else if (op == 1) {
    int idx = pick(0, REG_PRE - 1); ASSUME(idx < n); CEX_idx = idx;
    VReg old = reg_at(pre, idx);
    f.releaseTemporary(idx);
    ASSERT((int)f.register_state.size() == n, "C03: releaseTemporary() keeps the size of the register file");
    VReg now = reg_at(f, idx);
    ASSERT(now.is_temp == old.is_temp && now.name == old.name && now.in_use == (old.is_temp ? false : old.in_use),
           "C03: releaseTemporary() frees a temporary and leaves a variable register untouched (names are never treated as temporaries)");
    ASSERT(regs_kept(pre, f, n, idx), "C03: releaseTemporary() leaves every other register unchanged");
  } else {
    int nm = pick(0, 2); CEX_name = nm;
    std::string v = sel3(VN, nm);
    int known = first_named(pre, v);
    int r = f.fetchVariableRegister(v); CEX_ret = r;
    int n2 = (int)f.register_state.size();
    ASSERT(r >= 0 && r < n2, "C03: fetchVariableRegister() returns a register index below the size of the register file");
    ASSERT(n2 >= n && n2 <= n + 1, "C03: fetchVariableRegister() never shrinks the register file and adds at most one register");
    VReg got = reg_at(f, r);
    ASSERT(!got.is_temp && got.in_use && got.name == v, "C03: the register of a variable carries its name, is not a temporary and is in use");
    ASSERT(known >= 0 ? (r == known && n2 == n) : (r == n && n2 == n + 1), "C03: a known variable name gets its (first) register again, a new name gets a new register at the end");
    ASSERT(regs_kept(pre, f, n, -1), "C03: fetchVariableRegister() leaves every existing register unchanged");
  }
  // frame of the induction: the register of every name is stable, the invariant is kept
  bool stable = true;
  for (int k = 0; k < 3; k++) { int b = first_named(pre, VN[k]); if (b >= 0) stable = stable & (first_named(f, VN[k]) == b); }
  ASSERT(stable, "C03: no register operation changes the register a variable name is bound to");
  ASSERT(inv_reg(f), "C03: Inv_reg preserved by the register operation (temporaries and variables stay apart)");
  ASSERT(0, "WITNESS: end of h_regs_step reachable");
}

// two fetches around an arbitrary operation: the same variable gets the same register, a live temporary is not handed out twice
extern "C" void h_regs_seq() {
  init_names();
  FunctionGenState f; f.name = FN[0];
  sym_regs(f, REG_PRE - 2);
  ASSUME(inv_reg(f));
  int nm = pick(0, 2); CEX_name = nm;
  std::string v = sel3(VN, nm);
  int v1 = f.fetchVariableRegister(v);
  int t1 = f.fetchTemporary();
  int op = pick(0, 3); CEX_op = op;
  bool released_t1 = false;
  if (op == 0) { (void)f.fetchTemporary(); }
  else if (op == 1) { int idx = pick(0, REG_PRE); ASSUME(idx < (int)f.register_state.size()); CEX_idx = idx; f.releaseTemporary(idx); released_t1 = idx == t1; }
  else if (op == 2) { (void)f.fetchVariableRegister(sel3(VN, pick(0, 2))); }
  int v2 = f.fetchVariableRegister(v);
  int t2 = f.fetchTemporary();
  ASSERT(v1 == v2, "C03: a variable name gets the same register every time");
  ASSERT(released_t1 || t2 != t1, "C03: a temporary in use is not handed out again until it is released");
  ASSERT(t1 != v1 && t2 != v2, "C03: a variable register is never handed out as a temporary");
  ASSERT(t2 < (int)f.register_state.size() && v2 < (int)f.register_state.size(), "C03: register indices stay below the size of the register file");
  ASSERT(0, "WITNESS: end of h_regs_seq reachable");
}

#endif
// =========================================================================================================
// symbolic table of closed definitions: 0..2 entries with names from {f, g}; Prog{ind, mi, argnum in 0..2, stack_size >= argnum}
struct FA { int nf; bool first_g; Prog p[2]; bool has[3]; Prog of[3]; };
static void sym_funcs(GenState &gs, FA &fa, int code_size) {
  fa.nf = pick(0, 2); fa.first_g = nondet_bool(); CEX_nf = fa.nf; CEX_first_g = fa.first_g;
  for (int k = 0; k < 2; k++) {
    Prog p; p.ind = nondet_int(); p.mi = nondet_int(); p.argnum = pick(0, 2); p.stack_size = nondet_int(); ASSUME(p.stack_size >= p.argnum);
    // Inv_fa: a recorded entry is the start of a routine that is already closed, i.e. 1 <= ind <= index of its RET < code size
    ASSUME(p.ind >= 1 && p.ind < code_size);
    fa.p[k] = p; CEX_ind[k] = p.ind; CEX_mi[k] = p.mi; CEX_argnum[k] = p.argnum; CEX_stack[k] = p.stack_size;
  }
  bool one_g = fa.nf == 1 && fa.first_g;
  gs.funcAddrs.u.d[0].first = one_g ? FN[1] : FN[0]; gs.funcAddrs.u.d[0].second = fa.p[0];
  gs.funcAddrs.u.d[1].first = FN[1]; gs.funcAddrs.u.d[1].second = fa.p[1];
  gs.funcAddrs.n = fa.nf;
  fa.has[0] = fa.nf == 2 || (fa.nf == 1 && !fa.first_g); fa.of[0] = fa.p[0];
  fa.has[1] = fa.nf == 2 || one_g; fa.of[1] = fa.nf == 2 ? fa.p[1] : fa.p[0];
  fa.has[2] = false; fa.of[2] = fa.p[0];
}
static bool same_prog(const Prog &a, const Prog &b) { return (a.ind == b.ind) & (a.mi == b.mi) & (a.argnum == b.argnum) & (a.stack_size == b.stack_size); }
// the table holds exactly the entries of fa (slot by slot: the representation is canonical, slots sorted by key)
static bool funcs_same(const GenState &gs, const FA &fa) {
  bool ok = (int)gs.funcAddrs.size() == fa.nf;
  bool one_g = fa.nf == 1 && fa.first_g;
  if (fa.nf >= 1) ok = ok && gs.funcAddrs.u.d[0].first == (one_g ? FN[1] : FN[0]) && same_prog(gs.funcAddrs.u.d[0].second, fa.p[0]);
  if (fa.nf >= 2) ok = ok && gs.funcAddrs.u.d[1].first == FN[1] && same_prog(gs.funcAddrs.u.d[1].second, fa.p[1]);
  return ok;
}
// code emitted so far: n0 instructions, the first one the root PREPARE, the others arbitrary.  The LENGTH is a constant of the
// entry: with a symbolic length every emit() writes at a symbolic offset into the GenState object, which CBMC encodes as a
// byte-wise update of the whole object (the dominating cost of these queries); nothing in the generator depends on the
// absolute position.
static int sym_code(GenState &gs, int n0) {
  CEX_n0 = n0;
  gs.emit(Instruction::PrepareExec(-1, -1, 0));
  for (int i = 1; i < GR_CODE; i++) if (i < n0) {
    Instruction ins; ins.op = (OpCode)pick(0, 11);
    ins.parameters.test.target = nondet_int(); ins.parameters.test.op1 = nondet_int(); ins.parameters.test.op2 = nondet_int();
    gs.emit(ins);
  }
  return n0;
}

// =========================================================================================================
// 1. dispatchValue(CALL): RUN <callee> WITH <NA arguments> END inside an open routine.  The number of arguments and their kinds
// (K = 1: NAME, K = 0: NUMBER) are fixed per entry (the node kinds steer the recursion of the traversal, a symbolic kind would make
// the symbolic execution clone the recursion up to the unwinding bound); names, literal digits, the table of definitions, the
// register file, the code emitted so far and the result register are symbolic.
#if GR_PART == 2
static void sym_arg(Node &n, bool is_name, int k) {
  int nm = pick(0, 2); int digit = pick(0, 9);
  std::string lit; lit.__push((char)('0' + digit));
  if (is_name) mknode(n, Node::Type::NAME, sel3(VN, nm), NULL, NULL); else mknode(n, Node::Type::NUMBER, lit, NULL, NULL);
  CEX_arg_kind[k] = is_name; CEX_arg_name[k] = is_name ? nm : digit;
}
template <int NA, int K0, int K1> static void call_case() {
  GenState gs = fresh_state();
  int n0 = sym_code(gs, 3);
  FA fa; sym_funcs(gs, fa, n0);
  gs.pushSymbols(std::string("r"));
  sym_regs(gs.getSymbols(), 2);
  ASSUME(inv_reg(gs.getSymbols()));
  int callee = pick(0, 2); const int na = NA; CEX_callee = callee; CEX_nargs = na;
  Node a0, a1;     // (separate objects, filled without a loop: an array of nodes indexed by a loop counter is not resolved by the symbolic execution)
  sym_arg(a0, K0 == 1, 0); sym_arg(a1, K1 == 1, 1);
  // VARGS / MVARGS of parse.cpp: SPLIT(arg1, SPLIT(arg2, NULL)), NULL for an empty list
  Node s2, s1, nm, call;
  mknode(s2, Node::Type::SPLIT, std::string(), &a1, NULL);
  mknode(s1, Node::Type::SPLIT, std::string(), &a0, NA == 2 ? &s2 : NULL);
  mknode(nm, Node::Type::NAME, sel3(FN, callee), NULL, NULL);
  mknode(call, Node::Type::CALL, std::string(), &nm, NA >= 1 ? &s1 : NULL);
  int tgt = nondet_int(); ASSUME(tgt >= 0); CEX_tgt = tgt;

  dispatchValue(gs, &call, tgt);

  int n = (int)gs.out.code.size(), ne = (int)gs.errors.size();
  bool known = fa.has[0] && callee == 0 || fa.has[1] && callee == 1;
  Prog p = callee == 1 ? fa.of[1] : fa.of[0];
  int base = n0 + na;   // one instruction per argument (ADD for a name, CONST for a literal)
  ASSERT(funcs_same(gs, fa), "C16: compiling a call does not change the table of closed definitions");
  ASSERT((count_err(gs, ET::UNKNOWN_PROGRAM_NAME) == 1) == !known && count_err(gs, ET::UNKNOWN_PROGRAM_NAME) <= 1,
         "C04: UNKNOWN_PROGRAM_NAME is recorded (once) iff the callee is not the name of a closed definition");
  ASSERT((count_err(gs, ET::ARGSIZE_MISMATCH) == 1) == (known && p.argnum != na) && count_err(gs, ET::ARGSIZE_MISMATCH) <= 1,
         "C04: ARGSIZE_MISMATCH is recorded (once) iff the callee is known and its parameter count differs from the number of arguments");
  ASSERT(ne == ((known && p.argnum == na) ? 0 : 1), "C04: a call to a known program with the right number of arguments records no error, any other call exactly one");
  if (!known || p.argnum != na) {
    ASSERT(n == base, "C04: a rejected call emits nothing besides the evaluation of its arguments");
  } else {
    ASSERT(n == base + na + 2, "C03: an accepted call emits exactly PREPARE, one ARG per argument and EXEC after the argument code");
    Instruction pre = code_at(gs, base), ex = code_at(gs, base + na + 1);
    ASSERT(pre.op == OpCode::PREPARE_EXEC && pre.parameters.prepare.count == p.stack_size && pre.parameters.prepare.index == p.mi && pre.parameters.prepare.target == tgt,
           "C03: the call sequence starts with PREPARE(frame size of the callee, stack map of the callee, result register)");
    bool args_ok = true, temps_ok = true, freed = true;
    int src[2] = {-1, -2};
    int regs1 = (int)gs.getSymbols().register_state.size();
    for (int k = 0; k < 2; k++) if (k < na) {
      Instruction ev = code_at(gs, n0 + k), a = code_at(gs, base + 1 + k);
      src[k] = ev.parameters.add.target;     // register the k-th argument was evaluated into (ADD and CONST: first operand)
      args_ok = args_ok & (a.op == OpCode::ARG) & (a.parameters.arg.target == k) & (a.parameters.arg.source == src[k]) & (k < p.argnum) & (p.argnum <= p.stack_size);
      bool in = src[k] >= 0 && src[k] < regs1;
      temps_ok = temps_ok & in;
      if (in) { VReg r = reg_at(gs.getSymbols(), src[k]); temps_ok = temps_ok & r.is_temp; freed = freed & !r.in_use; }
    }
    ASSERT(args_ok, "C03: ARG k copies the register the k-th argument was evaluated into to register k of the callee frame, k = 0..n-1 in order, k < argnum <= frame size");
    ASSERT(temps_ok && src[0] != src[1], "C03: the arguments are evaluated into pairwise distinct temporaries of the caller frame");
    ASSERT(freed, "C03: the argument temporaries are released after the call sequence");
    ASSERT(ex.op == OpCode::EXEC && ex.parameters.exec.entry == p.ind, "C03: the call sequence ends with EXEC(entry recorded for the callee)");
    ASSERT(ex.parameters.exec.entry >= 1 && ex.parameters.exec.entry < base + na + 1, "C16: an EXEC at index i targets an entry e < i (given Inv_fa: recorded entries lie in code that is already emitted)");
  }
  ASSERT(inv_reg(gs.getSymbols()), "C03: Inv_reg preserved by compiling a call");
  ASSERT(!(known && p.argnum == na), "C04(EXISTS): an accepted call");
  ASSERT(known, "C04(EXISTS): a call of an unknown name");
  ASSERT(!(known && p.argnum != na), "C04(EXISTS): a call with the wrong number of arguments");
}
#define CALL_ENTRY(nm, NA, K0, K1) extern "C" void nm() { call_case<NA, K0, K1>(); ASSERT(0, "WITNESS: end of " #nm " reachable"); }
CALL_ENTRY(h_call_0, 0, 0, 0)
CALL_ENTRY(h_call_1n, 1, 1, 0)
CALL_ENTRY(h_call_1c, 1, 0, 0)
CALL_ENTRY(h_call_2nn, 2, 1, 1)
CALL_ENTRY(h_call_2nc, 2, 1, 0)
CALL_ENTRY(h_call_2cn, 2, 0, 1)
CALL_ENTRY(h_call_2cc, 2, 0, 0)
#endif

// =========================================================================================================
// 2. dispatchProgram with the body replaced by an observing contract stub (job option stubs: dispatchVoid -> stub_body).
// NP = number of parameters (0: the PORTS node is absent, as for PROGRAM f DO ... END), HAS_OUT: an OUT port is declared.
// Symbolic: routine name in {f, g, h}, table of closed definitions, parameter names and OUT name in {a, b, c} (equal names
// allowed), the content of the code / labels / jump list emitted so far.
#if GR_PART == 3
static struct BodyCtx {
  FA *fa; Node *body; int calls; int routine; int np; int param[2]; int n_entry; int syms_entry;
  int k; int var; bool tmp; int regs_after; int var_reg;
} B;
extern "C" void stub_body(GenState &gs, Node *c) {
  B.calls++;
  ASSERT(c == B.body, "C16: dispatchProgram hands exactly the body of the definition to the traversal");
  ASSERT(funcs_same(gs, *B.fa), "C16: while the body of a routine is compiled the table of closed definitions is the one from before its header: the routine itself is not callable, a name defined earlier still denotes the earlier routine");
  ASSERT((int)gs.symbols.size() == B.syms_entry + 1 && gs.getSymbols().name == sel3(FN, B.routine), "C03: the body is compiled in a fresh symbol table carrying the name of the routine");
  FunctionGenState &f = gs.getSymbols();
  bool params = f.argnum == B.np && (int)f.register_state.size() == B.np;
  for (int i = 0; i < 2; i++) if (i < B.np) { const VReg &r = f.register_state.u.d[i]; params = params && !r.is_temp && r.in_use && r.name == sel3(VN, B.param[i]); }
  ASSERT(params, "C03: parameter k occupies register k of the routine (also when a name is repeated), argnum is the number of parameters");
  ASSERT(gs.getNextPos() == B.n_entry + 1, "C03: the entry of the routine is the position right after the JMP that skips it");
  ASSERT(f.marks.size() == 0, "C04: a routine starts without labels");
  // effect of a body: a temporary and one arbitrary instruction other than a breakpoint site.  (The COUNTS are fixed: a symbolic
  // count - also one that merely depends on a comparison of symbolic names, as fetching a variable would - makes every later write
  // into the GenState a write at a symbolic offset, see sym_code.)
  B.var_reg = -1;
  { int t = f.fetchTemporary(); f.releaseTemporary(t); }
  {
    Instruction ins; ins.op = (OpCode)pick(1, 11);
    ins.parameters.test.target = nondet_int(); ins.parameters.test.op1 = nondet_int(); ins.parameters.test.op2 = nondet_int();
    gs.emit(ins);
  }
  B.regs_after = (int)f.register_state.size();
}
static const StackMapIndex NO_MAP = -7;
template <int NP, int HAS_OUT> static void program_case() {
  GenState gs = fresh_state();
  int n0 = sym_code(gs, 2);
  FA fa; sym_funcs(gs, fa, n0);
  // jump bookkeeping and stack maps of the code emitted so far
  // (one older label, one older jump, one older stack map: sizes are constants for the reason given at sym_code, contents arbitrary)
  const int nl = 1, nt = 1, ns = 1;
  gs.labels.push_back(nondet_int());
  gs.backpatching_todo.push_back(0);
  { Program::StackMap old; gs.out.stack_maps.push_back(old); }
  gs.pushSymbols(std::string("#root"));
  int routine = pick(0, 2); CEX_rname = routine;
  int p0 = pick(0, 2), p1 = pick(0, 2), o = pick(0, 2); CEX_param[0] = p0; CEX_param[1] = p1; CEX_out = o; CEX_nparams = NP; CEX_has_out = HAS_OUT;
  // S / PORTS / OPORTS / ARGS / MARGS of parse.cpp
  Node name, id0, id1, a1, a0, outn, ports, hdr, bodyst, endn, endm, bodysp, prog;
  mknode(name, Node::Type::NAME, sel3(FN, routine), NULL, NULL);
  mknode(id0, Node::Type::NAME, sel3(VN, p0), NULL, NULL);
  mknode(id1, Node::Type::NAME, sel3(VN, p1), NULL, NULL);
  mknode(a1, Node::Type::SPLIT, std::string(), &id1, NULL);
  mknode(a0, Node::Type::SPLIT, std::string(), &id0, NP == 2 ? &a1 : NULL);
  mknode(outn, Node::Type::NAME, sel3(VN, o), NULL, NULL);
  mknode(ports, Node::Type::SPLIT, std::string(), &a0, HAS_OUT ? &outn : NULL);
  mknode(hdr, Node::Type::SPLIT, std::string(), &name, NP >= 1 ? &ports : NULL);
  mknode(bodyst, Node::Type::STOP, std::string(), NULL, NULL);
  mknode(endn, Node::Type::NAME, std::string("END"), NULL, NULL);
  mknode(endm, Node::Type::MARK, std::string(), &endn, NULL);
  mknode(bodysp, Node::Type::SPLIT, std::string(), &bodyst, &endm);
  mknode(prog, Node::Type::PROGRAM, std::string(), &hdr, &bodysp);
  B.fa = &fa; B.body = &bodysp; B.calls = 0; B.routine = routine; B.np = NP; B.param[0] = p0; B.param[1] = p1; B.n_entry = n0; B.syms_entry = 1;
  B.k = 1; B.var = -1; B.tmp = true;

  dispatchProgram(gs, &prog);

  ASSERT(B.calls == 1, "C16: dispatchProgram compiles the body exactly once");
  ASSERT(gs.errors.size() == 0, "C04: a definition without labels and calls records no error");
  ASSERT(gs.symbols.size() == 1, "C03: the symbol table of the routine is closed again");
  // reference: which register holds the result (OUT name, x0 by default): parameters first, then the body's variable, else a new one
  std::string out_name = HAS_OUT ? sel3(VN, o) : std::string("x0");
  int ret_reg = -1;
  if (HAS_OUT) { if (NP == 2 && p1 == o) ret_reg = 1; if (NP >= 1 && p0 == o) ret_reg = 0; }
  int size = B.regs_after + (ret_reg < 0 ? 1 : 0);
  if (ret_reg < 0) ret_reg = B.regs_after;
  int n = (int)gs.out.code.size();
  ASSERT(n == n0 + 1 + B.k + 1, "C03: a definition emits JMP, the body and RET, nothing else");
  Instruction jmp = code_at(gs, n0), ret = code_at(gs, n - 1);
  ASSERT(ret.op == OpCode::RET && ret.parameters.ret.source == ret_reg, "C03: the routine ends with RET(register of the OUT variable, x0 without an OUT port)");
  // the recorded definition
  bool has = false; Prog rec; int others = 0; bool others_same = true;
  for (int s = 0; s < GR_FUNCS; s++) if (s < (int)gs.funcAddrs.size()) {
    const auto &sl = gs.funcAddrs.u.d[s];
    bool mine = sl.first == sel3(FN, routine);
    if (mine) { has = true; rec = sl.second; }
    else { others++; for (int q = 0; q < 2; q++) if (sl.first == FN[q]) others_same = others_same && fa.has[q] && same_prog(sl.second, fa.of[q]); }
  }
  int want_others = (fa.has[0] && routine != 0 ? 1 : 0) + (fa.has[1] && routine != 1 ? 1 : 0);
  ASSERT(has && others == want_others && others_same, "C16: closing a routine records exactly its own name (replacing an earlier definition of the same name), all other definitions stay");
  if (has) {
    ASSERT(rec.ind == n0 + 1, "C03: the recorded entry is the position right after the JMP that skips the routine");
    ASSERT(rec.ind >= 1 && rec.ind <= n - 1 && n - 1 < n, "C16: a definition is recorded only after its RET was emitted: entry <= index of its RET < current position (establishes Inv_fa)");
    ASSERT(rec.argnum == NP, "C03: the recorded parameter count is the number of declared parameters");
    ASSERT(rec.stack_size == size, "C03: the recorded frame size is the final size of the register file of the routine");
    ASSERT(ret_reg < rec.stack_size && rec.argnum <= rec.stack_size, "C03: the RET register and the parameter registers lie inside the recorded frame");
    ASSERT(rec.mi == ns && (int)gs.out.stack_maps.size() == ns + 1, "C03: the recorded stack map index is the index of the one stack map pushed for the routine");
    if ((int)gs.out.stack_maps.size() == ns + 1) {
      const Program::StackMap &sm = gs.out.stack_maps.__at(ns);
      bool keys = true, named = false; int nkeys = (int)sm.map.size();
      for (int s = 0; s < GR_REGS; s++) if (s < nkeys) {
        int key = sm.map.u.d[s].first;
        keys = keys && key >= 0 && key < rec.stack_size;
        if (key == ret_reg) named = sm.map.u.d[s].second == out_name;
      }
      ASSERT(keys, "C03: every register listed in the stack map of the routine lies inside its frame");
      ASSERT(named && sm.func_name == sel3(FN, routine), "C03: the stack map carries the name of the routine and maps the RET register to the name of the result variable");
      ASSERT(nkeys == size - (B.tmp ? 1 : 0), "C03: the stack map lists exactly the variable registers (no temporaries)");
    }
  }
  // the JMP over the routine
  ASSERT(jmp.op == OpCode::JMP && jmp.parameters.jmp.offset == nl, "C03: the routine is preceded by a JMP that carries a fresh label");
  bool listed = (int)gs.backpatching_todo.size() == nt + 1;
  if (listed) listed = gs.backpatching_todo.__at(nt) == n0;
  ASSERT(listed, "C03: the JMP over the routine is entered in the list of jumps to patch");
  bool lab = (int)gs.labels.size() == nl + 1;
  if (lab) lab = gs.labels.__at(nl) == n;
  ASSERT(lab, "C03: the label of the JMP over the routine is set to the position after the RET");
  ASSERT(ret_reg != B.regs_after, "C03(EXISTS): a routine whose result variable gets its register only when RET is compiled");
  ASSERT(!(fa.has[0] && routine == 0), "C16(EXISTS): a definition whose name was already defined");
}
#define PROGRAM_ENTRY(nm, NP, HAS_OUT) extern "C" void nm() { program_case<NP, HAS_OUT>(); ASSERT(0, "WITNESS: end of " #nm " reachable"); }
PROGRAM_ENTRY(h_program_noports, 0, 0)
PROGRAM_ENTRY(h_program_1, 1, 0)
PROGRAM_ENTRY(h_program_1out, 1, 1)
PROGRAM_ENTRY(h_program_2, 2, 0)
PROGRAM_ENTRY(h_program_2out, 2, 1)
#endif

// =========================================================================================================
// 3. labels: two routines (p, then q) of GOTO / IF..THEN GOTO / label statements built as P of parse.cpp builds them, compiled by
// the real dispatchGoto / dispatchIf / dispatchMark, closed by the real popSymbols, patched by the real backpatch.  The statement
// KINDS are fixed per entry (they determine the code positions, see sym_code); every label NAME is symbolic in {l, m}, so one entry
// covers: reference before / after the definition, reference without definition, definition without reference, one or two labels,
// the same name used in both routines.  (A label defined twice in a routine is outside C04; the last definition wins here.)
#if GR_PART == 4
enum { K_NONE = 0, K_GOTO = 1, K_IF = 2, K_MARK = 3 };
#define LAB_OPS 4
struct LabRec {
  bool ref[2][2]; int pos[2][2];            // [routine][label]: referenced; position recorded by the last definition, -1 if none
  int jloc[LAB_OPS], jlab[LAB_OPS], jrt[LAB_OPS], nj; int start[2], ret[2];
};
static void lab_op(GenState &gs, LabRec &R, int rt, int kind, int slot) {
  if (kind == K_NONE) return;
  int lab = pick(0, 1); CEX_kind[slot] = kind; CEX_lab[slot] = lab;
  Node nm, go, x, c, eq, iff, mk;
  mknode(nm, Node::Type::NAME, sel2(LN, lab), NULL, NULL);
  if (kind == K_GOTO) {
    mknode(go, Node::Type::GOTO, std::string(), &nm, NULL);
    dispatchGoto(gs, &go);
  } else if (kind == K_IF) {
    mknode(x, Node::Type::NAME, std::string("x"), NULL, NULL);
    mknode(c, Node::Type::NUMBER, std::string("0"), NULL, NULL);
    mknode(eq, Node::Type::EQ, std::string(), &x, &c);
    mknode(go, Node::Type::GOTO, std::string(), &nm, NULL);
    mknode(iff, Node::Type::IF, std::string(), &eq, &go);
    dispatchIf(gs, &iff);
  } else {
    mknode(mk, Node::Type::MARK, std::string(), &nm, NULL);
    int at = gs.getNextPos();       // (no breakpoint site on top: all nodes carry the current line)
    dispatchMark(gs, &mk);
    if (lab == 0) R.pos[rt][0] = at; else R.pos[rt][1] = at;
    return;
  }
  if (lab == 0) R.ref[rt][0] = true; else R.ref[rt][1] = true;
  R.jloc[R.nj] = gs.getNextPos() - 1; R.jlab[R.nj] = lab; R.jrt[R.nj] = rt; R.nj++;
}
static int lab_routine(GenState &gs, LabRec &R, int rt, int k0, int k1, int k2, int slot0) {
  gs.pushSymbols(std::string(rt == 0 ? "p" : "q"));
  R.start[rt] = gs.getNextPos();
  lab_op(gs, R, rt, k0, slot0); lab_op(gs, R, rt, k1, slot0 + 1); lab_op(gs, R, rt, k2, slot0 + 2);
  R.ret[rt] = gs.getNextPos();
  gs.emit(Instruction::Ret(0));
  int e0 = count_err(gs, ET::UNKNOWN_MARK);
  gs.popSymbols(R.start[rt]);
  int want = (R.ref[rt][0] && R.pos[rt][0] < 0 ? 1 : 0) + (R.ref[rt][1] && R.pos[rt][1] < 0 ? 1 : 0);
  return (count_err(gs, ET::UNKNOWN_MARK) - e0) - want;     // 0 iff the rule holds for this routine
}
static void labels_case(int a0, int a1, int a2, int b0, int b1) {
  GenState gs = fresh_state();
  gs.emit(Instruction::PrepareExec(-1, -1, 0));
  LabRec R;
  for (int r = 0; r < 2; r++) for (int q = 0; q < 2; q++) { R.ref[r][q] = false; R.pos[r][q] = -1; }
  R.nj = 0;
  int d0 = lab_routine(gs, R, 0, a0, a1, a2, 0);
  ASSERT(d0 == 0, "C04: popSymbols records UNKNOWN_MARK exactly once per label that is referenced in the routine and never set in it");
  int d1 = lab_routine(gs, R, 1, b0, b1, K_NONE, 3);
  ASSERT(d1 == 0, "C04: a label that is set only in another routine does not count: UNKNOWN_MARK is recorded for the second routine by the same rule");
  ASSERT((int)gs.errors.size() == count_err(gs, ET::UNKNOWN_MARK), "C04: GOTO, IF and label statements record no other error");
  // every emitted jump is listed for patching, in order
  bool listed = (int)gs.backpatching_todo.size() == R.nj;
  for (int j = 0; j < LAB_OPS; j++) if (j < R.nj && listed) listed = gs.backpatching_todo.u.d[j] == R.jloc[j];
  ASSERT(listed, "C03: every JMP / JMPC emitted for GOTO and IF is entered in backpatching_todo, nothing else is");
  bool all_set = gs.errors.size() == 0;
  if (all_set) {
    gs.backpatch();
    ASSERT(gs.errors.size() == 0 && gs.backpatching_todo.size() == 0, "C03: backpatch() records no error when every referenced label is set, and empties the list");
    bool lands = true, inside = true, kept = true;
    for (int j = 0; j < LAB_OPS; j++) if (j < R.nj) {
      Instruction ins = code_at(gs, R.jloc[j]);
      int rt = R.jrt[j];
      int tgt = R.jlab[j] == 0 ? (rt == 0 ? R.pos[0][0] : R.pos[1][0]) : (rt == 0 ? R.pos[0][1] : R.pos[1][1]);
      int lo = rt == 0 ? R.start[0] : R.start[1], hi = rt == 0 ? R.ret[0] : R.ret[1];
      kept = kept && (ins.op == OpCode::JMP || ins.op == OpCode::JMPC);
      lands = lands && ins.parameters.jmp.offset == tgt - R.jloc[j];      // (JMP and JMPC: the offset is the first operand)
      inside = inside && R.jloc[j] + ins.parameters.jmp.offset >= lo && R.jloc[j] + ins.parameters.jmp.offset <= hi;
    }
    ASSERT(kept && lands, "C03: after backpatch() every listed JMP / JMPC has offset = position recorded for its label in its own routine - own position");
    ASSERT(inside, "C03: every patched jump lands inside the code range of its own routine (entry .. RET)");
  }
  ASSERT(!all_set, "C03(EXISTS): a combination in which every referenced label is set");
  ASSERT(all_set, "C04(EXISTS): a combination with an unknown label");
}
#define LABELS_ENTRY(nm, a0, a1, a2, b0, b1) extern "C" void nm() { labels_case(a0, a1, a2, b0, b1); ASSERT(0, "WITNESS: end of " #nm " reachable"); }
LABELS_ENTRY(h_labels_fwd, K_GOTO, K_MARK, K_NONE, K_GOTO, K_NONE)     // p: GOTO x; y: ...      q: GOTO z
LABELS_ENTRY(h_labels_back, K_MARK, K_IF, K_NONE, K_MARK, K_GOTO)      // p: x: IF .. GOTO y     q: z: GOTO w
LABELS_ENTRY(h_labels_two, K_IF, K_GOTO, K_MARK, K_MARK, K_NONE)       // p: IF .. GOTO x; GOTO y; z: ...   q: w: ...
LABELS_ENTRY(h_labels_mix, K_GOTO, K_MARK, K_MARK, K_IF, K_MARK)       // p: GOTO x; y: z: ...   q: IF .. GOTO w; v: ...
#endif
