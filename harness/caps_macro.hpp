// capacities of the container model for the macro harnesses (harness/macro_apply.cpp); model bounds, see DESIGN.md 2.2.
// The jobs pass -DMINISTL_VEC_CAP=1 -DMINISTL_MAP_CAP=1: every container that is not listed here (the tables, grammar and
// closures of the LRParser object inside MacroDetector, Accumulation, GenerationResult) gets capacity 1.  Those members are only
// copied around by apply_macros; the constructor and detect() that fill and read them are replaced by contract stubs.
#ifndef MA_CT
#error "MA_CT (token vector capacity) etc. must be defined"
#endif
namespace Theo { struct Token; struct ParseError; struct MacroDefinition; }
struct MacroDetector;
namespace std {
template<> struct __cap<Theo::Token> { static constexpr int v = MA_CT; };                 // input / rule / body / matched sequences
template<> struct __cap<vector<Theo::Token>> { static constexpr int v = MA_RS; };         // Response::matched: one sequence per rule position
template<> struct __cap<unsigned int> { static constexpr int v = MA_RS; };                // index lists of a MacroDefinition
template<> struct __cap<Theo::ParseError> { static constexpr int v = MA_NERR; };
template<> struct __cap<Theo::MacroDefinition> { static constexpr int v = MA_ND; };
template<> struct __cap<MacroDetector> { static constexpr int v = MA_ND; };
template<class B> struct __cap<pair<MacroDetector, B>> { static constexpr int v = MA_ND; };   // detected_macros (B = MacroDetector::Response)
template<> struct __mcap<int, vector<MacroDetector>> { static constexpr int v = MA_ND; };     // priority bins
}
