// capacities of the container model for the macro harnesses (harness/macro_apply.cpp); model bounds, see DESIGN.md 2.2.
// The jobs pass -DMINISTL_VEC_CAP=1 -DMINISTL_MAP_CAP=1: every container that is not listed here (the tables, grammar and
// closures of the LRParser object inside MacroDetector, Accumulation, GenerationResult) gets capacity 1.  Those members are only
// copied around by apply_macros; the constructor and detect() that fill and read them are replaced by contract stubs.
#ifndef MA_CT
#error "MA_CT (token vector capacity) etc. must be defined"
#endif
namespace Theo { struct Token; struct ParseError; struct MacroDefinition; }
struct MacroDetector;
namespace std {
template<> struct __cap<Theo::Token> { static constexpr int v = MA_CT; };                 // input / rule / body / matched sequences
template<> struct __cap<vector<Theo::Token>> { static constexpr int v = MA_RS; };         // Response::matched: one sequence per rule position
template<> struct __cap<unsigned int> { static constexpr int v = MA_RS; };                // index lists of a MacroDefinition
template<> struct __cap<Theo::ParseError> { static constexpr int v = MA_NERR; };
template<> struct __cap<Theo::MacroDefinition> { static constexpr int v = MA_ND; };
template<> struct __cap<MacroDetector> { static constexpr int v = MA_ND; };
template<class B> struct __cap<pair<MacroDetector, B>> { static constexpr int v = MA_ND; };   // detected_macros (B = MacroDetector::Response)
template<> struct __mcap<int, vector<MacroDetector>> { static constexpr int v = MA_ND; };     // priority bins

// ---- vectors of LARGE elements (MacroDetector ~1 KB, pair<MacroDetector,Response> ~3 KB, a whole token sequence as element).
// The flat vector<T> of the base model keeps its elements in one array; a reference to the element at a SYMBOLIC index is then a
// pointer with an unknown offset into that object, which CBMC resolves byte-wise (measured: one such read of a 3 KB element does
// not finish in 20 GB).  For the element types listed in __big<> the elements therefore live in separately allocated objects:
// a reference to the i-th element is a choice among CAP distinct objects, which CBMC resolves field by field.  Same interface,
// same assertions ("(UB)" preconditions, "(model bound)" capacities), value semantics (deep copies).
template<class T> struct __big { static constexpr bool v = false; };
template<> struct __big<MacroDetector> { static constexpr bool v = true; };
template<class B> struct __big<pair<MacroDetector, B>> { static constexpr bool v = true; };
template<> struct __big<vector<Theo::Token>> { static constexpr bool v = true; };
template<> struct __big<Theo::MacroDefinition> { static constexpr bool v = true; };
template<class T, int CAP> struct __bigflat {
  typedef T value_type; static constexpr int FCAP = CAP;
  int n; T* p[CAP];
  __bigflat() : n(0) { for (int k = 0; k < CAP; k++) p[k] = (T*)::operator new(sizeof(T)); }
  __bigflat(const __bigflat& o) : n(0) { for (int k = 0; k < CAP; k++) { p[k] = (T*)::operator new(sizeof(T)); if (k < o.n) new (p[k]) T(*o.p[k]); } n = o.n; }
  __bigflat& operator=(const __bigflat& o) { if (this != &o) { for (int k = 0; k < CAP; k++) if (k < o.n) new (p[k]) T(*o.p[k]); n = o.n; } return *this; }
  void __clear() { n = 0; }
  T& __at(long i) { T* r = p[0]; for (int k = 1; k < CAP; k++) if (i == k) r = p[k]; return *r; }
  const T& __at(long i) const { const T* r = p[0]; for (int k = 1; k < CAP; k++) if (i == k) r = p[k]; return *r; }
};
template<class T> requires __big<T>::v struct vector<T> : __bigflat<T, __cap<T>::v> {
  static constexpr int VCAP = __cap<T>::v;
  typedef __bigflat<T, VCAP> F;
  using F::n; using F::p; using F::__at;
  typedef __iter<F, T> iterator; typedef __iter<const F, const T> const_iterator; typedef size_t size_type; typedef T value_type;
  vector() {}
  vector(initializer_list<T> l) { for (const T* q = l.begin(); q != l.end(); ++q) push_back(*q); }
  void push_back(const T& x) { __CPROVER_assert(n < VCAP, "ministl: vector capacity (model bound)"); for (int k = 0; k < VCAP; k++) if (k == n) new (p[k]) T(x); n++; }
  void pop_back() { __CPROVER_assert(n > 0, "ministl: pop_back on empty vector (UB)"); n--; }
  void clear() { n = 0; }
  T& back() { __CPROVER_assert(n > 0, "ministl: back() on empty vector (UB)"); return __at(n - 1); }
  T& front() { __CPROVER_assert(n > 0, "ministl: front() on empty vector (UB)"); return *p[0]; }
  T& operator[](size_t i) { __CPROVER_assert(i < (size_t)n, "ministl: vector index out of range (UB)"); return __at((long)i); }
  const T& operator[](size_t i) const { __CPROVER_assert(i < (size_t)n, "ministl: vector index out of range (UB)"); return __at((long)i); }
  size_t size() const { return n; } bool empty() const { return n == 0; }
  iterator begin() { return iterator(this, 0); } iterator end() { return iterator(this, n); }
  const_iterator begin() const { return const_iterator(this, 0); } const_iterator end() const { return const_iterator(this, n); }
};
}
