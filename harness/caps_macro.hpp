// capacities of the container model for the macro harnesses (harness/macro_apply.cpp); model bounds, see DESIGN.md 2.2.
// The jobs pass -DMINISTL_VEC_CAP=1 -DMINISTL_MAP_CAP=1: every container that is not listed here (the tables, grammar and
// closures of the LRParser object inside MacroDetector, Accumulation, GenerationResult) gets capacity 1.  Those members are only
// copied around by apply_macros; the constructor and detect() that fill and read them are replaced by contract stubs.
#ifndef MA_CT
#error "MA_CT (token vector capacity) etc. must be defined"
#endif
namespace Theo { struct Token; struct ParseError; struct MacroDefinition; }
struct MacroDetector;
namespace std {
template<> struct __cap<Theo::Token> { static constexpr int v = MA_CT; };                 // input / rule / body / matched sequences
template<> struct __cap<vector<Theo::Token>> { static constexpr int v = MA_RS; };         // Response::matched: one sequence per rule position
template<> struct __cap<unsigned int> { static constexpr int v = MA_RS; };                // index lists of a MacroDefinition
template<> struct __cap<Theo::ParseError> { static constexpr int v = MA_NERR; };
template<> struct __cap<Theo::MacroDefinition> { static constexpr int v = MA_ND; };
template<> struct __cap<MacroDetector> { static constexpr int v = MA_ND; };
template<class B> struct __cap<pair<MacroDetector, B>> { static constexpr int v = MA_ND; };   // detected_macros (B = MacroDetector::Response)
template<> struct __mcap<int, vector<MacroDetector>> { static constexpr int v = MA_ND; };     // priority bins

// ---- vectors of LARGE elements (MacroDetector ~1 KB, pair<MacroDetector,Response> ~3 KB, a whole token sequence as element).
// The flat vector<T> of the base model keeps its elements in one array; a reference to the element at a SYMBOLIC index is then a
// pointer with an unknown offset into that object, which CBMC resolves byte-wise (measured: one such read of a 3 KB element does
// not finish in 20 GB).  For the element types listed in __big<> the elements therefore live in separately allocated objects:
// a reference to the i-th element is a choice among CAP distinct objects, which CBMC resolves field by field.  Same interface,
// same assertions ("(UB)" preconditions, "(model bound)" capacities), value semantics (deep copies).
template<class T> struct __big { static constexpr bool v = false; };
template<> struct __big<MacroDetector> { static constexpr bool v = true; };
template<class B> struct __big<pair<MacroDetector, B>> { static constexpr bool v = true; };
template<> struct __big<vector<Theo::Token>> { static constexpr bool v = true; };
template<> struct __big<Theo::MacroDefinition> { static constexpr bool v = true; };
template<class T, int CAP> struct __bigflat {
  typedef T value_type; static constexpr int FCAP = CAP;
  int n; T* p[CAP];
  __bigflat() : n(0) { for (int k = 0; k < CAP; k++) p[k] = (T*)::operator new(sizeof(T)); }
  __bigflat(const __bigflat& o) : n(0) { for (int k = 0; k < CAP; k++) { p[k] = (T*)::operator new(sizeof(T)); if (k < o.n) new (p[k]) T(*o.p[k]); } n = o.n; }
  __bigflat& operator=(const __bigflat& o) { if (this != &o) { for (int k = 0; k < CAP; k++) if (k < o.n) new (p[k]) T(*o.p[k]); n = o.n; } return *this; }
  void __clear() { n = 0; }
  T& __at(long i) { T* r = p[0]; for (int k = 1; k < CAP; k++) if (i == k) r = p[k]; return *r; }
  const T& __at(long i) const { const T* r = p[0]; for (int k = 1; k < CAP; k++) if (i == k) r = p[k]; return *r; }
  T __get(long i) const { T r = *p[0]; for (int k = 1; k < CAP; k++) if (i == k) r = *p[k]; return r; }
};
template<class T> requires __big<T>::v struct vector<T> : __bigflat<T, __cap<T>::v> {
  static constexpr int VCAP = __cap<T>::v;
  typedef __bigflat<T, VCAP> F;
  using F::n; using F::p; using F::__at;
  typedef __iter<F, T> iterator; typedef __iter<const F, const T> const_iterator; typedef size_t size_type; typedef T value_type;
  vector() {}
  vector(initializer_list<T> l) { for (const T* q = l.begin(); q != l.end(); ++q) push_back(*q); }
  void push_back(const T& x) { (__CPROVER_assert(n < VCAP,"ministl: vector capacity (model bound)"), __CPROVER_assume(n < VCAP)); for (int k = 0; k < VCAP; k++) if (k == n) new (p[k]) T(x); n++; }
  void pop_back() { __CPROVER_assert(n > 0, "ministl: pop_back on empty vector (UB)"); n--; }
  void clear() { n = 0; }
  T& back() { __CPROVER_assert(n > 0, "ministl: back() on empty vector (UB)"); return __at(n - 1); }
  T& front() { __CPROVER_assert(n > 0, "ministl: front() on empty vector (UB)"); return *p[0]; }
  T& operator[](size_t i) { __CPROVER_assert(i < (size_t)n, "ministl: vector index out of range (UB)"); return __at((long)i); }
  const T& operator[](size_t i) const { __CPROVER_assert(i < (size_t)n, "ministl: vector index out of range (UB)"); return __at((long)i); }
  size_t size() const { return n; } bool empty() const { return n == 0; }
  void reserve(size_t k) { (__CPROVER_assert(k <= (size_t)VCAP,"ministl: vector capacity (model bound)"), __CPROVER_assume(k <= (size_t)VCAP)); } size_t capacity() const { return VCAP; }
  iterator begin() { return iterator(this, 0); } iterator end() { return iterator(this, n); }
  typedef __riter<F, T> reverse_iterator; reverse_iterator rbegin() { return reverse_iterator(this, n); } reverse_iterator rend() { return reverse_iterator(this, 0); }
  const_iterator begin() const { return const_iterator(this, 0); } const_iterator end() const { return const_iterator(this, n); }
  // erase / insert of one element: the element objects stay where they are, their contents move (constant indices only)
  iterator erase(iterator at) {
    __CPROVER_assert(at.i >= 0 && at.i < n, "ministl: erase position out of range (UB)");
    for (int k = 0; k + 1 < VCAP; k++) if (k >= at.i && k + 1 < n) new (p[k]) T(*p[k + 1]);
    n--; return at;
  }
  iterator insert(iterator at, const T& x) {
    (__CPROVER_assert(n < VCAP,"ministl: vector capacity (model bound)"), __CPROVER_assume(n < VCAP)); __CPROVER_assert(at.i >= 0 && at.i <= n, "ministl: insert position out of range (UB)");
    T tmp(x);
    for (int k = VCAP - 1; k > 0; k--) if (k > at.i && k <= n) new (p[k]) T(*p[k - 1]);
    for (int k = 0; k < VCAP; k++) if (k == at.i) new (p[k]) T(tmp);
    n++; return at;
  }
};

// ---- vectors of SMALL class-type elements that the code under test pushes / inserts / erases at symbolic positions (Token, ParseError).
// Same flat representation as the base model (n, u.d[CAP]; trivially copyable), same assertions; the only difference is the FORM of
// the element moves: a store to position i is written as "for every constant k: if (k == i) d[k] = x" and a read that feeds a store is
// a by-value selection among the CAP elements, so that no store goes through a pointer with a symbolic offset (the base model's
// new(&__at(i)) T(x) does, and CBMC then rewrites the whole enclosing object byte-wise; measured 100 MB of SSA for one small run).
template<class T> struct __aform { static constexpr bool v = false; };
template<> struct __aform<Theo::Token> { static constexpr bool v = true; };
template<> struct __aform<Theo::ParseError> { static constexpr bool v = true; };
template<> struct __aform<unsigned int> { static constexpr bool v = true; };
template<class F2, class E2> E2 __itget(const __iter<F2, E2>& f, long k) { return f.c->__get(f.i + k); }
template<class T> const T& __itget(const T* f, long k) { return f[k]; }
// std::make_move_iterator over these vectors, WITH the moved-from state of the source: reading element k through a move iterator hands out
// the element and then leaves the source element in the state its (implicit) move constructor leaves it in under libstdc++: every
// std::string member empty, scalar members unchanged.  Token (the only element type moved in macro.cpp) has the string members text and
// file.  This is what makes "a slot used twice in a body yields empty tokens the second time" visible; the generic model in ministl
// (a move is a copy) cannot show it.  Reads happen once per element (insert(at, first, last) reads position k exactly once).
template<class F, class E> struct __move_iter { __iter<F, E> base; long operator-(const __move_iter& o) const { return base - o.base; } };
template<class T> void __moved_from(T& x) { if constexpr (requires { x.text = string(); x.file = string(); }) { x.text = string(); x.file = string(); } }
template<class F, class E> requires (!__is_const(F) && requires(F& f) { f.__get(0); f.u.d[0]; }) __move_iter<F, E> make_move_iterator(__iter<F, E> i) { return {i}; }
template<class F, class E> E __itget(const __move_iter<F, E>& f, long k) {
  long at = f.base.i + k; E r = f.base.c->u.d[0];
  for (int j = 0; j < F::FCAP; j++) if (j == at) { r = f.base.c->u.d[j]; __moved_from(f.base.c->u.d[j]); }
  return r;
}
template<class T> requires __aform<T>::v struct vector<T> : __flat<T, __cap<T>::v> {
  static constexpr int VCAP = __cap<T>::v;
  typedef __flat<T, VCAP> F;
  using F::n; using F::u; using F::__at;
  typedef __iter<vector, T> iterator; typedef __iter<const vector, const T> const_iterator; typedef size_t size_type; typedef T value_type;
  T __get(long i) const { T r = u.d[0]; for (int k = 1; k < VCAP; k++) if (i == k) r = u.d[k]; return r; }
  vector() {}
  vector(initializer_list<T> l) { for (const T* q = l.begin(); q != l.end(); ++q) push_back(*q); }
  void push_back(const T& x) { (__CPROVER_assert(n < VCAP,"ministl: vector capacity (model bound)"), __CPROVER_assume(n < VCAP)); for (int k = 0; k < VCAP; k++) if (k == n) new (&u.d[k]) T(x); n++; }
  void pop_back() { __CPROVER_assert(n > 0, "ministl: pop_back on empty vector (UB)"); n--; }
  void clear() { n = 0; }
  T& back() { __CPROVER_assert(n > 0, "ministl: back() on empty vector (UB)"); return __at(n - 1); }
  const T& back() const { __CPROVER_assert(n > 0, "ministl: back() on empty vector (UB)"); return __at(n - 1); }
  T& front() { __CPROVER_assert(n > 0, "ministl: front() on empty vector (UB)"); return u.d[0]; }
  T& operator[](size_t i) { __CPROVER_assert(i < (size_t)n, "ministl: vector index out of range (UB)"); return __at((long)i); }
  const T& operator[](size_t i) const { __CPROVER_assert(i < (size_t)n, "ministl: vector index out of range (UB)"); return __at((long)i); }
  size_t size() const { return n; } bool empty() const { return n == 0; }
  void reserve(size_t k) { (__CPROVER_assert(k <= (size_t)VCAP,"ministl: vector capacity (model bound)"), __CPROVER_assume(k <= (size_t)VCAP)); } size_t capacity() const { return VCAP; }
  iterator begin() { return iterator(this, 0); } iterator end() { return iterator(this, n); }
  typedef __riter<F, T> reverse_iterator; reverse_iterator rbegin() { return reverse_iterator(this, n); } reverse_iterator rend() { return reverse_iterator(this, 0); }
  const_iterator begin() const { return const_iterator(this, 0); } const_iterator end() const { return const_iterator(this, n); }
  // insert [f,l) before at: shift the tail up by m (highest index first, reading positions not yet overwritten), then copy the new elements in
  template<class It> void insert(iterator at, It f, It l) {
    int a = at.i; int m = (int)(l - f);
    __CPROVER_assert(a >= 0 && a <= n, "ministl: insert position outside vector (UB)"); (__CPROVER_assert(m >= 0 && n + m <= VCAP,"ministl: vector capacity (model bound)"), __CPROVER_assume(m >= 0 && n + m <= VCAP));
    for (int j = VCAP - 1; j >= 0; j--) if (m > 0 && j >= a + m && j < n + m) new (&u.d[j]) T(__get(j - m));
    for (int j = 0; j < VCAP; j++) if (j >= a && j < a + m) new (&u.d[j]) T(__itget(f, j - a));
    n += m; }
  iterator insert(iterator at, const T& x) { const T* q = &x; insert(at, q, q + 1); return at; }
  // erase [f,l): move the tail down (lowest index first, reading positions not yet overwritten)
  void erase(iterator f, iterator l) {
    int a = f.i, e = l.i, k = e - a;
    __CPROVER_assert(a >= 0 && a <= e && e <= n, "ministl: erase range outside vector (UB)");
    for (int j = 0; j < VCAP; j++) if (k > 0 && j >= a && j + k < n) new (&u.d[j]) T(__get(j + k));
    n -= k; }
  iterator erase(iterator at) { erase(at, at + 1); return at; }
};

// ---- map whose mapped values are vectors of large elements (the priority bins map<int, vector<MacroDetector>> of apply_macros).
// Slots live in separately allocated objects in insertion order; the position of a slot in the iteration order is its RANK (number of
// smaller keys), so begin()..end() / rbegin()..rend() enumerate the keys in ascending / descending order exactly like std::map, and no
// slot is ever moved.  Same interface and assertions as the base model's map.
template<class V> struct __bigmapv { static constexpr bool v = false; };
template<> struct __bigmapv<vector<MacroDetector>> { static constexpr bool v = true; };
template<class K, class V> requires __bigmapv<V>::v struct map<K, V> {
  typedef pair<K, V> value_type; typedef pair<K, V> slot;
  static constexpr int MCAP = __mcap<K, V>::v; static constexpr int FCAP = MCAP;
  int n; slot* p[MCAP];
  map() : n(0) { for (int k = 0; k < MCAP; k++) p[k] = (slot*)::operator new(sizeof(slot)); }
  map(const map& o) : n(0) { for (int k = 0; k < MCAP; k++) { p[k] = (slot*)::operator new(sizeof(slot)); if (k < o.n) new (p[k]) slot(*o.p[k]); } n = o.n; }
  map& operator=(const map& o) { if (this != &o) { for (int k = 0; k < MCAP; k++) if (k < o.n) new (p[k]) slot(*o.p[k]); n = o.n; } return *this; }
  typedef __iter<map, slot> iterator; typedef __iter<const map, const slot> const_iterator; typedef __riter<map, slot> reverse_iterator;
  static bool __eqk(const K& a, const K& b) { return !(a < b) && !(b < a); }
  int __rank(int k) const { int r = 0; for (int j = 0; j < MCAP; j++) if (j < n && p[j]->first < p[k]->first) r++; return r; }
  int lower(const K& key) const { int r = 0; for (int j = 0; j < MCAP; j++) if (j < n && p[j]->first < key) r++; return r; }
  bool __has(const K& key) const { bool h = false; for (int j = 0; j < MCAP; j++) if (j < n && __eqk(p[j]->first, key)) h = true; return h; }
  slot& __at(long i) { slot* r = p[0]; for (int k = 1; k < MCAP; k++) if (k < n && __rank(k) == i) r = p[k]; return *r; }
  const slot& __at(long i) const { const slot* r = p[0]; for (int k = 1; k < MCAP; k++) if (k < n && __rank(k) == i) r = p[k]; return *r; }
  void clear() { n = 0; }
  iterator begin() { return iterator(this, 0); } iterator end() { return iterator(this, n); }
  const_iterator begin() const { return const_iterator(this, 0); } const_iterator end() const { return const_iterator(this, n); }
  reverse_iterator rbegin() { return reverse_iterator(this, n); } reverse_iterator rend() { return reverse_iterator(this, 0); }
  iterator find(const K& key) { return __has(key) ? iterator(this, lower(key)) : end(); }
  bool contains(const K& key) const { return __has(key); } size_t count(const K& key) const { return __has(key) ? 1 : 0; } bool empty() const { return n == 0; } size_t size() const { return n; }
  void insert(const slot& s) { if (__has(s.first)) return; (__CPROVER_assert(n < MCAP,"ministl: map capacity (model bound)"), __CPROVER_assume(n < MCAP)); for (int k = 0; k < MCAP; k++) if (k == n) new (p[k]) slot(s); n++; }
  template<class A2, class B2> void insert(const pair<A2, B2>& s) { insert(slot(K(s.first), V(s.second))); }
  V& operator[](const K& key) { if (!__has(key)) insert(slot(key, V())); slot* r = p[0]; for (int k = 1; k < MCAP; k++) if (k < n && __eqk(p[k]->first, key)) r = p[k]; return r->second; }
  V& at(const K& key) { __CPROVER_assert(__has(key), "ministl: map::at key not found (throws)"); return (*this)[key]; }
};
}
