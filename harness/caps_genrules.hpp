// capacities of the container model for harness/gen_rules.cpp (model bounds, DESIGN.md 2.2).  Every capacity can be set per job
// with -DGR_<X>=n; the defaults fit the largest entry.  Containers whose element type is a nested class (Program::StackMap,
// CodegenResult::Error) cannot be named before their enclosing class is defined: they take MINISTL_VEC_CAP.
#ifndef GR_CODE
#define GR_CODE 12      /* vector<Instruction>: emitted code */
#endif
#ifndef GR_INT
#define GR_INT 6        /* vector<int>: labels, backpatching_todo, argument registers, sites of one location */
#endif
#ifndef GR_REGS
#define GR_REGS 6       /* vector<VReg> register_state, Program::StackMap::map */
#endif
#ifndef GR_SYMS
#define GR_SYMS 3       /* vector<FunctionGenState>: symbol table stack (root + open routine) */
#endif
#ifndef GR_FUNCS
#define GR_FUNCS 3      /* map<string, Prog> funcAddrs */
#endif
#ifndef GR_MARKS
#define GR_MARKS 3      /* map<string, int> marks of one routine */
#endif
#ifndef GR_SITES
#define GR_SITES 3      /* breakpoint tables */
#endif
#ifndef GR_NODES
#define GR_NODES 1      /* AST::all_allocated_nodes (never filled by the harness: trees live on its stack) */
#endif
#ifndef GR_PERR
#define GR_PERR 3       /* AST::errors */
#endif
namespace Theo { struct Instruction; struct BreakPoint; struct Node; struct SyntaxError; }
struct VReg; struct FunctionGenState; struct Prog;
namespace std {
template<> struct __cap<Theo::Instruction> { static constexpr int v = GR_CODE; };
template<> struct __cap<int> { static constexpr int v = GR_INT; };
template<> struct __cap<VReg> { static constexpr int v = GR_REGS; };
template<> struct __cap<FunctionGenState> { static constexpr int v = GR_SYMS; };
template<> struct __cap<Theo::Node*> { static constexpr int v = GR_NODES; };
template<> struct __cap<Theo::SyntaxError> { static constexpr int v = GR_PERR; };
template<> struct __mcap<string, Prog> { static constexpr int v = GR_FUNCS; };
template<> struct __mcap<string, int> { static constexpr int v = GR_MARKS; };
template<> struct __mcap<int, string> { static constexpr int v = GR_REGS; };
template<> struct __mcap<Theo::BreakPoint, vector<int>> { static constexpr int v = GR_SITES; };
template<> struct __mcap<int, Theo::BreakPoint> { static constexpr int v = GR_SITES; };
template<> struct __scap<Theo::BreakPoint> { static constexpr int v = GR_SITES; };
}
