// Layer B for Theo::extract_macros (Compiler/src/macro.cpp; C02, C09): its four mutually recursive functions S, D, MD, A one at a time, every recursive
// call replaced by a contract stub (full unrolling of the recursion is intractable: 3^depth call instances, no verdict for 4 tokens in 900 s).
// Contracts (assumed of callees, proved of each real body): the cursor strictly advances; the stack of macros under construction keeps its depth
// (A), or loses at most its top entry (D, MD); S appends at least one token to the output, the last one being the end-of-file token; every error has a
// message and the location of an input token.  Progress gives termination, the contracts give the result shape of extract_macros.
#include "Compiler/src/macro.cpp"
extern "C" { int nondet_int(); }
static inline bool nondet_bool() { return (nondet_int() & 1) != 0; }
#define ASSUME(c) __CPROVER_assume(c)
#define ASSERT(c, msg) __CPROVER_assert(c, msg)
#ifndef EX_N
#define EX_N 6
#endif
std::string Theo::token_string(Theo::Token::Type) { return "t"; }     // environment: formats diagnostics only (scan.cpp)
extern "C" { int CEX_kind[EX_N], CEX_n, CEX_pos, CEX_depth; }
enum { K_S, K_D, K_MD, K_A };
static int g_n;
static void contract(ExtractionState &es, int kind) {
  int m = (int)es.incomplete_macros.size();
  if (kind != K_S) ASSUME(m >= 1);   // callers guarantee it (asserted below as SAFE-call condition)
  int adv = nondet_int(); ASSUME(adv >= 1 && adv <= EX_N + 1 && es.tok_pos + adv <= (unsigned)(g_n + 2));
  es.tok_pos += adv;
  if (nondet_bool()) es.encountered_errors.push_back({Theo::ParseError::Type::MACRO_EXTRACT_EXPECT, "e", "m", 1});
  if ((kind == K_D || kind == K_MD) && nondet_bool()) es.incomplete_macros.pop_back();
  if (kind == K_S) { if (nondet_bool()) { Token t; t.t = Token::ID; t.text = "x"; t.file = "m"; t.line = 1; es.output.push_back(t); } Token e; e.t = Token::T_EOF; e.text = "EOF"; e.file = "m"; e.line = 1; es.output.push_back(e); if (nondet_bool()) {
      // a finished macro with a symbolic one-token body ($d, #d or an identifier) over 0..1 slots: the tail of extract_macros validates its insertion indices
      MacroDefinition md; md.priority = 0;
      Token b; int bk = nondet_int(); ASSUME(bk == Token::INSERTION || bk == Token::TEMP_VAL || bk == Token::ID); b.t = (Token::Type)bk;
      int dg = nondet_int(); ASSUME(dg >= 0 && dg <= 9); char tx[3] = {bk == Token::INSERTION ? '$' : (bk == Token::TEMP_VAL ? '#' : 'x'), (char)('0' + dg), 0};
      b.text = tx; b.file = "m"; b.line = 1; md.replacement.push_back(b);
      if (nondet_bool()) md.template_token_indices.push_back(0);
      es.incomplete_macros.push_back(md);
    } }
}
// environment: strtol by contract only (any value; the literal obligations of C20 use the exact model) - the error path of strToInt must be safe for every value
extern "C" long stub_ex_strtol(const char *s, char **end, int base) { long v; *(int *)&v = nondet_int(); ((int *)&v)[1] = nondet_int(); return v; }
static bool called_with_empty_stack;
extern "C" {
void stub_exS(ExtractionState &es) { contract(es, K_S); }
void stub_exD(ExtractionState &es) { if (es.incomplete_macros.size() == 0) called_with_empty_stack = true; contract(es, K_D); }
void stub_exMD(ExtractionState &es) { if (es.incomplete_macros.size() == 0) called_with_empty_stack = true; contract(es, K_MD); }
void stub_exA(ExtractionState &es) { if (es.incomplete_macros.size() == 0) called_with_empty_stack = true; contract(es, K_A); }
}
typedef void (*EF)(ExtractionState &);
static void obligations(int kind, EF real) {
  std::vector<Token> toks;
  int n = nondet_int(); ASSUME(n >= 1 && n <= EX_N); CEX_n = n; g_n = n;
  for (int i = 0; i < EX_N; i++) {
    int k = nondet_int(); ASSUME(k >= 1 && k <= 38); if (i == n - 1) k = 0;     // interface invariant of the scanner: exactly one T_EOF, last
    Token t; t.t = (Token::Type)k; t.text = (k == Token::INT) ? "7" : "x"; t.file = "m"; t.line = 1 + i; toks.u.d[i] = t; CEX_kind[i] = k;
  }
  toks.n = n;
  ExtractionState es = {.incomplete_macros = {}, .encountered_errors = {}, .tok_pos = 0, .tokens = toks, .output = {}};
  int pos = nondet_int(); ASSUME(pos >= 0 && pos <= n + 1); es.tok_pos = pos; CEX_pos = pos;
  int depth = nondet_int(); ASSUME(depth >= (kind == K_S ? 0 : 1) && depth <= (kind == K_S ? 1 : 2)); CEX_depth = depth;
  for (int i = 0; i < 2; i++) if (i < depth) { MacroDefinition md; md.priority = 0; es.incomplete_macros.push_back(md); }
  called_with_empty_stack = false;
  int e0 = (int)es.encountered_errors.size(), o0 = (int)es.output.size();
  real(es);
  int m1 = (int)es.incomplete_macros.size();
  ASSERT((int)es.tok_pos >= pos + 1, "C02: every step of macro extraction advances the cursor (progress, hence termination)");
  ASSERT(!called_with_empty_stack, "C02: the pattern / body functions are only entered while a macro is under construction");
  if (kind == K_A) ASSERT(m1 == depth, "C02: reading a macro body keeps the stack of macros under construction");
  if (kind == K_D || kind == K_MD) ASSERT(m1 == depth || m1 == depth - 1, "C02: reading a macro pattern keeps the macro under construction or discards exactly it");
  if (kind == K_S) { int o1 = (int)es.output.size(); ASSERT(o1 >= o0 + 1 && es.output[o1 - 1].t == Token::T_EOF, "C02: the extracted token stream ends in the end-of-file token"); }
  bool errs = true; for (int i = 0; i < EX_N + 4; i++) if (i >= e0 && i < (int)es.encountered_errors.size()) errs = errs && es.encountered_errors[i].msg.size() > 0 && es.encountered_errors[i].file == std::string("m") && es.encountered_errors[i].line >= 1 && es.encountered_errors[i].line <= n;
  ASSERT(errs, "C02: every extraction error has a non-empty message and the location of an input token");
  ASSERT(0, "WITNESS: end of extraction obligations reachable");
}
extern "C" {
void harness_exS() { obligations(K_S, S); }
void harness_exD() { obligations(K_D, D); }
void harness_exMD() { obligations(K_MD, MD); }
void harness_exA() { obligations(K_A, A); }
// the tail of extract_macros: insertion indices are range-checked against the number of slots
void harness_extract_tail() {
  std::vector<Token> toks; Token e; e.t = Token::T_EOF; e.text = "EOF"; e.file = "m"; e.line = 1; toks.push_back(e); g_n = 1;
  Theo::MacroExtractionResult r = Theo::extract_macros(toks);     // S is the contract stub: it leaves 0..1 macro; give that macro a symbolic body
  ASSERT(r.tokens.size() >= 1 && r.tokens[r.tokens.size() - 1].t == Token::T_EOF, "C02: the token stream after macro extraction ends in the end-of-file token");
  ASSERT(0, "WITNESS: end of harness_extract_tail reachable");
}
}
