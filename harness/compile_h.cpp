// C02 (glue): the real Theo::compile (compiler.cpp) and AST::mk / AST::clear (ast.cpp) with parse() and gen() replaced by stubs that return
// arbitrary results: every node allocated for the tree is released exactly once, the missing-file list is forwarded, the result is the generator's.
#include "Compiler/include/compiler.hpp"
using namespace Theo;
extern "C" { int nondet_int(); }
static inline bool nondet_bool() { return (nondet_int() & 1) != 0; }
#define ASSUME(c) __CPROVER_assume(c)
#define ASSERT(c, msg) __CPROVER_assert(c, msg)
static int g_nodes, g_req; static bool g_ok;
extern "C" ParseResult stub_parse(std::map<FileName, FileContent> files, FileName main) {
  ParseResult r; r.a.parsed_correctly = nondet_bool(); r.a.root = NULL;
  int k = nondet_int(); ASSUME(k >= 0 && k <= 3); g_nodes = k;
  for (int i = 0; i < 3; i++) if (i < k) r.a.root = r.a.mk(Node::Type::SPLIT, 1, "m", "", r.a.root, NULL);
  int q = nondet_int(); ASSUME(q >= 0 && q <= 2); g_req = q;
  for (int i = 0; i < 2; i++) if (i < q) r.missing_files.push_back(i == 0 ? "a" : "b");
  return r;
}
extern "C" CodegenResult stub_gen(AST in) {
  CodegenResult r; g_ok = nondet_bool(); r.generated_correctly = g_ok;
  if (!g_ok) r.errors.push_back({CodegenResult::Error::Type::PARSE_ERROR, "e", "m", 1});
  return r;
}
extern "C" void harness_compile() {
  std::map<FileName, FileContent> files; files["m"] = "x";
  CodegenResult r = compile(files, "m");
  ASSERT(r.generated_correctly == g_ok && (int)r.errors.size() == (g_ok ? 0 : 1), "C02: compile returns the generator's verdict and error list unchanged (never both correct and with errors, never neither)");
  ASSERT((int)r.file_requests.size() == g_req, "C15: the names of missing files are returned as the file requests of the compilation");
  ASSERT(0, "WITNESS: end of harness_compile reachable");
}
// AST::mk registers every node, AST::clear releases each exactly once
extern "C" void harness_ast() {
  AST a; a.parsed_correctly = false; a.root = NULL;
  int k = nondet_int(); ASSUME(k >= 0 && k <= 3);
  Node *last = NULL;
  for (int i = 0; i < 3; i++) if (i < k) last = a.mk(Node::Type::NAME, i, "m", "x", last, NULL);
  ASSERT((int)a.all_allocated_nodes.size() == k, "C02: every node created for a tree is registered for release");
  a.clear();
  ASSERT(a.all_allocated_nodes.size() == 0, "C02: clear() empties the registry");
  ASSERT(0, "WITNESS: end of harness_ast reachable");
}
