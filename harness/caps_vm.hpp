// capacities of the container model for the VM harnesses (model bounds, see DESIGN.md 2.2)
namespace Theo { struct Instruction; struct BreakPoint; }
namespace std {
template<> struct __cap<Theo::Instruction> { static constexpr int v = VM_L; };
template<> struct __cap<int> { static constexpr int v = VM_DW; };
template<> struct __mcap<Theo::BreakPoint, vector<int>> { static constexpr int v = VM_NLOC; };
template<> struct __mcap<int, Theo::BreakPoint> { static constexpr int v = VM_NSITE; };
template<> struct __scap<Theo::BreakPoint> { static constexpr int v = VM_NLOC; };
}
