// Layer C-tv: translation validation of ONE natively compiled program shape.  The bytecode, tables and the reference code
// come from ctv_data.hpp (generated per shape by lib/ctv.py from /repo's native compiler and lib/theolang.py); every literal
// of the source is a symbolic value lit[k].  The real VM (VM/src/vm.cpp) runs symbolically next to the reference interpreter.
#include CTV_DATA
#define VM_L CTV_NCODE
#define VM_DW CTV_DW
#define VM_R CTV_NR
#define VM_MAXFS CTV_MAXFS
#define VM_MAXARG CTV_MAXARG
#define VM_NLOC 1
#define VM_NSITE 1
#define VM_FUEL 1
#include "vm_common.hpp"

extern "C" { int CEX_lit[CTV_NLIT + 1]; int CEX_nev_vm, CEX_nev_ref, CEX_vm_done, CEX_ref_done, CEX_ref_steps, CEX_vm_steps; }

static long lit[CTV_NLIT + 1];

static void sym_lits() {
  for (int k = 0; k < CTV_NLIT; k++) { int v = nondet_int(); ASSUME(v >= 0 && v <= 2147483645); lit[k] = v; CEX_lit[k] = v; }
  CTV_LIT_BOUNDS
}

static void load_code(VM &vm) {
  V_SETN(vm.code.code, CTV_NCODE, Instruction::Halt());
  for (int i = 0; i < CTV_NCODE; i++) {
    Instruction ins; ins.op = (OpCode)VMCODE[i][0];
    int a = VMCODE[i][1], b = VMCODE[i][2], c = VMCODE[i][3];
    int which = VMCODE[i][4], k = VMCODE[i][5];
    if (which == 2) b = (int)lit[k];
    if (which == 3) c = (int)lit[k];
    if (which == -3) c = -(int)lit[k];
    ins.parameters.test.target = a; ins.parameters.test.op1 = b; ins.parameters.test.op2 = c;
    V_AT(vm.code.code, i) = ins;
  }
}

// C03(ii) / C16: the solver searches a routine annotation under which the compiled program is well-formed (expected: found)
extern "C" void h_wf() {
  sym_lits();
  Program p; VM vm(p);
  load_code(vm);
  Ghost g; sym_ghost(g);
  // C16: calls only go to routines whose code lies entirely before the call
  bool order = true;
  for (int i = 0; i < CTV_NCODE; i++) if (V_AT(vm.code.code, i).op == OpCode::EXEC) for (int j = 0; j < CTV_NCODE; j++) if (g.reg[j] == g.callee[i]) order = order && j < i;
  bool wf = wf_program(vm, g, CTV_NCODE);
  ASSERT(!wf, "C03(EXISTS): a routine annotation under which the compiled program is well-formed (WF: operands inside frames, jumps inside routines, call sequences agree with the callee)");
  ASSERT(!(wf && order), "C16(EXISTS): a well-formed routine annotation in which every call goes to a routine whose code lies entirely before the call (acyclic call graph)");
  // stack maps (read by getActivationVariables): every PREPARE names an existing map whose registers lie inside the frame it creates
  bool sm = true;
  for (int i = 0; i < CTV_NCODE; i++) if (V_AT(vm.code.code, i).op == OpCode::PREPARE_EXEC) {
    int m = V_AT(vm.code.code, i).parameters.prepare.index, cnt = V_AT(vm.code.code, i).parameters.prepare.count;
    sm = sm && m >= 0 && m < CTV_NSMAPS;
    if (sm) sm = SMAP_MAXREG[m] < cnt;
  }
  ASSERT(sm, "C03: every PREPARE names an existing stack map whose registers all lie inside the frame it creates");
  ASSERT(0, "WITNESS: end of h_wf reachable");
}

#ifndef CTV_WF_ONLY
static void load_program(VM &vm) {
  load_code(vm);
  for (int i = 0; i < CTV_NSITES; i++) {
    BreakPoint bp = {SITE_FILE[i] == 0 ? std::string("m") : std::string("i"), SITE_LINE[i]};
#if defined(MINISTL) && defined(CTV_FLAT_TABLES)
    // site-to-location table written directly in slot order (SITE_IDX is increasing); the location-to-sites table is not needed by these entries
    vm.code.line_info.u.d[i].first = SITE_IDX[i]; vm.code.line_info.u.d[i].second = bp; vm.code.line_info.n = i + 1;
#else
    vm.code.line_info[SITE_IDX[i]] = bp;
    vm.code.potential_breaks[bp].push_back(SITE_IDX[i]);
#endif
  }
}

// ---- reference interpreter over REFCODE (desugared goto language, naturals; see lib/theolang.py)
struct RFrame { int r, pc, tgt; long v[CTV_MAXV]; };
struct Ref { RFrame f[CTV_MAXDEPTH + 1]; int depth; bool done; bool in_range; int steps; long cost; };
enum { R_LINE, R_SETC, R_COPY, R_ADDC, R_SUBC, R_JZ, R_JMP, R_IFEQ, R_DEC, R_CALL, R_RET, R_STOP, R_HALT };

// recorded stops
struct Ev { int file, line, depth; int r[CTV_MAXDEPTH + 1]; long v[CTV_MAXDEPTH + 1][CTV_MAXV]; };
static Ev rev[CTV_NEV + 1]; static int n_rev;
struct VEv { int file, line, depth; int dbg[CTV_MAXDEPTH + 1], start[CTV_MAXDEPTH + 1]; int data[CTV_DW]; };
static VEv vev[CTV_NEV + 1]; static int n_vev;

static void ref_init(Ref &R) {
  R.depth = 1; R.done = false; R.in_range = true; R.steps = 0; R.cost = 0;
  R.f[0].r = CTV_NR - 1; R.f[0].pc = 0; R.f[0].tgt = 0;
  for (int k = 0; k <= CTV_MAXDEPTH; k++) for (int i = 0; i < CTV_MAXV; i++) R.f[k].v[i] = 0;
}
static void ref_step(Ref &R) {
  if (R.done) return;
  RFrame &F = R.f[R.depth - 1];
  const int *I = REFCODE[F.r][F.pc];
  int op = I[0], a = I[1], b = I[2], c = I[3];
  R.steps++; R.cost += I[4];   // I[4]: number of VM instructions the construct compiles to (exact, per lib/ctv.py)
  switch (op) {
    case R_LINE: {
      if (n_rev < CTV_NEV) { Ev &e = rev[n_rev]; e.file = a; e.line = b; e.depth = R.depth; for (int k = 0; k <= CTV_MAXDEPTH; k++) if (k < R.depth) { e.r[k] = R.f[k].r; for (int i = 0; i < CTV_MAXV; i++) e.v[k][i] = R.f[k].v[i]; } }
      n_rev++; F.pc++; break; }
    case R_SETC: F.v[a] = lit[b]; F.pc++; break;
    case R_COPY: F.v[a] = F.v[b]; F.pc++; break;
    case R_ADDC: F.v[a] = F.v[b] + lit[c]; if (F.v[a] >= 2147483647L) R.in_range = false; F.pc++; break;
    case R_SUBC: { long x = F.v[b] - lit[c]; F.v[a] = x < 0 ? 0 : x; F.pc++; break; }
    case R_DEC: { long x = F.v[a] - 1; F.v[a] = x < 0 ? 0 : x; F.pc++; break; }
    case R_JZ: F.pc = (F.v[a] == 0) ? b : F.pc + 1; break;
    case R_JMP: F.pc = a; break;
    case R_IFEQ: F.pc = (F.v[a] == lit[b]) ? c : F.pc + 1; break;
    case R_CALL: {
      RFrame &N = R.f[R.depth];
      N.r = b; N.pc = 0; N.tgt = a;
      for (int i = 0; i < CTV_MAXV; i++) N.v[i] = 0;
      for (int k = 0; k < CTV_MAXARG; k++) if (k < REFNPARAMS[b]) N.v[REFPARAMS[b][k]] = F.v[REFARGV[c + k]];
      F.pc++; R.depth++; break; }
    case R_RET: { long val = F.v[a]; int t = F.tgt; R.depth--; R.f[R.depth - 1].v[t] = val; break; }
    case R_STOP: case R_HALT: R.done = true; break;
  }
}

// compare the variable views of a VM stop with a reference event: same activations, every user variable has the reference value
static bool views_equal(const Ev &e, const VEv &v) {
  bool ok = e.depth == v.depth;
  for (int k = 0; k <= CTV_MAXDEPTH; k++) if (k < e.depth) {
    int r = e.r[k];
    ok = ok && v.dbg[k] == REFSMAP[r];
    for (int i = 0; i < CTV_MAXV; i++) if (VARREG[r][i] >= 0) { int idx = v.start[k] + VARREG[r][i]; ok = ok && idx >= 0 && idx < CTV_DW; if (ok) ok = (long)v.data[idx] == e.v[k][i]; }
  }
  return ok;
}

// symbolic debugger request (C05: must not influence the computation): enable/disable a symbolic listed line, clear, or nothing
static void debugger_action(VM &vm) {
  int kind = nondet_int();
  if (kind == 1) {
    int j = nondet_int(); ASSUME(j >= 0 && j < CTV_NSITES);
    bool r = vm.setBreakPoint(SITE_FILE[j] == 0 ? std::string("m") : std::string("i"), SITE_LINE[j], nondet_bool());
    ASSERT(r, "C06: enabling or disabling a location listed as available succeeds");
  } else if (kind == 2) vm.clearBreakpoints();
}

// complete stepping run of vm next to the reference interpreter, with all comparisons; with_actions: symbolic debugger requests at two points of the run
static void run_and_compare(VM &vm, bool with_actions) {
  Ref R; ref_init(R); n_rev = 0; n_vev = 0;
  for (int s = 0; s < CTV_F; s++) ref_step(R);
  ASSUME(R.in_range);                       // C01/C07 are stated for executions whose values stay below 2^31-1
  bool vm_done = false; int vm_steps = 0; int maxdepth = 0;
  for (int s = 0; s < CTV_KV; s++) if (!vm_done) {
    if (with_actions && (s == 0 || s == CTV_KV / 3)) debugger_action(vm);   // two symbolic debugger requests (one per step is intractable)
    OpCode o = V_AT(vm.code.code, vm.instruction_pointer).op;
    bool stop = vm.executeSingle(); vm_steps++;
    if (V_N(vm.stack) > maxdepth) maxdepth = V_N(vm.stack);
    if (o == OpCode::HALT) vm_done = true;
    else if (stop) {
      BreakPoint bp = vm.getCurrentBreak();
      if (n_vev < CTV_NEV) {
        VEv &e = vev[n_vev]; e.line = bp.line; e.file = (bp.file == std::string("m")) ? 0 : (bp.file == std::string("i")) ? 1 : 2; e.depth = V_N(vm.stack);
        for (int k = 0; k <= CTV_MAXDEPTH; k++) if (k < e.depth) { e.dbg[k] = V_AT(vm.stack, k).debug_info; e.start[k] = V_AT(vm.stack, k).data_start; }
        for (int i = 0; i < CTV_DW; i++) e.data[i] = i < V_N(vm.data) ? V_AT(vm.data, i) : 0;
      }
      n_vev++;
    }
  }
  CEX_nev_vm = n_vev; CEX_nev_ref = n_rev; CEX_vm_done = vm_done; CEX_ref_done = R.done; CEX_ref_steps = R.steps; CEX_vm_steps = vm_steps;
  // --- C16: the activation stack never grows beyond the number of program definitions plus one
  ASSERT(maxdepth <= CTV_NR, "C16: activation stack depth <= number of program definitions + 1");
  // --- halting in both directions (budgets: CTV_F reference steps, CTV_KV VM steps; base + cost = VM instructions the reference run corresponds to)
  const long base_cost = 1 + (CTV_NR - 1);   // root PREPARE + one JMP over every program definition
  bool ref_in_budget = R.done && base_cost + R.cost <= CTV_KV;
  if (ref_in_budget) ASSERT(vm_done, "C01: the VM halts when the reference execution halts (within the proportional budget)");
  if (vm_done && vm_steps <= CTV_F) ASSERT(R.done, "C01: the VM does not halt when the reference execution does not");
  if (ref_in_budget && vm_done) {
    ASSERT(vm_steps == base_cost + R.cost, "C16: the VM halts after exactly the number of steps fixed by the reference execution (loop bounds at entry)");
    ASSERT(n_vev == n_rev, "C07: stepping reports exactly as many stops as the reference has line events");
    VEv fin; fin.depth = V_N(vm.stack); fin.line = 0; fin.file = 0;
    for (int k = 0; k <= CTV_MAXDEPTH; k++) if (k < fin.depth) { fin.dbg[k] = V_AT(vm.stack, k).debug_info; fin.start[k] = V_AT(vm.stack, k).data_start; }
    for (int i = 0; i < CTV_DW; i++) fin.data[i] = i < V_N(vm.data) ? V_AT(vm.data, i) : 0;
    Ev rf; rf.depth = R.depth; for (int k = 0; k <= CTV_MAXDEPTH; k++) if (k < R.depth) { rf.r[k] = R.f[k].r; for (int i = 0; i < CTV_MAXV; i++) rf.v[k][i] = R.f[k].v[i]; }
    ASSERT(views_equal(rf, fin), "C01: at the end every user variable of every live activation has its reference value");
  }
  // every stop that both sides reached: same location, same variable views
  bool loc_ok = true, view_ok = true;
  for (int e = 0; e < CTV_NEV; e++) if (e < n_vev && e < n_rev) {
    loc_ok = loc_ok && vev[e].line == rev[e].line && vev[e].file == rev[e].file;
    view_ok = view_ok && views_equal(rev[e], vev[e]);
  }
  ASSERT(loc_ok, "C07: the k-th stop of the stepping run is on the line of the k-th reference line event");
  ASSERT(view_ok, "C07: at every stop every user variable of every activation has its reference value");
  ASSERT(n_vev <= CTV_NEV && n_rev <= CTV_NEV, "ministl: event buffer of the harness (model bound)");
}

extern "C" void h_ctv() {
  sym_lits();
  Program p; VM vm(p);
  load_program(vm);
  vm.setSteppingMode(true);
  run_and_compare(vm, false);
  ASSERT(0, "WITNESS: end of h_ctv reachable");
}

// Stepping run through the public resume call only (C06/C17): execute() until isDone(); every return of execute() is a stop whose location
// and variable views must be those of the next reference line event; at the end further execute()/executeSingle() calls change nothing.
extern "C" void h_ctv_exec() {
  sym_lits();
  Program p; VM vm(p);
  load_program(vm);
  BreakPoint b0 = vm.getCurrentBreak();
  ASSERT(b0.line == -1, "C06: before execution starts no current location is reported");
  vm.setSteppingMode(true);
  Ref R; ref_init(R); n_rev = 0; n_vev = 0;
  for (int s = 0; s < CTV_F; s++) ref_step(R);
  ASSUME(R.in_range);
  const long base_cost = 1 + (CTV_NR - 1);
  ASSUME(R.done && base_cost + R.cost <= CTV_KV && n_rev <= CTV_NEV);     // bound: executions inside the step and event budgets
  bool done = false;
  for (int e = 0; e <= CTV_NEV; e++) if (!done) {
    vm.execute();
    if (vm.isDone() && V_AT(vm.code.code, vm.instruction_pointer - 1 >= 0 ? vm.instruction_pointer - 1 : 0).op != OpCode::POTENTIAL_BREAK) done = true;
    else {
      BreakPoint bp = vm.getCurrentBreak();
      if (n_vev < CTV_NEV) {
        VEv &v = vev[n_vev]; v.line = bp.line; v.file = (bp.file == std::string("m")) ? 0 : (bp.file == std::string("i")) ? 1 : 2; v.depth = V_N(vm.stack);
        for (int k = 0; k <= CTV_MAXDEPTH; k++) if (k < v.depth) { v.dbg[k] = V_AT(vm.stack, k).debug_info; v.start[k] = V_AT(vm.stack, k).data_start; }
        for (int i = 0; i < CTV_DW; i++) v.data[i] = i < V_N(vm.data) ? V_AT(vm.data, i) : 0;
      }
      n_vev++;
    }
  }
  ASSERT(done && vm.isDone(), "C06: resuming repeatedly reaches the end of the program when the reference execution ends");
  ASSERT(n_vev == n_rev, "C06: execute() returns exactly once per breakpoint site on the path while stepping (as many stops as reference line events)");
  bool loc_ok = true, view_ok = true;
  for (int e = 0; e < CTV_NEV; e++) if (e < n_vev && e < n_rev) { loc_ok = loc_ok && vev[e].line == rev[e].line && vev[e].file == rev[e].file; view_ok = view_ok && views_equal(rev[e], vev[e]); }
  ASSERT(loc_ok, "C06: every return of execute() reports the file and line of the site it stopped on");
  ASSERT(view_ok, "C07: at every stop every user variable of every activation has its reference value");
  // absorbing end
  Snap a, b; snap(vm, a); vm.execute(); vm.executeSingle(); vm.execute(); snap(vm, b);
  ASSERT(snap_eq(a, b) && vm.isDone(), "C17: once the end of the program is reached further execute / executeSingle calls change nothing");
  ASSERT(0, "WITNESS: end of h_ctv_exec reachable");
}

// History variant (C17, independent of the representation of the VM): CTV_K1 steps with a symbolic stepping flag, then reset(), then the
// complete stepping run; everything must be as on a fresh machine, i.e. as the reference says.  (Symbolic breakpoint requests inside the
// run were measured intractable - 600 s for two requests on a 16-instruction program - and are covered by the layer-A lemmas of C05/C06.)
#ifndef CTV_K1
#define CTV_K1 0
#endif
extern "C" void h_ctv_hist() {
  sym_lits();
  Program p; VM vm(p);
  load_program(vm);
  vm.setSteppingMode(nondet_bool());
  bool halted = false;
  for (int s = 0; s < CTV_K1; s++) if (!halted) {
    if (V_AT(vm.code.code, vm.instruction_pointer).op == OpCode::HALT) halted = true; else vm.executeSingle();
  }
  int depth_at_reset = V_N(vm.stack);
  vm.reset();
  ASSERT(vm.getCurrentBreak().line == -1 && V_N(vm.getEnabledBreakPoints()) == 0 && !vm.isSteppingModeEnabled() && V_N(vm.getActivations()) == 0, "C17: after reset the machine reports no location, no enabled breakpoint, no stepping, no activation");
  vm.setSteppingMode(true);
  run_and_compare(vm, false);
  (void)depth_at_reset;
  ASSERT(0, "WITNESS: end of h_ctv_hist reachable");
}

// ---------------------------------------------------------------------------------------------------------------------------------------------
// Per-construct SIMULATION obligations (C01, C07, C16 for executions of ANY length, also through loops and jumps): for every position (r, pc) of the
// reference code, from an ARBITRARY pair of related states (VM at the instruction pointer that corresponds to (r, pc); every live reference variable
// equal to its VM register; everything else arbitrary), one reference step and exactly cost(r, pc) real VM steps lead to related states again:
// the VM is at the instruction pointer of the reference successor, the live variables agree, nothing outside the top frame changed, a stop is
// reported exactly for a line event and names its file and line.  Relation + base case give, by induction over the execution, equal stops, equal
// values at every stop, equal halting and the exact step count.  The instruction pointer is concrete in every obligation, which keeps them cheap.
static bool live_at(int r, int pc, int i) { return ((LIVE[r][pc] >> i) & 1U) != 0; }

static void sim_obligation(const int r, const int pc) {
  Program p; VM vm(p);
  load_program(vm);
  vm.setSteppingMode(true);
  const int *I = REFCODE[r][pc];
  const int op = I[0], cost = I[4];
  // ---- pre-state: callee-style routines have their caller's frame below them
  bool has_caller = r != CTV_NR - 1;
  int site = 0;
  if (has_caller) { site = nondet_int(); ASSUME(site >= 0 && site < SIM_NCALLERS); ASSUME(CALLER_CALLEE[site] == r); }
  int cr = has_caller ? CALLER_R[site] : 0, cpc = has_caller ? CALLER_PC[site] : 0;
  int below = nondet_int(); ASSUME(below >= 0 && below <= 2);                 // words of activations further down (irrelevant, must stay unchanged)
  if (!has_caller) ASSUME(below == 0);
  int csize = has_caller ? FSIZE[cr] : 0;
  int base = below + csize;                                                    // start of the top frame
  int dn = base + FSIZE[r]; ASSUME(dn <= CTV_DW);
  V_SETN(vm.data, CTV_DW, 0);
  for (int i = 0; i < CTV_DW; i++) { int v = nondet_int(); ASSUME(v >= 0 && v < 2147483647); V_AT(vm.data, i) = v; }
  V_SETN(vm.data, dn, 0);
  V_SETN(vm.stack, 2, VM::Activation(&vm, 0, 0, 0, 0, 0));
  if (has_caller) {
    V_AT(vm.stack, 0) = VM::Activation(&vm, below, csize, 0, 0, cr);
    V_AT(vm.stack, 1) = VM::Activation(&vm, base, FSIZE[r], FULLREG[cr][CALLER_TGT[site]], IPMAP[cr][cpc + 1], r);
  } else {
    V_AT(vm.stack, 0) = VM::Activation(&vm, 0, FSIZE[r], 0, -1, r);
    V_SETN(vm.stack, 1, VM::Activation(&vm, 0, 0, 0, 0, 0));
  }
  vm.instruction_pointer = IPMAP[r][pc];
  // reference state related to it
  Ref R; ref_init(R); n_rev = 0;
  R.depth = has_caller ? 2 : 1;
  if (has_caller) { R.f[0].r = cr; R.f[0].pc = cpc + 1; R.f[0].tgt = 0; for (int i = 0; i < CTV_MAXV; i++) { int v = nondet_int(); ASSUME(v >= 0); R.f[0].v[i] = v; if (FULLREG[cr][i] >= 0 && live_at(cr, cpc + 1, i)) R.f[0].v[i] = V_AT(vm.data, below + FULLREG[cr][i]); } }
  RFrame &T = R.f[R.depth - 1];
  T.r = r; T.pc = pc; T.tgt = has_caller ? CALLER_TGT[site] : 0;
  for (int i = 0; i < CTV_MAXV; i++) { int v = nondet_int(); ASSUME(v >= 0); T.v[i] = v; if (FULLREG[r][i] >= 0 && live_at(r, pc, i)) T.v[i] = V_AT(vm.data, base + FULLREG[r][i]); }
  int pre_data[CTV_DW]; for (int i = 0; i < CTV_DW; i++) pre_data[i] = i < dn ? V_AT(vm.data, i) : 0;
  // ---- one reference step, cost VM steps
  ref_step(R);
  ASSUME(R.in_range);
  bool stop_last = false, stop_early = false; bool was_halt = false;
  for (int s = 0; s < CTV_MAXCOST; s++) if (s < cost) {
    if (V_AT(vm.code.code, vm.instruction_pointer).op == OpCode::HALT) was_halt = true;
    bool st = vm.executeSingle();
    if (s == cost - 1) stop_last = st; else stop_early = stop_early || st;
  }
  // ---- post-state
  ASSERT(!stop_early, "C07: no stop is reported inside the instructions of one construct");
  if (op == R_STOP || op == R_HALT) {
    ASSERT(was_halt && stop_last && vm.isDone(), "C01: the machine is at its end exactly when the reference execution ends (STOP halts the whole machine)");
  } else {
    const RFrame &N = R.f[R.depth - 1];
    ASSERT(!was_halt, "C01: the VM does not halt where the reference execution continues");
    ASSERT(vm.instruction_pointer == IPMAP[N.r][N.pc], "C01: after the construct the VM is at the instruction that corresponds to the reference successor (same control flow, exact step count)");
    ASSERT(stop_last == (op == R_LINE), "C07: a stop is reported exactly for the line event of a statement, loop header, END or label");
    if (op == R_LINE) { BreakPoint bp = vm.getCurrentBreak(); ASSERT(bp.line == I[2] && bp.file == (I[1] == 0 ? std::string("m") : std::string("i")), "C07: the stop names the file and line of the construct"); }
    ASSERT(V_N(vm.stack) == R.depth, "C16: the VM has exactly the activations of the reference execution");
    int nbase = V_AT(vm.stack, R.depth - 1).data_start;
    if (op == R_CALL) ASSERT(nbase == dn && V_AT(vm.stack, R.depth - 1).seg_size == FSIZE[N.r] && V_AT(vm.stack, R.depth - 1).debug_info == N.r, "C01: a call creates the callee's frame on top of the caller's");
    else if (op == R_RET) ASSERT(nbase == below && V_N(vm.data) == base, "C01: a return resumes the caller and releases the callee's frame");
    else ASSERT(nbase == base && V_N(vm.data) == dn, "C01: a construct other than call/return keeps the activation stack");
    bool rel = true;
    for (int i = 0; i < CTV_MAXV; i++) if (FULLREG[N.r][i] >= 0 && live_at(N.r, N.pc, i)) { int idx = nbase + FULLREG[N.r][i]; rel = rel && idx >= 0 && idx < V_N(vm.data); if (rel) rel = (long)V_AT(vm.data, idx) == N.v[i]; }
    ASSERT(rel, "C01: after the construct every live variable of the running activation has its reference value");
    // frame condition: words below the running activation are untouched (a return writes exactly its target)
    bool frame = true;
    int keep = (op == R_RET) ? base : base;   // words [0, keep) belong to older activations or (after RET) to the caller
    for (int i = 0; i < CTV_DW; i++) if (i < (op == R_RET ? base : base)) {
      bool is_target = op == R_RET && i == below + FULLREG[cr][CALLER_TGT[site]];
      if (!is_target) frame = frame && V_AT(vm.data, i) == pre_data[i];
    }
    ASSERT(frame, "C01: a construct changes no word of an older activation (except the return target)");
    (void)keep;
  }
  ASSERT(0, "WITNESS: end of sim_obligation reachable");
}

// one entry per reference position (separate solver queries, run in parallel)
#define SIM_ENTRY(k) extern "C" void h_sim_##k() { sym_lits(); sim_obligation(SIM_R[(k) < SIM_NOPS ? (k) : 0], SIM_PC[(k) < SIM_NOPS ? (k) : 0]); }
SIM_ENTRY(0) SIM_ENTRY(1) SIM_ENTRY(2) SIM_ENTRY(3) SIM_ENTRY(4) SIM_ENTRY(5) SIM_ENTRY(6) SIM_ENTRY(7) SIM_ENTRY(8) SIM_ENTRY(9)
SIM_ENTRY(10) SIM_ENTRY(11) SIM_ENTRY(12) SIM_ENTRY(13) SIM_ENTRY(14) SIM_ENTRY(15) SIM_ENTRY(16) SIM_ENTRY(17) SIM_ENTRY(18) SIM_ENTRY(19)
SIM_ENTRY(20) SIM_ENTRY(21) SIM_ENTRY(22) SIM_ENTRY(23) SIM_ENTRY(24) SIM_ENTRY(25) SIM_ENTRY(26) SIM_ENTRY(27) SIM_ENTRY(28) SIM_ENTRY(29)
SIM_ENTRY(30) SIM_ENTRY(31) SIM_ENTRY(32) SIM_ENTRY(33) SIM_ENTRY(34) SIM_ENTRY(35) SIM_ENTRY(36) SIM_ENTRY(37) SIM_ENTRY(38) SIM_ENTRY(39)

// base case of the simulation: the constructed machine reaches the first reference position of the main program with an all-zero frame
extern "C" void h_sim_base() {
  sym_lits();
  Program p; VM vm(p);
  load_program(vm);
  vm.setSteppingMode(true);
  bool stop = false;
  for (int s = 0; s < CTV_NR; s++) stop = stop || vm.executeSingle();     // root PREPARE + one JMP per definition
  ASSERT(!stop && vm.instruction_pointer == IPMAP[CTV_NR - 1][0], "C01: execution starts at the first construct of the main program");
  bool zero = V_N(vm.stack) == 1 && V_AT(vm.stack, 0).data_start == 0 && V_AT(vm.stack, 0).seg_size == FSIZE[CTV_NR - 1] && V_AT(vm.stack, 0).debug_info == CTV_NR - 1 && V_N(vm.data) == FSIZE[CTV_NR - 1];
  for (int i = 0; i < CTV_DW; i++) if (i < V_N(vm.data)) zero = zero && V_AT(vm.data, i) == 0;
  ASSERT(zero, "C01: all variables of the main program are zero-initialised");
  ASSERT(0, "WITNESS: end of h_sim_base reachable");
}

#endif  // CTV_WF_ONLY

#ifndef MINISTL
NATIVE_MAIN(NATIVE_ENTRY)
#endif
