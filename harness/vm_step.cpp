// Layer A harnesses over the real VM::executeSingle / debugger methods: ONE call from an ARBITRARY state that
// satisfies WF (program) and Inv (state).  Because Inv is re-established by every call (asserted here), the
// per-call facts hold along histories of any length.  Assertion texts start with the property id they serve.
#include "vm_common.hpp"

static void build(VM &vm, Ghost &g, int &n, bool with_sites, Sites &s) {
  sym_code(vm, n);
  sym_ghost(g);
  sym_state(vm, n);
  if (with_sites) { sym_sites(vm, n, s); ASSUME(sites_consistent(vm, n, s)); }
  ASSUME(wf_program(vm, g, n));
  ASSUME(inv_state(vm, g, n));
  ASSUME(inv_nat(vm));
}

// ---------------------------------------------------------------------------------------------------------
// C03 / C19 / C20: one step keeps the machine inside its arrays, keeps the memory geometry, keeps values natural
extern "C" void h_step_safe() {
  Program p; VM vm(p); Ghost g; int n; Sites s;
  build(vm, g, n, false, s);
  vm.executeSingle();
  // (no "(UB)" assertion of the container model and no pointer check may fail in this step: they are separate properties)
  ASSERT(vm.instruction_pointer >= 0 && vm.instruction_pointer < n, "C03: instruction pointer stays inside the code");
  ASSERT(inv_type(vm, g, n), "C03: activation stack still types against the program (Inv preserved)");
  ASSERT(inv_geom(vm), "C19: data memory is exactly the contiguous frames of the live activations");
  ASSERT(inv_nat(vm), "C20: every stored value is a natural number");
  ASSERT(0, "WITNESS: end of h_step_safe reachable");
}

// ---------------------------------------------------------------------------------------------------------
// C01(a) / C06 / C17 / C05: the step equals the reference semantics, reports stops by the rule, and touches nothing else
extern "C" void h_step_ref() {
  Program p; VM vm(p); Ghost g; int n; Sites s;
  build(vm, g, n, true, s);
  Snap pre, post, want; snap(vm, pre); want = pre;
  Instruction I = V_AT(vm.code.code, vm.instruction_pointer);
  Program code_before = vm.code;
  bool stepping = vm.stepping_mode_enabled;
  int en_before = V_N(vm.enabled_breakpoints);
  bool want_stop = ref_step(I, stepping, want);
  // C01 is stated for executions whose values stay below 2^31-1
  bool in_range = true;
  if (I.op == OpCode::ADD_CONST) { long v = (long)pre.data[pre.fstart[pre.sn - 1] + I.parameters.add.source] + (long)I.parameters.add.constant; in_range = v < 2147483647L; }
  bool stop = vm.executeSingle();
  snap(vm, post);
  if (in_range) {
    ASSERT(snap_eq(post, want), "C01: post-state of the instruction equals its reference semantics");
  }
  ASSERT(stop == want_stop, "C06: a stop is reported exactly for BREAK, for POTENTIAL_BREAK while stepping, and for HALT");
  if (I.op == OpCode::HALT) ASSERT(snap_eq(post, pre), "C17: a step at the end of the program changes nothing");
  // frame condition: a step never edits the program, the tables, the enabled set or the stepping flag
  bool same = V_N(vm.code.code) == V_N(code_before.code);
  for (int i = 0; i < VM_L; i++) if (i < n) same = same && V_AT(vm.code.code, i).op == V_AT(code_before.code, i).op && V_AT(vm.code.code, i).parameters.test.target == V_AT(code_before.code, i).parameters.test.target && V_AT(vm.code.code, i).parameters.test.op1 == V_AT(code_before.code, i).parameters.test.op1 && V_AT(vm.code.code, i).parameters.test.op2 == V_AT(code_before.code, i).parameters.test.op2;
  ASSERT(same, "C05: executing an instruction leaves the code unchanged");
  ASSERT(vm.stepping_mode_enabled == stepping && V_N(vm.enabled_breakpoints) == en_before && V_N(vm.code.line_info) == V_N(code_before.line_info) && V_N(vm.code.potential_breaks) == V_N(code_before.potential_breaks), "C05: executing an instruction leaves debugger settings unchanged");
  // C06: location reported after a stop at a site
  if (stop && is_site_op(I.op)) {
    BreakPoint bp = vm.getCurrentBreak();
    bool found = false; int j = 0;
    for (int k = 0; k < VM_NSITE; k++) if (k < s.nsite && s.site[k] == pre.ip) { found = true; j = s.loc[k]; }
    ASSERT(found, "C06: (harness) a PB/BREAK instruction is a listed site");
    ASSERT(bp.line == s.line[j < VM_NLOC ? j : 0] && bp.file == fname(s.file[j < VM_NLOC ? j : 0]), "C06: after a stop the current location is the site's file and line");
  }
  ASSERT(0, "WITNESS: end of h_step_ref reachable");
}

// ---------------------------------------------------------------------------------------------------------
// C06: before execution starts the current location is "none"
extern "C" void h_fresh() {
  Program p; VM vm0(p); Ghost g; int n; Sites s;
  build(vm0, g, n, true, s);
  VM vm(vm0.code);
  ASSERT(vm.instruction_pointer == 0 && V_N(vm.stack) == 0 && V_N(vm.data) == 0 && !vm.stepping_mode_enabled && V_N(vm.enabled_breakpoints) == 0, "C17: a constructed machine starts empty");
  BreakPoint bp = vm.getCurrentBreak();
  ASSERT(bp.line == -1 && bp.file == std::string("none"), "C06: before execution starts no current location is reported");
  ASSERT(0, "WITNESS: end of h_fresh reachable");
}

// ---------------------------------------------------------------------------------------------------------
// C05 Lemma D / C06 Inv_en: a debugger request changes nothing but PB<->BREAK at listed sites and the enabled set
extern "C" void h_debug_op() {
  Program p; VM vm(p); Ghost g; int n; Sites s;
  build(vm, g, n, true, s);
  Snap pre, post; snap(vm, pre);
  Program code_before = vm.code;
  bool stepping_before = vm.stepping_mode_enabled;
  int kind = nondet_int(); ASSUME(kind >= 0 && kind <= 5); CEX_op_kind = kind;
  int af = nondet_int(); ASSUME(af >= 0 && af <= 1); int al = nondet_int(); bool av = nondet_bool();
  CEX_arg_file = af; CEX_arg_line = al; CEX_arg_val = av;
  bool want_en[VM_NLOC]; for (int j = 0; j < VM_NLOC; j++) want_en[j] = s.en[j];
  bool want_step = stepping_before;
  BreakPoint cb0 = vm.getCurrentBreak();
  switch (kind) {
    case 0: {
      bool ret = vm.setBreakPoint(fname(af), al, av);
      bool listed = false;
      for (int j = 0; j < VM_NLOC; j++) if (j < s.nloc && s.file[j] == af && s.line[j] == al) { listed = true; want_en[j] = av; }
      ASSERT(ret == listed, "C06: enabling/disabling succeeds exactly for locations listed as available");
      break;
    }
    case 1: vm.clearBreakpoints(); for (int j = 0; j < VM_NLOC; j++) want_en[j] = false; break;
    case 2: vm.setSteppingMode(av); want_step = av; break;
    case 3: { bool b = vm.isSteppingModeEnabled(); ASSERT(b == stepping_before, "C06: stepping mode getter reports the flag"); break; }
    case 4: { BreakPoint b = vm.getCurrentBreak(); (void)b; break; }
    case 5: { bool d = vm.isDone(); ASSERT(d == (V_AT(vm.code.code, pre.ip).op == OpCode::HALT), "C06: isDone reports HALT at the instruction pointer"); break; }
  }
  snap(vm, post);
  { BreakPoint cb1 = vm.getCurrentBreak();
    ASSERT(cb1.line == cb0.line && cb1.file == cb0.file, "C06: the reported current location is decided by where execution stopped: enabling, disabling, clearing or switching stepping mode does not change it"); }
  ASSERT(snap_eq(post, pre), "C05: a debugger request leaves instruction pointer, data and activations unchanged");
  ASSERT(vm.stepping_mode_enabled == want_step, "C05: only setSteppingMode changes the stepping flag");
  // code: identical except PB<->BREAK at listed sites, and there according to the updated enabled set
  bool same = V_N(vm.code.code) == V_N(code_before.code), sites_ok = true;
  for (int i = 0; i < VM_L; i++) if (i < n) {
    const Instruction &A = V_AT(vm.code.code, i), &B = V_AT(code_before.code, i);
    bool is_site = false; int j = 0;
    for (int k = 0; k < VM_NSITE; k++) if (k < s.nsite && s.site[k] == i) { is_site = true; j = s.loc[k] < VM_NLOC ? s.loc[k] : 0; }
    same = same && A.parameters.test.target == B.parameters.test.target && A.parameters.test.op1 == B.parameters.test.op1 && A.parameters.test.op2 == B.parameters.test.op2;
    if (!is_site) same = same && A.op == B.op;
    else sites_ok = sites_ok && A.op == (want_en[j] ? OpCode::BREAK : OpCode::POTENTIAL_BREAK);
  }
  ASSERT(same, "C05: a debugger request changes no instruction other than the opcode of a listed breakpoint site");
  ASSERT(sites_ok, "C06: a site is armed exactly when its location is enabled");
  // enabled set == successful enables minus disables/clears
  int cnt = 0; bool members = true;
  for (int j = 0; j < VM_NLOC; j++) if (j < s.nloc && want_en[j]) { cnt++; BreakPoint b = {fname(s.file[j]), s.line[j]}; members = members && vm.enabled_breakpoints.contains(b); }
  ASSERT(members && V_N(vm.enabled_breakpoints) == cnt && (int)vm.getEnabledBreakPoints().size() == cnt, "C06: the enabled set equals the successful enables minus the disables and clears");
  // tables untouched
  bool tabs = tables_match(vm, s);
  ASSERT(tabs, "C05: a debugger request leaves the breakpoint tables unchanged");
  ASSERT(0, "WITNESS: end of h_debug_op reachable");
}

// ---------------------------------------------------------------------------------------------------------
// C05 Lemma S (2-safety): two machines that agree on (ip, data, stack) and on the code modulo PB/BREAK at sites,
// with arbitrary (different) stepping flags, agree again after one step each.
extern "C" void h_twin_step() {
  Program p; VM vm(p); Ghost g; int n; Sites s;
  build(vm, g, n, true, s);
  VM tw(vm.code);
  tw.instruction_pointer = vm.instruction_pointer; tw.data = vm.data; tw.stack = vm.stack;
  for (int k = 0; k <= VM_F; k++) V_AT(tw.stack, k).vm = &tw;
  tw.stepping_mode_enabled = nondet_bool();
  // twin: every site in the opposite arbitrary arming
  for (int k = 0; k < VM_NSITE; k++) if (k < s.nsite) tw.code.code[s.site[k]].op = nondet_bool() ? OpCode::BREAK : OpCode::POTENTIAL_BREAK;
  vm.executeSingle(); tw.executeSingle();
  Snap a, b; snap(vm, a); snap(tw, b);
  ASSERT(snap_eq(a, b), "C05: arming of breakpoint sites and stepping mode do not influence the effect of a step");
  ASSERT(0, "WITNESS: end of h_twin_step reachable");
}

// ---------------------------------------------------------------------------------------------------------
// C17: reset() from an arbitrary state equals, field by field, a machine constructed on the original program
extern "C" void h_reset() {
  Program p; VM vm(p); Ghost g; int n; Sites s;
  build(vm, g, n, true, s);
  // the program the machine was constructed with: every site passive
  Program orig = vm.code;
  for (int k = 0; k < VM_NSITE; k++) if (k < s.nsite) orig.code[s.site[k]].op = OpCode::POTENTIAL_BREAK;
  VM fresh(orig);
  vm.reset();
  bool eq = vm.instruction_pointer == fresh.instruction_pointer && vm.stepping_mode_enabled == fresh.stepping_mode_enabled && V_N(vm.data) == V_N(fresh.data) && V_N(vm.stack) == V_N(fresh.stack) && V_N(vm.enabled_breakpoints) == V_N(fresh.enabled_breakpoints);
  ASSERT(eq, "C17: after reset there are no activations, no data, no enabled breakpoints, stepping is off, ip is 0");
  ASSERT(inv_geom(vm) && V_N(vm.data) == 0, "C19: after reset the data memory is exactly the (empty) set of live frames");
  ASSERT(fresh.instruction_pointer == 0 && V_N(fresh.data) == 0 && V_N(fresh.stack) == 0 && V_N(fresh.enabled_breakpoints) == 0 && !fresh.stepping_mode_enabled, "C17: (fresh machine is empty)");
  bool codeq = V_N(vm.code.code) == V_N(fresh.code.code);
  for (int i = 0; i < VM_L; i++) if (i < n) { const Instruction &A = V_AT(vm.code.code, i), &B = V_AT(fresh.code.code, i); codeq = codeq && A.op == B.op && A.parameters.test.target == B.parameters.test.target && A.parameters.test.op1 == B.parameters.test.op1 && A.parameters.test.op2 == B.parameters.test.op2; }
  ASSERT(codeq, "C17: after reset every breakpoint site is back to its passive form and the code equals the original");
  ASSERT(codeq && V_N(vm.enabled_breakpoints) == 0, "C06: a reset empties the enabled set and disarms every site (a site is armed exactly when its location is enabled)");
  BreakPoint bp = vm.getCurrentBreak();
  ASSERT(bp.line == -1, "C17: after reset no current location is reported");
  bool tabs = tables_match(vm, s) && tables_match(fresh, s);
  ASSERT(tabs, "C17: reset leaves the breakpoint tables as constructed");
  ASSERT(0, "WITNESS: end of h_reset reachable");
}

// ---------------------------------------------------------------------------------------------------------
// C06/C17: execute() = repeat executeSingle until it reports a stop: stops at the FIRST position where the rule fires
extern "C" void h_execute() {
  Program p; VM vm(p); Ghost g; int n; Sites s;
  build(vm, g, n, false, s);
  // shadow run with the reference rule, VM_FUEL steps at most
  VM sh(vm.code); sh.instruction_pointer = vm.instruction_pointer; sh.data = vm.data; sh.stack = vm.stack; sh.stepping_mode_enabled = vm.stepping_mode_enabled;
  for (int k = 0; k <= VM_F; k++) V_AT(sh.stack, k).vm = &sh;
  int steps = 0; bool stopped = false;
  for (int f = 0; f < VM_FUEL; f++) if (!stopped) {
    ASSUME(inv_state(sh, g, n) && V_N(sh.stack) <= VM_F && V_N(sh.data) <= VM_DW - VM_MAXFS);
    OpCode o = V_AT(sh.code.code, sh.instruction_pointer).op;
    bool fire = o == OpCode::BREAK || o == OpCode::HALT || (o == OpCode::POTENTIAL_BREAK && sh.stepping_mode_enabled);
    sh.executeSingle(); steps++;
    if (fire) stopped = true;
  }
  ASSUME(stopped);   // bound: the stop lies within VM_FUEL steps
  vm.execute();
  Snap a, b; snap(vm, a); snap(sh, b);
  ASSERT(snap_eq(a, b), "C06: resuming stops at the first position on the path where the stop rule fires");
  bool was_halt = V_AT(vm.code.code, vm.instruction_pointer).op == OpCode::HALT;
  if (was_halt) { Snap c; vm.execute(); snap(vm, c); ASSERT(snap_eq(a, c), "C17: execute() at the end of the program changes nothing"); }
  ASSERT(0, "WITNESS: end of h_execute reachable");
}

// ---------------------------------------------------------------------------------------------------------
// C18: distinct VM instances never influence one another: any call on one machine leaves every field of another machine unchanged
extern "C" void h_two_vms() {
  Program p; VM vm(p); Ghost g; int n; Sites s;
  build(vm, g, n, true, s);
  // a second machine on the same program in an arbitrary (unrelated) state
  VM other(vm.code);
  int oip = nondet_int(); ASSUME(oip >= 0 && oip < n); other.instruction_pointer = oip;
  other.stepping_mode_enabled = nondet_bool();
  V_SETN(other.data, VM_DW, 0);
  for (int i = 0; i < VM_DW; i++) V_AT(other.data, i) = nondet_int();
  int odn = nondet_int(); ASSUME(odn >= 0 && odn <= VM_DW); V_SETN(other.data, odn, 0);
  V_SETN(other.stack, 1, VM::Activation(&other, 0, 0, 0, 0, 0));
  V_AT(other.stack, 0) = VM::Activation(&other, 0, nondet_int(), nondet_int(), nondet_int(), nondet_int());
  for (int k = 0; k < VM_NSITE; k++) if (k < s.nsite) V_AT(other.code.code, s.site[k]).op = nondet_bool() ? OpCode::BREAK : OpCode::POTENTIAL_BREAK;
  Snap before, after; snap(other, before);
  Program code_before = other.code; bool step_before = other.stepping_mode_enabled; int en_before = V_N(other.enabled_breakpoints);
  int kind = nondet_int(); ASSUME(kind >= 0 && kind <= 4); CEX_op_kind = kind;
  int af = nondet_int(); ASSUME(af >= 0 && af <= 1);
  switch (kind) {
    case 0: vm.executeSingle(); break;
    case 1: vm.reset(); break;
    case 2: vm.setBreakPoint(fname(af), nondet_int(), nondet_bool()); break;
    case 3: vm.clearBreakpoints(); break;
    case 4: vm.setSteppingMode(nondet_bool()); break;
  }
  snap(other, after);
  bool same = snap_eq(before, after) && other.stepping_mode_enabled == step_before && V_N(other.enabled_breakpoints) == en_before && V_N(other.code.code) == V_N(code_before.code);
  for (int i = 0; i < VM_L; i++) if (i < n) same = same && V_AT(other.code.code, i).op == V_AT(code_before.code, i).op && V_AT(other.code.code, i).parameters.test.target == V_AT(code_before.code, i).parameters.test.target;
  ASSERT(same, "C18: a call on one VM instance changes no field of another instance");
  ASSERT(0, "WITNESS: end of h_two_vms reachable");
}

// C18: the only writable globals of the VM library (the opcode name table) are never written by the code that reads them
#ifdef MINISTL
extern std::string op_to_str[];
extern "C" void h_globals_vm() {
  Program p; VM vm(p); Ghost g; int n; Sites s;
  build(vm, g, n, true, s);
  std::string snap0[11]; for (int i = 0; i < 11; i++) snap0[i] = op_to_str[i];
  std::ostream o;
  vm.code.disassemble(o);
  std::set<BreakPoint> av = vm.code.getAvailableBreakpoints();
  bool same = true; for (int i = 0; i < 11; i++) same = same && snap0[i].n == op_to_str[i].n && snap0[i].b[0] == op_to_str[i].b[0] && snap0[i].b[1] == op_to_str[i].b[1] && snap0[i].b[2] == op_to_str[i].b[2];
  ASSERT(same, "C18: the opcode name table (a writable global) is not modified by disassembling a program");
  ASSERT((int)av.size() == s.nloc, "C08: the list of available breakpoints has one entry per location of the table");
  ASSERT(0, "WITNESS: end of h_globals_vm reachable");
}
#endif

#ifndef MINISTL
NATIVE_MAIN(NATIVE_ENTRY)
#endif
