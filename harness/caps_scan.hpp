// capacities of the container model for the Theo::scan harness (C15, scan part of C14/C02); model bounds, see DESIGN.md 2.2
// SC_NF files, SC_NE script entries per file, SC_V file visits (scanners created) per run -> derived sizes as in harness/scan_h.cpp
namespace Theo { struct Token; struct ParseError; }
struct Scanner;
namespace std {
template<> struct __cap<Theo::Token> { static constexpr int v = SC_V * SC_NE - 2 * (SC_V - 1) + 1; };   // every output token + T_EOF
template<> struct __cap<Theo::ParseError> { static constexpr int v = 2 * SC_V + 1; };
template<> struct __cap<Scanner> { static constexpr int v = SC_NF + 1; };                             // lex_stack: depth <= files (+1 slack)
template<> struct __mcap<string, string> { static constexpr int v = SC_NF + 1; };
}
