// capacities of the container model for the generator-side harness gen_tables.cpp (model bounds, see DESIGN.md 2.2).
// GEN_L = instructions in the pre-state, GEN_NSITE = breakpoint sites, GEN_NLOC = locations; every capacity leaves room for
// the ONE element a call under test may add, so that no "(model bound)" assertion is reachable from a state inside the bounds.
#ifndef GEN_L
#error "GEN_L, GEN_NSITE, GEN_NLOC must be defined"
#endif
#ifndef GEN_NODES
#define GEN_NODES 1
#endif
#ifndef GEN_REGS
#define GEN_REGS 1
#endif
namespace Theo { struct Instruction; struct BreakPoint; struct Node; }
struct VReg;
namespace std {
template<> struct __cap<Theo::Instruction> { static constexpr int v = GEN_L + 1; };
template<> struct __cap<int> { static constexpr int v = GEN_NSITE + 1; };                 // sites of one location; labels; backpatch list
template<> struct __mcap<Theo::BreakPoint, vector<int>> { static constexpr int v = GEN_NLOC + 1; };
template<> struct __mcap<int, Theo::BreakPoint> { static constexpr int v = GEN_NSITE + 1; };
template<> struct __scap<Theo::BreakPoint> { static constexpr int v = GEN_NLOC + 1; };
template<> struct __cap<Theo::Node*> { static constexpr int v = GEN_NODES; };
template<> struct __cap<VReg> { static constexpr int v = GEN_REGS; };
template<> struct __mcap<int, string> { static constexpr int v = GEN_REGS; };              // Program::StackMap::map
}
