// capacities of the container model for the C-tv harness (per shape, passed on the command line)
namespace Theo { struct Instruction; struct BreakPoint; }
namespace std {
template<> struct __cap<Theo::Instruction> { static constexpr int v = VM_CAPS_L; };
template<> struct __cap<int> { static constexpr int v = VM_CAPS_DW; };
template<> struct __mcap<Theo::BreakPoint, vector<int>> { static constexpr int v = VM_CAPS_NSITE; };
template<> struct __mcap<int, Theo::BreakPoint> { static constexpr int v = VM_CAPS_NSITE; };
template<> struct __scap<Theo::BreakPoint> { static constexpr int v = VM_CAPS_NSITE; };
}
