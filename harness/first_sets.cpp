// C13, FIRST sets on a SYMBOLIC grammar: the real Grammar::calculateFirstSets and Grammar::first (Compiler/src/ParserGenerator/grammar.cpp)
// against the textbook definition.
//
// Grammar: nonterminals A (0) and B (1); each has 0..FS_ALTS alternatives (symbolic count); alternative k has FS_LEN(k) symbol positions; every
// position is a symbolic choice among { terminal 0, terminal 1, A, B, absent, explicit epsilon symbol } (absent/epsilon: the alternative is shorter;
// all positions absent: an epsilon alternative).  This covers left/right/mutual recursion, epsilon rules, unproductive and unreachable symbols.
// The grammar is built through the real SemanticGrammar<int>::add.
// Reference: FIRST as bit sets {t0, t1, eps}, least fixpoint by FS_ROUNDS rounds of the textbook rules (constant loops); that the fixpoint is reached
// within FS_ROUNDS rounds is itself asserted (as a bound of the reference, not as a claim).
//
// STATUS (measured, CBMC 6.11, flat container model): NOT part of the C13 verdict - this obligation does not finish.  first_sets is a
// map<Symbol, set<Symbol>>; every access with a symbolic key is a nested selection among constant-index addresses (map slot, then set element), and
// calculateFirstSets writes through references into those nested sets.  Results: full size and the reduced size (2 + 1 symbols): no end of symbolic
// execution in 600 s; ONE alternative with ONE symbolic symbol and minimal capacities: no end of symbolic execution in 600 s; a fully concrete
// grammar (everything constant-folds) with only first(X Y) symbolic: 147 000 steps, 25 M variables, 111 M clauses, no answer in 300 s.
// lib/lrtv.py runs it only when VERIF_C13_FIRST_SYMBOLIC=<timeout in s> is set.  The verdict on FIRST comes from (a) the exhaustive native
// comparison of the real calculateFirstSets/first with the textbook fixpoint on every enumerated grammar (lrtv.compare_first) and (b) the solver-side
// containment check against the derivation table in harness/lr_parse.cpp (LR_CHECK_FIRST).
#include <functional>
#include <map>
#include <set>
#include <vector>
#include "Compiler/include/ParserGenerator/grammar.hpp"
using namespace Theo;
extern "C" { int nondet_int(); }
#define ASSUME(c) __CPROVER_assume(c)
#define ASSERT(c, msg) __CPROVER_assert(c, msg)
#ifndef FS_ALTS
#define FS_ALTS 2
#endif
#ifndef FS_LEN0
#define FS_LEN0 2      /* symbol positions of the first alternative of each nonterminal */
#endif
#ifndef FS_LEN1
#define FS_LEN1 2      /* ... of the second alternative */
#endif
#ifndef FS_ROUNDS
#define FS_ROUNDS 5
#endif
#define FS_MAXLEN 2
enum { C_T0 = 0, C_T1 = 1, C_A = 2, C_B = 3, C_ABSENT = 4, C_EPS = 5 };
enum { B_T0 = 1, B_T1 = 2, B_EPS = 4 };

extern "C" { int CEX_nalt[2], CEX_sym[2][FS_ALTS][FS_MAXLEN], CEX_real[2], CEX_ref[2], CEX_x, CEX_y, CEX_first_real, CEX_first_ref, CEX_maxterm; }

static int nalt[2];
static int sym[2][FS_ALTS][FS_MAXLEN];   // choices

static Grammar::Symbol mk(int c) {
  Grammar::Symbol s;
  if (c == C_T0) { s.t = Grammar::Symbol::TERMINAL; s.index = 0; }
  else if (c == C_T1) { s.t = Grammar::Symbol::TERMINAL; s.index = 1; }
  else if (c == C_A) { s.t = Grammar::Symbol::NON_TERMINAL; s.index = 0; }
  else if (c == C_B) { s.t = Grammar::Symbol::NON_TERMINAL; s.index = 1; }
  else { s.t = Grammar::Symbol::EPSILON; s.index = 0; }
  return s;
}

// FIRST of one symbol choice under the current approximation f[A], f[B]
static int first_of(int c, const int f[2]) { return c == C_T0 ? B_T0 : c == C_T1 ? B_T1 : c == C_A ? f[0] : c == C_B ? f[1] : B_EPS; }

static void ref_round(int f[2]) {
  for (int x = 0; x < 2; x++) for (int k = 0; k < FS_ALTS; k++) if (k < nalt[x]) {
    int acc = 0; bool all_eps = true;
    for (int i = 0; i < FS_MAXLEN; i++) {
      int c = sym[x][k][i];
      if (c == C_ABSENT || c == C_EPS) continue;              // not a symbol of the alternative
      if (all_eps) { int fs = first_of(c, f); acc |= fs & (B_T0 | B_T1); if (!(fs & B_EPS)) all_eps = false; }
    }
    if (all_eps) acc |= B_EPS;
    f[x] |= acc;
  }
}

static int set_bits(const std::set<Grammar::Symbol> &s, bool &clean) {
  int b = 0;
  for (int i = 0; i < std::set<Grammar::Symbol>::SCAP; i++) if (i < s.n) {
    const Grammar::Symbol &e = s.u.d[i];
    if (e.t == Grammar::Symbol::TERMINAL && e.index == 0) b |= B_T0;
    else if (e.t == Grammar::Symbol::TERMINAL && e.index == 1) b |= B_T1;
    else if (e.t == Grammar::Symbol::EPSILON) b |= B_EPS;
    else clean = false;                                        // a nonterminal or an unknown terminal inside a FIRST set
  }
  return b;
}

extern "C" void h_first_sets() {
  SemanticGrammar<int> G;
  Grammar::Symbol A = G.createNonTerminal(), B = G.createNonTerminal();
  bool used_t0 = false, used_t1 = false;
  for (int x = 0; x < 2; x++) {
    nalt[x] = nondet_int(); ASSUME(nalt[x] >= 0 && nalt[x] <= FS_ALTS); CEX_nalt[x] = nalt[x];
    for (int k = 0; k < FS_ALTS; k++) {
      std::vector<Grammar::Symbol> alt;
      for (int i = 0; i < FS_MAXLEN; i++) {
        int c = nondet_int(); ASSUME(c >= 0 && c <= C_EPS);
        if (i >= (k == 0 ? FS_LEN0 : FS_LEN1)) ASSUME(c == C_ABSENT);
        sym[x][k][i] = c; CEX_sym[x][k][i] = c;
        if (c != C_ABSENT) { alt.u.d[alt.n] = mk(c); alt.n++; }        // explicit epsilon symbols are passed to add(), which removes them
        if (k < nalt[x]) { used_t0 = used_t0 || c == C_T0; used_t1 = used_t1 || c == C_T1; }
      }
      if (k < nalt[x]) G.add(std::make_pair(x == 0 ? A : B, alt), [](std::vector<int> v) -> int { return 0; });
    }
  }
  // ---- reference
  int f[2] = {0, 0};
  for (int r = 0; r < FS_ROUNDS; r++) ref_round(f);
  int g2[2] = {f[0], f[1]}; ref_round(g2);
  ASSERT(g2[0] == f[0] && g2[1] == f[1], "ministl: reference FIRST fixpoint not reached within FS_ROUNDS rounds (model bound)");
  // ---- real code
  G.calculateFirstSets();
  bool clean = true; int real[2];
  real[0] = G.first_sets.contains(A) ? set_bits(G.first_sets[A], clean) : 0;
  real[1] = G.first_sets.contains(B) ? set_bits(G.first_sets[B], clean) : 0;
  CEX_real[0] = real[0]; CEX_real[1] = real[1]; CEX_ref[0] = f[0]; CEX_ref[1] = f[1];
  ASSERT(clean, "C13: FIRST sets of nonterminals contain only terminals of the grammar and epsilon");
  ASSERT(real[0] == f[0] && real[1] == f[1], "C13: calculateFirstSets: FIRST of every nonterminal equals its textbook definition (least fixpoint)");
  Grammar::Symbol t0 = mk(C_T0), t1 = mk(C_T1);
  bool tclean = true;
  if (used_t0) ASSERT(G.first_sets.contains(t0) && set_bits(G.first_sets[t0], tclean) == B_T0, "C13: calculateFirstSets: FIRST of a terminal of the grammar is the terminal itself");
  if (used_t1) ASSERT(G.first_sets.contains(t1) && set_bits(G.first_sets[t1], tclean) == B_T1, "C13: calculateFirstSets: FIRST of a terminal of the grammar is the terminal itself");
  int maxterm = used_t1 ? 1 : 0;
  CEX_maxterm = (int)G.max_used_terminal;
  ASSERT((int)G.max_used_terminal == maxterm, "C13: max_used_terminal is the largest terminal index used in the grammar");
  // ---- first() of a symbolic string X Y over the symbols of the grammar (absent: shorter string; both absent: the empty string)
  int cx = nondet_int(), cy = nondet_int(); ASSUME(cx >= 0 && cx <= C_ABSENT && cy >= 0 && cy <= C_ABSENT);
  ASSUME((cx != C_T0 && cy != C_T0) || used_t0); ASSUME((cx != C_T1 && cy != C_T1) || used_t1);
  CEX_x = cx; CEX_y = cy;
  std::vector<Grammar::Symbol> str;
  if (cx != C_ABSENT) { str.u.d[str.n] = mk(cx); str.n++; }
  if (cy != C_ABSENT) { str.u.d[str.n] = mk(cy); str.n++; }
  std::set<Grammar::Symbol> fr = G.first(str);
  bool fclean = true; int got = set_bits(fr, fclean);
  int want = 0; bool all_eps = true;
  if (cx != C_ABSENT) { int fs = first_of(cx, f); want |= fs & (B_T0 | B_T1); if (!(fs & B_EPS)) all_eps = false; }
  if (cy != C_ABSENT && all_eps) { int fs = first_of(cy, f); want |= fs & (B_T0 | B_T1); if (!(fs & B_EPS)) all_eps = false; }
  if (all_eps) want |= B_EPS;
  CEX_first_real = got; CEX_first_ref = want;
  ASSERT(fclean && got == want, "C13: first(X Y) equals the textbook FIRST of the string (terminals of FIRST(X), of FIRST(Y) if X is nullable, epsilon if all are)");
  ASSERT(0, "WITNESS: end of h_first_sets reachable");
}
