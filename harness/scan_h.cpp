// C15 (include resolution), and the Theo::scan parts of C14 (splice, labels, single final T_EOF) and C02 (scan is total, nothing leaks).
//
// Code under test: the REAL Compiler/src/scan.cpp (Theo::scan, create_scanner, cleanup_scanner, exists_scanner), included below.
// Environment: the flex scanner (verified separately, C14/E2) is replaced by a SCRIPT LEXER: the seven flex entry points that scan.cpp
// calls are defined here.  Every file has a fixed symbolic token script (<= SC_NE entries; ordinary token of a symbolic kind, INCLUDE,
// FNAME naming a present file / an absent file / the empty name; symbolic non-decreasing line numbers); a file that is opened twice yields
// the same script.  Which file a scanner reads is taken from the buffer it is given (content of file k is the one-character id '0'+k),
// the file label of a token is taken from the ScannerInfo registered with yyset_extra (as the TOK macro of lexer.l does), the line
// from the script relative to the value registered with yyset_lineno (a fresh flex buffer made by yy_scan_buffer has an indeterminate
// line counter).
// Oracle: ref_expand(), written from the statement of the property: explicit stack of (file, position), active-name set, no recursion.
//
// Entries: h_scan / h_scan_all (bounded runs of the real scan(), see sym_input), h_helpers (layer A: contracts of exists_scanner/create_scanner/cleanup_scanner
// from an ARBITRARY scanner stack - the facts from which "names on lex_stack are pairwise distinct" is inductive for graphs of any size).
#include "Compiler/include/lexer.hpp"
#include "Compiler/include/scan.hpp"
// Container model, refined for this harness only: push_back of the two result vectors writes the new element through CONSTANT element
// addresses under the guard k == size (ministl's generic push_back writes through __at(size), a pointer with a symbolic offset into the
// vector, which CBMC turns into a byte-wise update of the whole vector object per written field).  Same semantics, same assertions.
namespace std {
template<> inline void vector<Theo::Token>::push_back(const Theo::Token &x) {
  __CPROVER_assert(n < VCAP, "ministl: vector capacity (model bound)");
  for (int k = 0; k < VCAP; k++) if (k == n) new (&u.d[k]) Theo::Token(x);
  n++;
}
template<> inline void vector<Theo::ParseError>::push_back(const Theo::ParseError &x) {
  __CPROVER_assert(n < VCAP, "ministl: vector capacity (model bound)");
  for (int k = 0; k < VCAP; k++) if (k == n) new (&u.d[k]) Theo::ParseError(x);
  n++;
}
}
#include "Compiler/src/scan.cpp"

extern "C" { int nondet_int(); }
static inline bool nondet_bool() { return (nondet_int() & 1) != 0; }
#define ASSUME(c) __CPROVER_assume(c)
#define ASSERT(c, msg) __CPROVER_assert(c, msg)

// Cheaper, equivalent bodies for three functions of the container model (redirected with ir2c --stub, see props/c15.py):
//  * string == and < : word-wise on the canonical buffer (unused bytes are 0) instead of the byte loop;
//  * "literal" + string and string + "literal" (only used by scan.cpp to build diagnostic texts): the text is NOT modelled, the result is
//    flagged truncated, so that any comparison of a diagnostic text is a model-bound failure (inconclusive), never a verdict.
static inline unsigned be32(const char *b) { return ((unsigned)(unsigned char)b[0] << 24) | ((unsigned)(unsigned char)b[1] << 16) | ((unsigned)(unsigned char)b[2] << 8) | (unsigned)(unsigned char)b[3]; }
extern "C" {
bool stub_str_eq(const std::string *a, const std::string *o) {
  __CPROVER_assert(!a->trunc && !o->trunc, "ministl: comparing truncated string (model bound)");
  bool e = a->n == o->n;
  for (int w = 0; w < MINISTL_STR_CAP / 4; w++) e = e & (be32(a->b + 4 * w) == be32(o->b + 4 * w));
  return e;
}
bool stub_str_lt(const std::string *a, const std::string *o) {
  __CPROVER_assert(!a->trunc && !o->trunc, "ministl: comparing truncated string (model bound)");
  bool lt = false, dec = false;
  for (int w = 0; w < MINISTL_STR_CAP / 4; w++) { unsigned x = be32(a->b + 4 * w), y = be32(o->b + 4 * w); bool d = (x != y) & !dec; lt = d ? (x < y) : lt; dec = dec | d; }
  return lt;
}
std::string stub_cat_cs(const char *a, const std::string &b) { std::string r; r.trunc = 1; return r; }
std::string stub_cat_sc(const std::string &a, const char *b) { std::string r; r.trunc = 1; return r; }
}

#if !defined(SC_NF) || !defined(SC_NE) || !defined(SC_V)
#error "SC_NF (files), SC_NE (script entries per file), SC_V (file visits per run) must be defined"
#endif
#define SC_STEPS (SC_V * SC_NE + 1)                  /* iterations of the expansion loop: every iteration consumes an entry or closes a visit */
#define SC_TOK (SC_V * SC_NE - 2 * (SC_V - 1))       /* output tokens without the final T_EOF */
#define SC_ERR (2 * SC_V + 1)
#define SC_NS (SC_V + 1)                             /* scanner objects the script lexer can hand out */
#define SC_NAMES (SC_NF + 3)                         /* name ids: 0..NF-1 = "a".. (may be present), NF = "y", NF+1 = "z" (never present), NF+2 = "" */
#define K_ORD 0
#define K_INC 1
#define K_FN 2

// ------------------------------------------------------------------------------------------------ symbolic input
static int S_len[SC_NF], S_kind[SC_NF][SC_NE], S_arg[SC_NF][SC_NE], S_line[SC_NF][SC_NE], S_okind[SC_NF][SC_NE];
static bool S_present[SC_NF];
static int S_main;
extern "C" {
int CEX_main, CEX_present[SC_NF], CEX_len[SC_NF], CEX_kind[SC_NF * SC_NE], CEX_arg[SC_NF * SC_NE], CEX_line[SC_NF * SC_NE], CEX_okind[SC_NF * SC_NE];
}

static char name_char(int id) { return id < SC_NF ? (char)('a' + id) : id == SC_NF ? 'y' : 'z'; }
static std::string name_str(int id) { std::string s; if (id != SC_NF + 2) s.__push(name_char(id)); return s; }

// Every query fixes a PART of the input and leaves the rest to the solver: shape_param(i) (defined in a small C file that props/c15.py
// generates per query and hands to CBMC together with the translated harness) gives the value of input item i, or a negative number for
// "symbolic".  All items negative = every script, presence bit and the main name symbolic; all items fixed = one concrete include
// layout (DESIGN.md 2.5, layer C) of which only the line numbers are symbolic.  Line numbers are always symbolic.
extern "C" int shape_param(int idx);
static int shp(int q) { int v = shape_param(q); return v < 0 ? nondet_int() : v; }   // negative = left symbolic in this query
static void sym_input() {
  int q = 0;
  for (int f = 0; f < SC_NF; f++) {
    S_present[f] = (shp(q) & 1) != 0; S_len[f] = shp(q + 1);
    q += 2;
    CEX_present[f] = S_present[f];
    ASSUME(S_len[f] >= 0 && S_len[f] <= SC_NE); CEX_len[f] = S_len[f];
    for (int p = 0; p < SC_NE; p++) {
      int k = shp(q), a = shp(q + 1), o = shp(q + 2);
      q += 3;
      ASSUME(k >= K_ORD && k <= K_FN);
      ASSUME(a >= 0 && a < SC_NAMES);
      int l = nondet_int(); ASSUME(l >= 1 && l <= 1000000); if (p > 0) ASSUME(l >= S_line[f][p - 1]);
      // kind of an ordinary token: any token kind the scanner can deliver except INCLUDE/FNAME (T_EOF is never delivered with a
      // non-zero return; UNKNOWN is never produced by lexer.l: its catch-all rule yields NV_ID)
      ASSUME(o >= (int)Token::ID && o < (int)Token::UNKNOWN && o != (int)Token::INCLUDE && o != (int)Token::FNAME);
      S_kind[f][p] = k; S_arg[f][p] = a; S_line[f][p] = l; S_okind[f][p] = o;
      CEX_kind[f * SC_NE + p] = k; CEX_arg[f * SC_NE + p] = a; CEX_line[f * SC_NE + p] = l; CEX_okind[f * SC_NE + p] = o;
    }
  }
  S_main = shp(q);
  ASSUME(S_main >= 0 && S_main <= SC_NF + 1); CEX_main = S_main;
}

// (four separate int tables: a by-value struct would be packed into 64-bit words by SROA, which ties the constant fields to the symbolic line)
struct Ent { int kind, arg, line, okind; };
static int sel(const int (*t)[SC_NE], int f, int p, int dflt) { int r = dflt; for (int i = 0; i < SC_NF; i++) for (int j = 0; j < SC_NE; j++) if (f == i && p == j) r = t[i][j]; return r; }
static void entry(Ent &e, int f, int p) { e.kind = sel(S_kind, f, p, K_ORD); e.arg = sel(S_arg, f, p, 0); e.line = sel(S_line, f, p, 1); e.okind = sel(S_okind, f, p, (int)Token::ID); }
static int len_of(int f) { int r = 0; for (int i = 0; i < SC_NF; i++) if (f == i) r = S_len[i]; return r; }
static bool present_id(int id) { bool r = false; for (int i = 0; i < SC_NF; i++) if (id == i) r = S_present[i]; return r; }

// what the scanner delivers for entry (f,p): kind and text (the text identifies file and position)
static Token::Type tok_kind(const Ent &e) { return e.kind == K_INC ? Token::INCLUDE : e.kind == K_FN ? Token::FNAME : (Token::Type)e.okind; }
static std::string tok_text(const Ent &e, int f, int p) {
  std::string s;
  if (e.kind == K_INC) { s.__push('i'); s.__push('n'); s.__push('c'); }
  else if (e.kind == K_FN) { s.__push('"'); if (e.arg != SC_NF + 2) s.__push(name_char(e.arg)); s.__push('"'); }
  else { s.__push('t'); s.__push((char)('0' + f)); s.__push((char)('0' + p)); }
  return s;
}

// ------------------------------------------------------------------------------------------------ script lexer (flex API)
// State of scanner h lives in per-field tables that are read and written with constant indices only; the handle given to scan() is the
// address of HBASE[h] (never dereferenced), the buffer handle the address of BBASE[h].
static int LX_alive[SC_NS], LX_hasbuf[SC_NS], LX_file[SC_NS], LX_pos[SC_NS], LX_lineno[SC_NS];
static Theo::ScannerInfo *LX_extra[SC_NS];
static char HBASE[SC_NS], BBASE[SC_NS];
static int n_init, n_destroy, n_buf, n_bufrel;
static int g_active[SC_NF], g_depth, g_maxdepth;     // ghost: files being scanned (from the create/destroy events)
static int geti(const int *a, int h) { int r = a[0]; for (int k = 1; k < SC_NS; k++) if (h == k) r = a[k]; return r; }
static void seti(int *a, int h, int v) { for (int k = 0; k < SC_NS; k++) if (h == k) a[k] = v; }
static int handle_of(yyscan_t p) { int h = -1; for (int k = 0; k < SC_NS; k++) if ((char *)p == &HBASE[k]) h = k; return h; }
static bool live(int h) { return h >= 0 && h < n_init && geti(LX_alive, h) == 1; }

int yylex_init(yyscan_t *scanner) {
  ASSERT(n_init < SC_NS, "script lexer: more scanners created than the harness provides (model bound)");
  ASSUME(n_init < SC_NS);   // (beyond the bound the tables would alias; the run is inconclusive there, not wrong)
  int h = n_init;
  seti(LX_alive, h, 1); seti(LX_hasbuf, h, 0); seti(LX_file, h, 0); seti(LX_pos, h, 0); seti(LX_lineno, h, nondet_int());
  for (int k = 0; k < SC_NS; k++) if (h == k) LX_extra[k] = 0;
  n_init++;
  char *r = &HBASE[0]; for (int k = 1; k < SC_NS; k++) if (h == k) r = &HBASE[k];
  *scanner = (yyscan_t)r;
  return 0;
}
YY_BUFFER_STATE yy_scan_string(const char *yy_str, yyscan_t yyscanner) {
  int h = handle_of(yyscanner);
  ASSERT(live(h), "C02: yy_scan_string is called on a live scanner");
  ASSERT(geti(LX_hasbuf, h) == 0, "C02: a scanner gets exactly one buffer");
  int f = yy_str[0] - '0';
  ASSERT(f >= 0 && f < SC_NF && yy_str[1] == 0, "C15: the text handed to the scanner is the content of one of the supplied files");
  bool act = false; for (int i = 0; i < SC_NF; i++) if (f == i && g_active[i]) act = true;
  ASSERT(!act, "C15: a file is never opened while it is being scanned (names on the scanner stack stay pairwise distinct)");
  for (int i = 0; i < SC_NF; i++) if (f == i) g_active[i] = 1;
  g_depth++; if (g_depth > g_maxdepth) g_maxdepth = g_depth;
  seti(LX_hasbuf, h, 1); seti(LX_file, h, f); seti(LX_pos, h, 0); seti(LX_lineno, h, nondet_int());   // yy_scan_buffer does not initialise yy_bs_lineno
  n_buf++;
  char *r = &BBASE[0]; for (int k = 1; k < SC_NS; k++) if (h == k) r = &BBASE[k];
  return (YY_BUFFER_STATE)(void *)r;
}
void yyset_lineno(int line_number, yyscan_t yyscanner) {
  int h = handle_of(yyscanner);
  ASSERT(live(h) && geti(LX_hasbuf, h) == 1, "C02: yyset_lineno is called on a live scanner with a current buffer (flex aborts otherwise)");
  seti(LX_lineno, h, line_number);
}
void yyset_extra(Theo::ScannerInfo *user_defined, yyscan_t yyscanner) {
  int h = handle_of(yyscanner);
  ASSERT(live(h), "C02: yyset_extra is called on a live scanner");
  for (int k = 0; k < SC_NS; k++) if (h == k) LX_extra[k] = user_defined;
}
int yylex(Theo::Token *ret, yyscan_t yyscanner) {
  int h = handle_of(yyscanner);
  ASSERT(live(h) && geti(LX_hasbuf, h) == 1, "C02: yylex is called on a live scanner with a current buffer");
  int f = geti(LX_file, h), p = geti(LX_pos, h);
  if (p >= len_of(f)) return 0;   // end of this file (and again on every later call)
  Theo::ScannerInfo *extra = LX_extra[0]; for (int k = 1; k < SC_NS; k++) if (h == k) extra = LX_extra[k];
  ASSERT(extra != 0, "C02: yylex delivers a token only after yyset_extra (TOK reads yyextra->filename)");
  Ent e; entry(e, f, p);
  // line = script line counted from the registered first line (script lines are written for first line 1)
  int line = (int)((unsigned)e.line - 1u + (unsigned)geti(LX_lineno, h));
  *ret = Theo::Token(tok_kind(e), tok_text(e, f, p), extra->filename, line);
  seti(LX_pos, h, p + 1);
  return 1;
}
static void release_buffer(int h) {
  int f = geti(LX_file, h);
  for (int i = 0; i < SC_NF; i++) if (f == i) g_active[i] = 0;
  g_depth--; seti(LX_hasbuf, h, 0); n_bufrel++;
}
void yy_delete_buffer(YY_BUFFER_STATE b, yyscan_t yyscanner) {
  if (b == 0) return;
  int h = handle_of(yyscanner);
  bool mine = false; for (int k = 0; k < SC_NS; k++) if (h == k && (char *)(void *)b == &BBASE[k]) mine = true;
  ASSERT(live(h) && geti(LX_hasbuf, h) == 1 && mine, "C02: yy_delete_buffer is called once, with the live buffer of that live scanner");
  if (live(h) && geti(LX_hasbuf, h) == 1) release_buffer(h);
}
int yylex_destroy(yyscan_t yyscanner) {
  int h = handle_of(yyscanner);
  ASSERT(live(h), "C02: yylex_destroy is called once per scanner, on a live scanner");
  if (live(h) && geti(LX_hasbuf, h) == 1) release_buffer(h);   // flex: yylex_destroy deletes the current buffer itself
  seti(LX_alive, h, 0); n_destroy++;
  return 0;
}

// ------------------------------------------------------------------------------------------------ reference expander
struct Ref {
  int ntok, tf[SC_TOK], tp[SC_TOK];                                     // output tokens: script entry (file, position)
  int nerr, ekind[SC_ERR], ereq[SC_ERR], efile[SC_ERR], elo[SC_ERR], ehi[SC_ERR];   // errors: kind, requested name id (-1 none), location
  int nreq, req[SC_ERR];                                                 // file requests (name ids)
  int visits, nrec, nfnf, nexp, nmain, stray, maxdepth, revisit;
  bool done, overflow;
};
static void ref_err(Ref &R, int kind, int req, int file, int lo, int hi) {
  if (R.nerr < SC_ERR) { for (int i = 0; i < SC_ERR; i++) if (i == R.nerr) { R.ekind[i] = kind; R.ereq[i] = req; R.efile[i] = file; R.elo[i] = lo; R.ehi[i] = hi; } R.nerr++; }
  else R.overflow = true;
}
static void ref_req(Ref &R, int id) {
  if (R.nreq < SC_ERR) { for (int i = 0; i < SC_ERR; i++) if (i == R.nreq) R.req[i] = id; R.nreq++; } else R.overflow = true;
}
static void ref_expand(Ref &R) {
  R.ntok = R.nerr = R.nreq = R.visits = R.nrec = R.nfnf = R.nexp = R.nmain = R.stray = R.maxdepth = R.revisit = 0; R.done = false; R.overflow = false;
  for (int i = 0; i < SC_TOK; i++) { R.tf[i] = 0; R.tp[i] = 0; }
  for (int i = 0; i < SC_ERR; i++) { R.ekind[i] = 0; R.ereq[i] = -1; R.efile[i] = 0; R.elo[i] = 0; R.ehi[i] = 0; R.req[i] = 0; }
  int sf[SC_NF], sp[SC_NF], depth = 0; bool seen[SC_NF];
  for (int i = 0; i < SC_NF; i++) { sf[i] = 0; sp[i] = 0; seen[i] = false; }
  if (present_id(S_main)) { sf[0] = S_main; sp[0] = 0; depth = 1; R.visits = 1; R.maxdepth = 1; for (int i = 0; i < SC_NF; i++) if (S_main == i) seen[i] = true; }
  else { ref_err(R, (int)ParseError::MAIN_FILE_NOT_FOUND, S_main, -1, -1, -1); ref_req(R, S_main); R.nmain = 1; }
  for (int step = 0; step < SC_STEPS; step++) if (depth > 0) {
    int f = 0, p = 0;
    for (int d = 0; d < SC_NF; d++) if (d == depth - 1) { f = sf[d]; p = sp[d]; }
    int n = len_of(f);
    int adv = 0; bool pop = false; int push = -1;
    if (p >= n) pop = true;                                   // end of the file: back to the including file
    else {
      Ent e; entry(e, f, p);
      if (e.kind != K_INC) {                                  // a token of this file (a quoted name that follows no include is one, too)
        if (R.ntok < SC_TOK) { for (int i = 0; i < SC_TOK; i++) if (i == R.ntok) { R.tf[i] = f; R.tp[i] = p; } R.ntok++; } else R.overflow = true;
        if (e.kind == K_FN) R.stray++;
        adv = 1;
      } else {
        Ent nx; entry(nx, f, p + 1);
        bool has_next = p + 1 < n;
        if (!has_next || nx.kind != K_FN) {                   // include not followed by a quoted name: reported; the token read in its place is dropped
          ref_err(R, (int)ParseError::EXPECTED_FILENAME, -1, f, e.line, has_next ? nx.line : e.line); R.nexp++;
          adv = has_next ? 2 : 1;
        } else {
          int t = nx.arg; adv = 2;
          bool act = false; for (int d = 0; d < SC_NF; d++) if (d < depth && sf[d] == t) act = true;
          if (!present_id(t)) { ref_err(R, (int)ParseError::FILE_NOT_FOUND, t, f, e.line, nx.line); ref_req(R, t); R.nfnf++; }
          else if (act) { ref_err(R, (int)ParseError::RECURSIVE_INCLUDE, -1, f, e.line, nx.line); R.nrec++; }
          else push = t;
        }
      }
    }
    for (int d = 0; d < SC_NF; d++) if (d == depth - 1) sp[d] = p + adv;
    if (pop) depth--;
    if (push >= 0) {
      // (depth < SC_NF holds: the names on the stack are pairwise distinct present files and `push` is none of them)
      for (int d = 0; d < SC_NF; d++) if (d == depth) { sf[d] = push; sp[d] = 0; }
      depth++; R.visits++; if (depth > R.maxdepth) R.maxdepth = depth;
      for (int i = 0; i < SC_NF; i++) if (push == i) { if (seen[i]) R.revisit = 1; seen[i] = true; }
    }
  }
  R.done = depth == 0;
}

// ------------------------------------------------------------------------------------------------ h_scan
static bool str_is(const std::string &s, const char *lit) { return s == std::string(lit); }

static Ref G_R;   // the reference expansion of the last run (for the non-vacuity obligations of h_scan_all)
static void scan_obligations();
// (the read-out of the input is made part of the witness assertion, so that formula slicing keeps it in every counterexample trace)
static int cex_keep() {
  int r = (CEX_main & 1);
  for (int f = 0; f < SC_NF; f++) r += (CEX_present[f] & 1) + (CEX_len[f] & 1);
  for (int i = 0; i < SC_NF * SC_NE; i++) r += (CEX_kind[i] & 1) + (CEX_arg[i] & 1) + (CEX_line[i] & 1) + (CEX_okind[i] & 1);
  return r;
}
// h_scan: the query fixes part of the input (shape_param), the solver decides over the rest
extern "C" void h_scan() { scan_obligations(); __CPROVER_assert(cex_keep() < 0, "WITNESS: end of h_scan reachable"); }
// h_scan_all: for queries that leave everything symbolic - additionally the interesting cases must be among the inputs (the solver must find them)
extern "C" void h_scan_all() {
  scan_obligations();
  const Ref &R = G_R;
  ASSERT(!(R.nrec >= 1 && R.maxdepth >= 2), "C15(EXISTS): a recursive include through another file is among the inputs");
  ASSERT(!(R.nmain == 1 && R.ntok == 0), "C15(EXISTS): an absent main file is among the inputs");
  ASSERT(!((R.nfnf >= 1 || R.nexp >= 1) && R.visits >= 2), "C15(EXISTS): a missing target or a malformed include inside an included file is among the inputs");
  __CPROVER_assert(cex_keep() < 0, "WITNESS: end of h_scan_all reachable");
}
static void scan_obligations() {
  sym_input();
  Ref R; ref_expand(R);
  // input bound: the expansion opens at most SC_V files in total (files may be opened repeatedly) - this, not the graph, bounds the run
  ASSUME(R.done && !R.overflow && R.visits <= SC_V);

  std::map<FileName, FileContent> files;
  static const char *const NAMES[6] = {"a", "b", "c", "d", "e", "f"};
  static const char *const IDS[6] = {"0", "1", "2", "3", "4", "5"};
  int npresent = 0;
  for (int k = 0; k < SC_NF; k++) if (S_present[k]) { files[std::string(NAMES[k])] = std::string(IDS[k]); npresent++; }
  FileName mainname = name_str(S_main);

  ScanResult r = Theo::scan(files, mainname);

  // ---- C02: scan returned; environment protocol respected; nothing leaks
  ASSERT(n_init == n_destroy, "C02: every scanner created by yylex_init is destroyed by yylex_destroy when scan returns");
  bool any_alive = false; for (int k = 0; k < SC_NS; k++) if (k < n_init && (LX_alive[k] || LX_hasbuf[k])) any_alive = true;
  ASSERT(!any_alive && n_buf == n_bufrel, "C02: every buffer created by yy_scan_string is released when scan returns");
  ASSERT(n_init == n_buf, "C02: every scanner created got its buffer");
  ASSERT(n_init == R.visits, "C15: scan opens exactly the files that the include expansion visits, as often as it visits them");
  ASSERT(g_maxdepth == R.maxdepth && g_maxdepth <= npresent, "C15: the include nesting never exceeds the number of supplied files");

  // ---- C14/C02: shape of the stream
  int nt = (int)r.toks.size();
  ASSERT(nt >= 1, "C02: the token stream is never empty");
  ASSERT(nt == R.ntok + 1, "C15: the token stream has exactly the tokens of the include expansion plus the final T_EOF");
  int n_eof = 0, n_inc = 0, n_fn = 0;
  for (int i = 0; i <= SC_TOK; i++) if (i < nt) { Token::Type k = r.toks.u.d[i].t; if (k == Token::T_EOF) n_eof++; if (k == Token::INCLUDE) n_inc++; if (k == Token::FNAME) n_fn++; }
  bool last_eof = false; for (int i = 0; i <= SC_TOK; i++) if (i == nt - 1) last_eof = r.toks.u.d[i].t == Token::T_EOF && str_is(r.toks.u.d[i].text, "EOF");
  ASSERT(n_eof == 1 && last_eof, "C14: the token stream ends with exactly one T_EOF token");
  ASSERT(n_inc == 0 && n_fn == R.stray, "C14: no INCLUDE token and no FNAME operand of an include survives (a quoted name that follows no include stays a token)");

  // ---- C15/C14: the stream is the main file with every include replaced in place by the tokens of the named file, labelled with file and line
  bool same = true; bool lab = true;
  for (int i = 0; i < SC_TOK; i++) if (i < R.ntok && i < nt) {
    Ent e; entry(e, R.tf[i], R.tp[i]);
    const Token &t = r.toks.u.d[i];
    same = same && t.t == tok_kind(e) && t.text == tok_text(e, R.tf[i], R.tp[i]);
    lab = lab && t.file == name_str(R.tf[i]) && t.line == e.line;
  }
  ASSERT(same, "C15: token sequence equals the main file's tokens with every include directive replaced in place by the tokens of the named file");
  ASSERT(lab, "C14: every token is labelled with the file it comes from and its line");
  bool eof_lab = true;
  for (int i = 0; i <= SC_TOK; i++) if (i == nt - 1) {
    const Token &t = r.toks.u.d[i];
    if (R.ntok == 0 || i == 0) eof_lab = str_is(t.file, "-") && t.line == -1;
    else { const Token &q = r.toks.u.d[i > 0 ? i - 1 : 0]; eof_lab = t.file == q.file && t.line == q.line; }
  }
  ASSERT(eof_lab, "C14: the final T_EOF carries the location of the last token, or the placeholder location when there is none");

  // ---- C15: errors
  int ne = (int)r.errors.size();
  bool seq = ne == R.nerr, loc = true;
  int c_rec = 0, c_fnf = 0, c_exp = 0, c_main = 0, c_other = 0;
  bool fnf_req = true, main_req = true;
  int nq = 0; bool reqs = true;
  for (int i = 0; i < SC_ERR; i++) if (i < ne) {
    const ParseError &e = r.errors.u.d[i];
    if (i < R.nerr) {
      seq = seq && (int)e.t == R.ekind[i] && e.file_request == (R.ereq[i] >= 0 ? name_str(R.ereq[i]) : std::string(""));
      if (R.ekind[i] != (int)ParseError::MAIN_FILE_NOT_FOUND) loc = loc && e.file == name_str(R.efile[i]) && e.line >= R.elo[i] && e.line <= R.ehi[i];
    }
    if (e.t == ParseError::RECURSIVE_INCLUDE) c_rec++;
    else if (e.t == ParseError::FILE_NOT_FOUND) c_fnf++;
    else if (e.t == ParseError::EXPECTED_FILENAME) c_exp++;
    else if (e.t == ParseError::MAIN_FILE_NOT_FOUND) { c_main++; main_req = main_req && e.file_request == mainname; }
    else c_other++;
    // the selection Theo::parse makes for the file requests of the compilation
    if (e.t == ParseError::FILE_NOT_FOUND || e.t == ParseError::MAIN_FILE_NOT_FOUND) {
      bool ok = nq < R.nreq; int want = 0;
      for (int q = 0; q < SC_ERR; q++) if (q == nq) want = R.req[q];
      reqs = reqs && ok && e.file_request == name_str(want);
      nq++;
    }
  }
  ASSERT(seq, "C15: scan reports exactly the errors of the include expansion, in order, each with its kind and requested name");
  ASSERT(c_rec == R.nrec, "C15: RECURSIVE_INCLUDE is reported exactly for an include of a file that is being included (itself or transitively), never for a repeated include");
  ASSERT(c_fnf == R.nfnf, "C15: FILE_NOT_FOUND is reported exactly for every include that names an absent file");
  ASSERT(c_exp == R.nexp, "C15: EXPECTED_FILENAME is reported exactly for every include that is not followed by a quoted name");
  ASSERT(c_main == R.nmain && main_req && (c_main == 1) == !present_id(S_main), "C15: MAIN_FILE_NOT_FOUND is reported exactly when the main file is absent, requesting it");
  ASSERT(c_other == 0, "C15: scan reports no other kind of error for these inputs");
  ASSERT(loc, "C15: every include error is located in the including file at the directive");
  ASSERT(reqs && nq == R.nreq, "C15: the file requests (FILE_NOT_FOUND and MAIN_FILE_NOT_FOUND reports) are exactly the absent include targets and the absent main file");

  G_R = R;
}

// ------------------------------------------------------------------------------------------------ h_helpers (layer A)
// Arbitrary scanner stack (any names, not necessarily distinct, any depth up to the capacity), arbitrary key.
static std::string sym_name() {
  std::string s; int n = nondet_int(); ASSUME(n >= 0 && n <= 2);
  for (int i = 0; i < 2; i++) { int c = nondet_int(); ASSUME(c >= 1 && c <= 127); if (i < n) s.__push((char)c); }
  return s;
}
extern "C" void h_helpers() {
  std::vector<Scanner> ss;
  int n = nondet_int(); ASSUME(n >= 0 && n <= SC_NF);
  bool distinct = true;
  for (int i = 0; i <= SC_NF; i++) {
    Scanner s; s.s = 0; s.buf = 0; s.si = 0; s.f = sym_name();
    if (i < n) {
      for (int j = 0; j <= SC_NF; j++) if (j < i) distinct = distinct && !(ss.u.d[j].f == s.f);
      ss.push_back(s);
    }
  }
  FileName key = sym_name();
  bool want = false; for (int i = 0; i <= SC_NF; i++) if (i < n) want = want || ss.u.d[i].f == key;
  std::vector<Scanner> before = ss;
  bool got = exists_scanner(ss, key);
  ASSERT(got == want, "C15: exists_scanner(stack, name) holds exactly when some scanner on the stack scans a file of that name");
  bool same = (int)ss.size() == n; for (int i = 0; i <= SC_NF; i++) if (i < n) same = same && ss.u.d[i].f == before.u.d[i].f;
  ASSERT(same, "C15: exists_scanner leaves the stack unchanged");

  // create_scanner: a scanner labelled with the requested name, reading the given content from line 1, label registered with the lexer
  int fid = nondet_int(); ASSUME(fid >= 0 && fid < SC_NF);
  FileContent content; content.__push((char)('0' + fid));
  int i0 = n_init, b0 = n_buf;
  Scanner c = create_scanner(content, key);
  ASSERT(c.f == key, "C15: create_scanner labels the scanner with the name it was asked for");
  ASSERT(n_init == i0 + 1 && n_buf == b0 + 1 && (char *)c.s == &HBASE[0] && LX_alive[0] == 1 && LX_hasbuf[0] == 1 && LX_file[0] == fid && LX_pos[0] == 0 && (char *)(void *)c.buf == &BBASE[0],
         "C15: create_scanner creates one scanner with one buffer over the given content");
  ASSERT(LX_lineno[0] == 1, "C14: create_scanner starts the line count at 1");
  ASSERT(LX_extra[0] != 0 && LX_extra[0] == c.si && c.si->filename == key, "C14: create_scanner registers the file name as the label of the scanner's tokens");
  // hence: pushing create_scanner(files[name], name) only when !exists_scanner(stack, name) keeps the names pairwise distinct
  if (distinct && !got && n < SC_NF + 1) {
    ss.push_back(c);
    bool d2 = true;
    for (int i = 0; i <= SC_NF; i++) for (int j = 0; j <= SC_NF; j++) if (j < i && i < (int)ss.size()) d2 = d2 && !(ss.u.d[i].f == ss.u.d[j].f);
    ASSERT(d2, "C15: pairwise distinct names on the stack stay pairwise distinct when a scanner is pushed after a negative exists_scanner test");
    ss.pop_back();
  }
  cleanup_scanner(c);
  ASSERT(n_destroy == 1 && n_bufrel == 1 && LX_alive[0] == 0 && LX_hasbuf[0] == 0, "C02: cleanup_scanner releases the buffer and the scanner");
  // (the ScannerInfo allocated by create_scanner must have been deleted: memory-leak check of this entry)
  ASSERT(0, "WITNESS: end of h_helpers reachable");
}
