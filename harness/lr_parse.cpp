// Translation validation of ONE natively generated LR(1) parser (C13 tables obligation, C12 pattern obligations).
//
// The table generator (hull/jump/elements/generateParseTables) ran natively on the instance (native/lr_dump.cpp); the tables it produced are
// in the generated header LR_DATA as constant data.  The REAL driver LRParser<int,int>::parse (Compiler/include/ParserGenerator/lrparser.hpp) runs
// symbolically on ALL end-marked inputs up to LR_N tokens, next to a derivation-table oracle of the grammar (CYK-style chart D[X][i][j] =
// "X derives w[i..j)" with saturating derivation COUNTS {0,1,>=2} and the folded VALUE of the derivation), which is plain code over the symbolic input.
// Table access, two configurations:
//   LR_PLAIN: the tables are written into the private `action` / `jump` vectors of the parser object and read through the container model
//             (only tiny instances are tractable: cross-check);
//   default : the driver's table and stack accessors are redirected to by-value views of the constant tables (see "Table view" below).
// Entry h_get_errors (LR_GETERRORS): C12, MacroDetector::getErrors on a symbolic generation result.
//
// Semantic actions (documented in lib/lrtv.py, identical in native/lr_dump.cpp): leaf value = token + 1; the action of rule r applied to the
// popped values c1..ck (c1 = value of the LAST right-side symbol) is  v = r+1; v = (v*31 + c1) mod 2^31; ...; v = (v*31 + ck) mod 2^31.
#ifdef LR_GETERRORS
// ------------------------------------------------------------------------------------------------ C12: MacroDetector::getErrors (symbolic)
// The detector object is not constructed (its constructor runs the table generator); only the members getErrors() reads are set up: the result of
// table generation (symbolic: empty / one conflict / two conflicts) and the first token of the pattern with a symbolic file name and line.
#include "Compiler/src/macro.cpp"
extern "C" { int nondet_int(); }
extern "C" { int CEX_nconf, CEX_line, CEX_file; }
extern "C" void h_get_errors() {
  alignas(MacroDetector) static char raw[sizeof(MacroDetector)];
  MacroDetector &d = *(MacroDetector *)(void *)raw;
  new (&d.md) MacroDefinition(); new (&d.gen_res) std::vector<LRParser<MacroDetector::Accumulation, Token>::GenerationResult>();
  int nconf = nondet_int(); __CPROVER_assume(nconf >= 0 && nconf <= 2); CEX_nconf = nconf;
  for (int i = 0; i < 2; i++) if (i < nconf) d.gen_res.push_back({nondet_int() & 1 ? LRParser<MacroDetector::Accumulation, Token>::GenerationResult::SHIFT_REDUCE_ERR : LRParser<MacroDetector::Accumulation, Token>::GenerationResult::REDUCE_REDUCE_ERR, std::string("c")});
  int line = nondet_int(), line2 = nondet_int(); CEX_line = line;
  char f = (char)nondet_int(); __CPROVER_assume(f >= 'a' && f <= 'z'); CEX_file = f;
  std::string file; file.__push(f);
  d.md.rule.push_back(Token(Token::ID_TEMP, "<ID>", file, line));
  d.md.rule.push_back(Token(Token::PROGSEP, ";", "z2", line2));          // a second pattern token elsewhere: the error must not be located there
  std::vector<ParseError> e = d.getErrors();
  if (nconf == 0) __CPROVER_assert(e.n == 0, "C12: a pattern whose table generation reported no conflict gets no error");
  else {
    __CPROVER_assert(e.n == 1, "C12: a pattern whose table generation reported a conflict gets exactly one error");
    bool ok = e.n == 1 && e.u.d[0].t == ParseError::MACRO_COMPILE_NON_LR && e.u.d[0].line == line && e.u.d[0].file == file;
    __CPROVER_assert(ok, "C12: the error is MACRO_COMPILE_NON_LR at the file and line of the pattern's first token (the position of the definition)");
  }
  __CPROVER_assert(0, "WITNESS: end of h_get_errors reachable");
}
#else
#include LR_DATA
#include <functional>
#include <vector>
#include "Compiler/include/ParserGenerator/lrparser.hpp"
using namespace Theo;
extern "C" { int nondet_int(); }
#define ASSUME(c) __CPROVER_assume(c)
#define ASSERT(c, msg) __CPROVER_assert(c, msg)
#ifndef LR_TAG
#define LR_TAG "C13"
#endif
#define NOUNROLL _Pragma("clang loop unroll(disable)")   /* oracle loops stay loops: CBMC unwinds them (constant trip counts, --unwinding-assertions) */

typedef LRParser<int, int> IP;

extern "C" { int CEX_n, CEX_w[LR_N + 1], CEX_accept, CEX_value, CEX_in_lang, CEX_oracle_value, CEX_oracle_count, CEX_oracle_len; }

// ------------------------------------------------------------------------------------------------ derivation-table oracle
// grammar of the instance: G_LHS[r], G_LEN[r], G_SYM[r][k] (>= 0: terminal, < 0: nonterminal -(X+1)), G_RID[r] (rule id used by the action);
// pruning constants computed from the grammar by lib/lrtv.py: G_SUFMIN[r][k] = minimal yield length of symbols k.. of rule r,
// G_SYMMIN/G_SYMMAX[r][k] = minimal / maximal (capped at LR_N+1) yield length of symbol k.  LR_ROUNDS: rounds of the same-span fixpoint
// (unit rules and epsilon siblings make D[X][i][j] depend on D[Y][i][j]; 2*#nonterminals+2 rounds give the exact saturated counts - a second
// derivation, if there is one, exists with same-span nesting depth <= 2*#nonterminals+1 - and 1 round suffices if lrtv.py found the same-span
// dependency graph acyclic and ordered the nonterminals topologically, G_ORDER).
static int W[LR_N + 1];
static unsigned char CNT[LR_NNT][LR_N + 1][LR_N + 1];
#if LR_VALUES
static unsigned VAL[LR_NNT][LR_N + 1][LR_N + 1];
#endif
// saturating arithmetic on counts in {0,1,2} without multipliers (a 32-bit multiplication per chart step dominates the formula otherwise)
// and without branches (every ?: is a branch in -O0 IR; the chart has thousands of steps)
static inline unsigned sat2(unsigned x) { unsigned ge2 = (unsigned)(x >= 2u); return (x & (ge2 - 1u)) | (ge2 << 1); }
static inline unsigned mul2(unsigned a, unsigned b) { unsigned z = (unsigned)(a == 0u) | (unsigned)(b == 0u); unsigned one = (unsigned)(a == 1u) & (unsigned)(b == 1u); return (2u - one) & (z - 1u); }
static inline unsigned sel(unsigned c, unsigned a, unsigned b) { unsigned m = 0u - (unsigned)(c != 0u); return (a & m) | (b & ~m); }   /* c ? a : b */
static inline unsigned times31(unsigned x) { return (x << 5) - x; }

#ifdef LR_ORACLE
// the same table specialised to the grammar: straight-line code generated by lib/lrtv.py gen_oracle() (only the rule/span/split combinations that can
// contribute); the loop version below is the fallback and the second implementation in the native self-test
#include LR_ORACLE
#else
static void oracle() {
  NOUNROLL for (int X = 0; X < LR_NNT; X++) NOUNROLL for (int i = 0; i <= LR_N; i++) NOUNROLL for (int j = 0; j <= LR_N; j++) { CNT[X][i][j] = 0;
#if LR_VALUES
    VAL[X][i][j] = 0;
#endif
  }
  NOUNROLL for (int L = 0; L <= LR_N; L++) NOUNROLL for (int i = 0; i + L <= LR_N; i++) {
    const int j = i + L;
    NOUNROLL for (int round = 0; round < LR_ROUNDS; round++) NOUNROLL for (int xi = 0; xi < LR_NNT; xi++) {
      const int X = G_ORDER[xi];       // nonterminals in dependency order (same-span dependencies first), updated in place
      unsigned nc = 0, nv = 0;
      NOUNROLL for (int r = 0; r < LR_NRULES; r++) {
        if (G_LHS[r] != X) continue;
        const int len = G_LEN[r];
        if (L < G_SUFMIN[r][0]) continue;
        // qc[k][p]: number of ways symbols k.. of the rule derive w[p..j);  qv: action value folded over symbols len-1 .. k (last symbol first)
        unsigned char qc[LR_MAXLEN + 1][LR_N + 1]; unsigned qv[LR_MAXLEN + 1][LR_N + 1];
        NOUNROLL for (int k = 0; k <= LR_MAXLEN; k++) NOUNROLL for (int p = 0; p <= LR_N; p++) { qc[k][p] = 0; qv[k][p] = 0; }
        qc[len][j] = 1; qv[len][j] = (unsigned)G_RID[r] + 1u;
        NOUNROLL for (int k = LR_MAXLEN - 1; k >= 0; k--) if (k < len) {
          const int sym = G_SYM[r][k];
          NOUNROLL for (int p = i; p <= j; p++) {
            if (j - p < G_SUFMIN[r][k]) continue;
            if (k == 0 && p != i) continue;
            unsigned c = 0, v = 0;
            NOUNROLL for (int q = p; q <= j; q++) {
              if (q - p < G_SYMMIN[r][k] || q - p > G_SYMMAX[r][k]) continue;
              if (j - q < G_SUFMIN[r][k + 1]) continue;
              unsigned sc, sv = 0;
              if (sym >= 0) { sc = (unsigned)(W[p] == sym); sv = (unsigned)W[p] + 1u; }     // q == p+1 here (SYMMIN = SYMMAX = 1), p < LR_N
              else { sc = CNT[-sym - 1][p][q];
#if LR_VALUES
                sv = VAL[-sym - 1][p][q];
#endif
              }
              unsigned prod = mul2(sc, qc[k + 1][q]);
              c = sat2(c + prod);
              v = sel(prod, (times31(qv[k + 1][q]) + sv) & 0x7fffffffu, v);
            }
            qc[k][p] = (unsigned char)c; qv[k][p] = v;
          }
        }
        nc = sat2(nc + qc[0][i]);
        nv = sel(qc[0][i], qv[0][i], nv);
      }
      CNT[X][i][j] = (unsigned char)nc;
#if LR_VALUES
      VAL[X][i][j] = nv;
#endif
    }
  }
}

#endif  /* LR_ORACLE */

#ifndef LR_ORACLE_SELFTEST
// ------------------------------------------------------------------------------------------------ the natively generated tables
// Semantic actions: captureless closures (the std::function model then keeps nothing in its capture buffer; reading a captured rule id out of a
// symbolically selected table cell is a byte-level read of the whole table object in CBMC).
static int fold_values(int rid, const std::vector<int> &c) {
  unsigned v = (unsigned)rid + 1u;
  for (int k = 0; k < LR_MAXLEN; k++) if (k < c.n) v = (((v << 5) - v) + (unsigned)c.u.d[k]) & 0x7fffffffu;
  return (int)v;
}
#if LR_PLAIN
// Plain mode: the tables are written into the private `action` / `jump` vectors of the parser object and the driver reads them through the
// container model's operator[] (two nested selections among constant-index addresses).  Measured: about 700 000 SAT variables per iteration of
// the driver loop for a 10 x 3 table - usable only for tiny instances; run as a cross-check of the table view below.
template <int R> static void set_action_r(IP::Action &act) { act.action = [](std::vector<int> c) -> int { return fold_values(R, c); }; }
static void set_action(IP::Action &act, int rid) {
  switch (rid) {
    case 0: set_action_r<0>(act); break; case 1: set_action_r<1>(act); break; case 2: set_action_r<2>(act); break; case 3: set_action_r<3>(act); break;
    case 4: set_action_r<4>(act); break; case 5: set_action_r<5>(act); break; case 6: set_action_r<6>(act); break; case 7: set_action_r<7>(act); break;
    default: ASSERT(0, "ministl: more rules than action instances in the harness (model bound)"); break;
  }
}
static void load_tables(IP &p) {
  for (int s = 0; s < LR_NS; s++) {
    std::vector<IP::Action> row;
    for (int a = 0; a < LR_W; a++) {
      const unsigned x = LR_CELL[s][a];
      IP::Action act((IP::Action::Type)(x & 3u));
      act.state = (int)((x >> 2) & 1023u); act.left = (int)((x >> 12) & 15u); act.beta = (int)((x >> 16) & 15u);
      if ((x & 3u) == (unsigned)IP::Action::REDUCE) set_action(act, (int)((x >> 20) & 31u));
      row.n = a + 1; row.u.d[a] = act;
    }
    p.action.n = s + 1; new (&p.action.u.d[s]) std::vector<IP::Action>(row);
    std::vector<int> jr;
    for (int x = 0; x < LR_JW; x++) { jr.n = x + 1; jr.u.d[x] = LR_JUMP[s][x]; }
    p.jump.n = s + 1; p.jump.u.d[s] = jr;
  }
}
#else
// Table view: the four container accessors through which the driver reads its tables - action[s], action[s][a], jump[s], jump[s][x], i.e.
// operator[] of vector<vector<Action>>, vector<Action>, vector<vector<int>>, vector<int> - are redirected (lib/lrtv.py: Job(stubs=...)) to the
// functions below, which hand out a by-value copy of the addressed row / cell of the dumped constant tables, with the model's range assertions.
// Equivalent to the real containers holding these tables as long as the driver uses every table reference immediately (no reference to a
// row or cell is live across another table access, nothing is written through one): lib/lrtv.py checks that textually on parse() on every run,
// and one plain-mode job per run cross-checks the view on a small instance.
static int VIEW_ROW, VIEW_JROW, VIEW_RID, VIEW_CVALID, VIEW_CS, VIEW_CA; static unsigned VIEW_CX;
static std::vector<IP::Action> *VIEW_ACTROW; static IP::Action *VIEW_CELL; static std::vector<int> *VIEW_JUMPROW; static int VIEW_JCELL;
extern "C" std::vector<IP::Action> *lr_view_action_row(std::vector<std::vector<IP::Action>> *self, unsigned long s) {
  ASSERT(s < (unsigned long)self->n, "ministl: vector index out of range (UB)");
  VIEW_ROW = (int)s; return VIEW_ACTROW;
}
extern "C" IP::Action *lr_view_action_cell(std::vector<IP::Action> *self, unsigned long a) {
  ASSERT(self == VIEW_ACTROW, "ministl: table view used for another vector (model bound)");
  ASSERT(a < (unsigned long)LR_W, "ministl: vector index out of range (UB)");
  int s = VIEW_ROW; if (s < 0 || s >= LR_NS) s = 0; if (a >= (unsigned long)LR_W) a = 0;
#ifdef LR_COLMAP
  a = LR_COL[a];      // identical columns (terminals that no state of the table mentions) are stored once: a = column class of terminal a
#endif
  IP::Action *c = VIEW_CELL;
  // one packed word per cell (type:2 | state:10 | left:4 | beta:4 | rule id:5): a single table read per access; the same (s, a) read again by
  // the driver in the same iteration is the same expression for the solver
  // The driver reads up to five fields of the same cell per iteration; the cell is looked up once per iteration: the lookup is kept until the
  // driver reads its next token (*ip), and every reuse asserts that it is the addressed cell.
  unsigned x;
  if (VIEW_CVALID) {
    ASSERT(s == VIEW_CS && (int)a == VIEW_CA, "ministl: table view: the cell kept since the last token read is the addressed one (model bound)");
    x = VIEW_CX;
  } else {
#ifdef LR_SPARSE
    x = lr_cell((unsigned)s, (unsigned)a);     // the same table as a generated chain of (row default, exceptions), see lib/lrtv.py table_arrays
#else
    x = LR_CELL[s][a];
#endif
    VIEW_CX = x; VIEW_CS = s; VIEW_CA = (int)a; VIEW_CVALID = 1;
  }
  c->t = (IP::Action::Type)(x & 3u); c->state = (int)((x >> 2) & 1023u); c->left = (int)((x >> 12) & 15u); c->beta = (int)((x >> 16) & 15u);
  VIEW_RID = (int)((x >> 20) & 31u);
  return c;
}
extern "C" std::vector<int> *lr_view_jump_row(std::vector<std::vector<int>> *self, unsigned long s) {
  ASSERT(s < (unsigned long)self->n, "ministl: vector index out of range (UB)");
  VIEW_JROW = (int)s; return VIEW_JUMPROW;
}
extern "C" int *lr_view_jump_cell(std::vector<int> *self, unsigned long x) {
  ASSERT(self == VIEW_JUMPROW, "ministl: table view used for another vector (model bound)");
  ASSERT(x < (unsigned long)LR_JW, "ministl: vector index out of range (UB)");
  int s = VIEW_JROW; if (s < 0 || s >= LR_NS) s = 0; if (x >= (unsigned long)LR_JW) x = 0;
#ifdef LR_SPARSE
  VIEW_JCELL = lr_jump((unsigned)s, (unsigned)x);
#else
  VIEW_JCELL = LR_JUMP[s][x];
#endif
  return &VIEW_JCELL;
}
// The same for the driver's stacks and input (vector<int>: back, push_back, pop_back, *iterator): direct-index reads and writes instead of the
// model's selection among constant-index addresses (each such selection costs about 10 000 SAT variables when it is dereferenced, the driver does
// about 25 per iteration).  Same assertions as the model; back() and *it hand out a copy (the driver only reads through them - checked textually).
static int VIEW_BACK, VIEW_DEREF;
extern "C" int *lr_view_int_back(std::vector<int> *self) {
  ASSERT(self->n > 0, "ministl: back() on empty vector (UB)");
  int i = self->n - 1; if (i < 0 || i >= std::vector<int>::VCAP) i = 0;
  VIEW_BACK = self->u.d[i]; return &VIEW_BACK;
}
extern "C" void lr_view_int_push_back(std::vector<int> *self, const int *x) {
  ASSERT(self->n < std::vector<int>::VCAP, "ministl: vector capacity (model bound)");
  int i = self->n; if (i < 0 || i >= std::vector<int>::VCAP) i = 0;
  self->u.d[i] = *x; self->n++;
}
extern "C" void lr_view_int_pop_back(std::vector<int> *self) {
  ASSERT(self->n > 0, "ministl: pop_back on empty vector (UB)");
  self->n--;
}
extern "C" const int *lr_view_int_deref(const std::vector<int>::iterator *it) {
  ASSERT(it->i >= 0 && it->i < it->c->n, "ministl: dereferencing end() or an invalid iterator (UB)");
  int i = it->i; if (i < 0 || i >= std::vector<int>::VCAP) i = 0;
  VIEW_CVALID = 0;
  VIEW_DEREF = it->c->u.d[i]; return &VIEW_DEREF;
}
static void load_tables(IP &p, std::vector<IP::Action> &actrow, IP::Action &cell, std::vector<int> &jumprow) {
  p.action.n = LR_NS; p.jump.n = LR_NS;                 // row counts of the real members (the range assertions of the view read them)
  actrow.n = LR_W; jumprow.n = LR_JW;
  cell.action = [](std::vector<int> c) -> int { return fold_values(VIEW_RID, c); };     // the action of the rule the current cell reduces by
  VIEW_ACTROW = &actrow; VIEW_CELL = &cell; VIEW_JUMPROW = &jumprow; VIEW_ROW = 0; VIEW_JROW = 0; VIEW_RID = 0; VIEW_CVALID = 0;
}
#endif

static void sym_input(std::vector<int> &in, int &n) {
  n = nondet_int(); ASSUME(n >= 0 && n <= LR_N); CEX_n = n;
  for (int i = 0; i <= LR_N; i++) {
    int t = nondet_int();
#ifdef LR_ALPHABET
    unsigned ok = 0u; for (int k = 0; k < LR_NALPHA; k++) ok |= (unsigned)(t == LR_ALPHA[k]);      // (no short-circuit: constant trip count)
    ASSUME(ok != 0u);
#else
    ASSUME(t >= 0 && t <= LR_TMAX);
#endif
    ASSUME(t != LR_EOF);                    // the driver never reads beyond the first end marker: inputs are w $ with w free of $
    W[i] = i < n ? t : LR_EOF; CEX_w[i] = W[i];
    in.u.d[i] = W[i];
  }
  in.n = n + 1;
}

// real driver on the dumped tables, all inputs of at most LR_N tokens + end marker
extern "C" void h_lr_parse() {
  SemanticGrammar<int> G;
  IP p(G, LR_PREFIX != 0, [](int t) -> Grammar::Symbol { Grammar::Symbol s; s.t = Grammar::Symbol::TERMINAL; s.index = (unsigned)t; return s; },
       [](int t) -> int { return t + 1; }, Grammar::Symbol{Grammar::Symbol::NON_TERMINAL, (unsigned)LR_START}, Grammar::Symbol{Grammar::Symbol::TERMINAL, (unsigned)LR_EOF});
#if LR_PLAIN
  load_tables(p);
#else
  std::vector<IP::Action> actrow; IP::Action cell(IP::Action::ERR); std::vector<int> jumprow;
  load_tables(p, actrow, cell, jumprow);
#endif
  std::vector<int> in; int n;
  sym_input(in, n);
  oracle();
  // membership according to the derivation table: full mode: w itself; prefix mode: the shortest prefix of w in L(G)
  bool in_lang = false; int at = -1;
  for (int j = 0; j <= LR_N; j++) if (j <= n && (LR_PREFIX ? true : j == n) && !in_lang && CNT[LR_START][0][j] >= 1) { in_lang = true; at = j; }
  bool ambiguous = false;
  for (int j = 0; j <= LR_N; j++) if (j <= n && CNT[LR_START][0][j] >= 2) ambiguous = true;
  int nmembers = 0;
  for (int j = 0; j <= LR_N; j++) if (j <= n && CNT[LR_START][0][j] >= 1) nmembers++;
  unsigned ocount = 0, ovalue = 0;
  for (int j = 0; j <= LR_N; j++) if (j == at) { ocount = CNT[LR_START][0][j];
#if LR_VALUES
    ovalue = VAL[LR_START][0][j];
#endif
  }
  CEX_in_lang = in_lang; CEX_oracle_len = at; CEX_oracle_count = (int)ocount; CEX_oracle_value = (int)ovalue;
#if LR_RUN_DRIVER
  IP::ParseResult r = p.parse(in);
  bool acc = r.t == IP::ParseResult::ACCEPT;
  CEX_accept = acc; CEX_value = acc ? r.st : 0;
#if LR_PREFIX
  ASSERT(!acc || in_lang, LR_TAG ": prefix mode, conflict-free tables: the driver accepts only inputs of which some prefix is in the language");
  ASSERT(!in_lang || acc, LR_TAG ": prefix mode, conflict-free tables: the driver accepts every input of which some prefix is in the language");
#else
  ASSERT(!acc || in_lang, LR_TAG ": full mode, conflict-free tables: the driver accepts only end-marked inputs that are in the language");
  ASSERT(!in_lang || acc, LR_TAG ": full mode, conflict-free tables: the driver accepts every end-marked input that is in the language");
#endif
#if LR_VALUES
  ASSERT(!(acc && in_lang && ocount == 1) || (unsigned)r.st == ovalue, LR_TAG ": the returned value is the fold of the unique derivation tree (each rule's action applied once, to the values of its right side, last symbol first)");
#endif
#endif
#if LR_CHECK_FIRST
  // FIRST sets the generator computed (dumped natively, LR_FIRSTMASK[X]: bit t = terminal t, bit 31 = epsilon) against the derivation table
  bool first_ok = true;
  for (int X = 0; X < LR_NNT; X++) for (int j = 0; j <= LR_N; j++) if (j <= n && CNT[X][0][j] >= 1) {
    unsigned bit = j == 0 ? 0x80000000u : (1u << (unsigned)(W[0] & 15));
    first_ok = first_ok && (LR_FIRSTMASK[X] & bit) != 0u;
  }
  ASSERT(first_ok, LR_TAG ": the FIRST set the generator computed for X contains the first token of every word X derives, and epsilon if X derives the empty word");
#endif
#if LR_ASSERT_UNAMBIGUOUS
  ASSERT(!ambiguous, LR_TAG ": no conflict reported => no word (up to the bound) has two derivations (an ambiguous grammar gets at least one conflict)");
#endif
#if LR_ASSERT_PREFIXFREE
  ASSERT(nmembers <= 1, LR_TAG ": no conflict reported in prefix mode => the language is prefix-free up to the bound (a pattern that is not prefix-deterministic is rejected)");
#endif
#if LR_EXISTS_WITNESS
  // sound direction of C12: is there a word with two derivations, or a word of the language with a proper extension in the language?
  ASSERT(!(ambiguous || nmembers >= 2), LR_TAG "(EXISTS): a witness that no one-token-lookahead prefix recogniser exists: w and w v (v non-empty) both in the pattern's language, or w with two derivations");
#endif
  ASSERT(0, "WITNESS: end of h_lr_parse reachable");
}
#else
// ------------------------------------------------------------------------------------------------ native self-test of the oracle (lib/lrtv.py oracle_selftest)
#include <cstdio>
int main() {
  int n;
  while (scanf("%d", &n) == 1) {
    for (int i = 0; i <= LR_N; i++) W[i] = LR_EOF;
    for (int i = 0; i < n; i++) scanf("%d", &W[i]);
    oracle();
    for (int j = 0; j <= n; j++) printf("%d:%u%s", (int)CNT[LR_START][0][j],
#if LR_VALUES
      VAL[LR_START][0][j],
#else
      0u,
#endif
      j == n ? "\n" : " ");
  }
  return 0;
}
#endif
#endif  /* LR_GETERRORS */
