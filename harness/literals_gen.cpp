// C20: integer literals in programs - real strToInt / strToIntSilent / dispatchValue(NUMBER) of Compiler/src/gen.cpp on a symbolic digit string
#include "Compiler/src/gen.cpp"
#include "literals_common.hpp"
extern "C" void h_lit_gen() {
  unsigned long value; std::string txt = sym_literal(value);
  GenState gs = {.in = {}, .out = {.code = {}, .stack_maps = {}, .potential_breaks = {}, .line_info = {}}, .errors = {}, .symbols = {}, .funcAddrs = {}, .labels = {}, .backpatching_todo = {}, .fs = {.name = "m", .line = 1}};
  Node n; n.t = Node::Type::NUMBER; n.tok = txt; n.file = "m"; n.line = 1; n.left = NULL; n.right = NULL;
  int e0 = (int)gs.errors.size();
  int r = strToInt(gs, &n);
  int e1 = (int)gs.errors.size();
  ASSERT((e1 > e0) == at_least_int_max(g_digits, g_len), "C20: a literal is rejected with a range error exactly when it is not below 2^31-1");
  if (e1 == e0) ASSERT(r >= 0 && (unsigned long)r == value, "C20: an accepted literal is converted to exactly its value");
  ASSERT(0, "WITNESS: end of h_lit_gen reachable");
}
// the unchecked conversion used when x - c is lowered: its result can always be negated (was: INT_MIN for 2147483648, negation overflow)
extern "C" void h_lit_silent() {
  unsigned long value; std::string txt = sym_literal(value);
  Node n; n.t = Node::Type::NUMBER; n.tok = txt; n.file = "m"; n.line = 1; n.left = NULL; n.right = NULL;
  int r2 = strToIntSilent(&n);
  ASSERT(r2 != (-2147483647 - 1), "C20: the literal of x - c is converted to a value that can be negated without overflow");
  if (!at_least_int_max(g_digits, g_len)) ASSERT(r2 >= 0 && (unsigned long)r2 == value, "C20: the unchecked conversion used for the built-in +/- agrees with the literal's value on accepted literals");
  ASSERT(0, "WITNESS: end of h_lit_silent reachable");
}
// lowering of the built-in sugar: the real dispatchValue on RUN __DEC__ WITH y, <literal> END / RUN __INC__ ... (signed-overflow checks of gen.cpp in scope)
extern "C" void h_lit_dec() {
  unsigned long value; std::string txt = sym_literal(value);
  GenState gs = {.in = {}, .out = {.code = {}, .stack_maps = {}, .potential_breaks = {}, .line_info = {}}, .errors = {}, .symbols = {}, .funcAddrs = {}, .labels = {}, .backpatching_todo = {}, .fs = {.name = "m", .line = 1}};
  gs.pushSymbols("#root");
  gs.emit(Instruction::PrepareExec(1, 0, 0));
  bool dec = (nondet_int() & 1) != 0;
  Node lit; lit.t = Node::Type::NUMBER; lit.tok = txt; lit.file = "m"; lit.line = 1; lit.left = NULL; lit.right = NULL;
  Node y; y.t = Node::Type::NAME; y.tok = "y"; y.file = "m"; y.line = 1; y.left = NULL; y.right = NULL;
  Node s2; s2.t = Node::Type::SPLIT; s2.file = "m"; s2.line = 1; s2.left = &lit; s2.right = NULL;
  Node s1; s1.t = Node::Type::SPLIT; s1.file = "m"; s1.line = 1; s1.left = &y; s1.right = &s2;
  Node nm; nm.t = Node::Type::NAME; nm.tok = dec ? "__DEC__" : "__INC__"; nm.file = "m"; nm.line = 1; nm.left = NULL; nm.right = NULL;
  Node call; call.t = Node::Type::CALL; call.file = "m"; call.line = 1; call.left = &nm; call.right = &s1;
  dispatchValue(gs, &call, 0);
  bool err = gs.errors.size() > 0;
  ASSERT(err == at_least_int_max(g_digits, g_len), "C20: x + c / x - c with an out-of-range literal is rejected, with an in-range literal it is not");
  if (!err) { const Instruction &I = gs.out.code[gs.out.code.size() - 1]; long want = dec ? -(long)value : (long)value; ASSERT(I.op == OpCode::ADD_CONST && (long)I.parameters.add.constant == want, "C20: x + c / x - c is lowered to one ADD with the constant +c / -c"); }
  ASSERT(0, "WITNESS: end of h_lit_dec reachable");
}
// the generator as a whole: a NUMBER value emits a CONST of the literal and records an error for an out-of-range literal
extern "C" void h_lit_value() {
  unsigned long value; std::string txt = sym_literal(value);
  GenState gs = {.in = {}, .out = {.code = {}, .stack_maps = {}, .potential_breaks = {}, .line_info = {}}, .errors = {}, .symbols = {}, .funcAddrs = {}, .labels = {}, .backpatching_todo = {}, .fs = {.name = "m", .line = 1}};
  gs.pushSymbols("#root");
  Node n; n.t = Node::Type::NUMBER; n.tok = txt; n.file = "m"; n.line = 1; n.left = NULL; n.right = NULL;
  gs.emit(Instruction::PrepareExec(1, 0, 0));
  dispatchValue(gs, &n, 0);
  bool err = gs.errors.size() > 0;
  ASSERT(err == at_least_int_max(g_digits, g_len), "C20: compiling an out-of-range literal records an error (the result is marked incorrect), an in-range literal does not");
  if (!err) { const Instruction &I = gs.out.code[gs.out.code.size() - 1]; ASSERT(I.op == OpCode::CONST && I.parameters.constant.constant >= 0 && (unsigned long)I.parameters.constant.constant == value, "C20: an in-range literal is loaded as a non-negative constant equal to its value"); }
  ASSERT(0, "WITNESS: end of h_lit_value reachable");
}
