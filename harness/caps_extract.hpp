namespace Theo { struct Token; struct MacroDefinition; struct ParseError; }
namespace std {
template<> struct __cap<Theo::Token> { static constexpr int v = EX_N + 1; };
template<> struct __cap<Theo::MacroDefinition> { static constexpr int v = 3; };
template<> struct __cap<Theo::ParseError> { static constexpr int v = EX_N + 4; };
template<> struct __cap<unsigned int> { static constexpr int v = EX_N; };
}
