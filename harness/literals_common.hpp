// shared by the literal-conversion harnesses (C20): symbolic digit string, reference value, strtol model
#pragma once
extern "C" { int nondet_int(); }
#define ASSUME(c) __CPROVER_assume(c)
#define ASSERT(c, msg) __CPROVER_assert(c, msg)
#ifndef LIT_MAXLEN
#define LIT_MAXLEN 12
#endif
extern "C" { int CEX_len, CEX_digit[LIT_MAXLEN]; }
// environment model of strtol for the inputs the scanner can produce (INT rule: 0|[1-9][0-9]*, decimal): value, saturating at LONG_MAX (C17 7.22.1.4)
extern "C" long model_strtol(const char *s, char **end, int base) {
  // a decimal number of at most 18 digits is below 2^63: Horner evaluation without overflow; longer digit strings saturate (not reachable with
  // the string capacity of the model, kept for completeness).  No division in the model: dividing by 10 is what stalls the SAT back end.
  unsigned long v = 0; int nd = 0; bool live = true;
  for (int i = 0; i < MINISTL_STR_CAP; i++) {
    char c = s[live ? i : 0];
    if (live && !(c >= '0' && c <= '9')) live = false;
    if (live) { nd++; if (nd <= 18) v = (v << 3) + (v << 1) + (unsigned long)(c - '0'); }
  }
  // arithmetic fact about decimal notation, stated as an assumption of the model: a numeral of nd digits denotes a value below 10^nd
  static const unsigned long P10[13] = {1UL, 10UL, 100UL, 1000UL, 10000UL, 100000UL, 1000000UL, 10000000UL, 100000000UL, 1000000000UL, 10000000000UL, 100000000000UL, 1000000000000UL};
  if (nd <= 12) __CPROVER_assume(v < P10[nd]);
  return nd > 18 ? 9223372036854775807L : (long)v;
}
// digits >= "2147483647" as numbers (no leading zeros): more digits, or equally many and lexicographically not smaller
static bool at_least_int_max(const int *d, int n) {
  static const int M[10] = {2, 1, 4, 7, 4, 8, 3, 6, 4, 7};
  if (n > 10) return true; if (n < 10) return false;
  bool ge = true, dec = false;
  for (int i = 0; i < 10; i++) if (!dec && d[i] != M[i]) { ge = d[i] > M[i]; dec = true; }
  return ge;
}
// symbolic literal as the scanner delivers it; returns its mathematical value (fits 64 bits for <= 12 digits... up to 18)
static int g_digits[LIT_MAXLEN]; static int g_len;
static std::string sym_literal(unsigned long &value) {
#ifdef LIT_LEN
  int n = LIT_LEN;     // one query per literal length (the length is then a constant for the symbolic execution)
#else
  int n = nondet_int(); ASSUME(n >= 1 && n <= LIT_MAXLEN);
#endif
  CEX_len = n; g_len = n;
  std::string s; value = 0;
  for (int i = 0; i < LIT_MAXLEN; i++) {
    int d = nondet_int(); ASSUME(d >= 0 && d <= 9);
    if (i == 0 && n > 1) ASSUME(d >= 1);     // no leading zero
#ifdef LIT_BOUNDARY
    // boundary query: the ten-digit literals 21474836dd around 2^31-1 (the general ten-digit query is arithmetic-heavy and runs in the thorough tier)
    { static const int PFX[8] = {2, 1, 4, 7, 4, 8, 3, 6}; if (i < 8) d = PFX[i]; }
#endif
    CEX_digit[i] = d; g_digits[i] = d;
    if (i < n) s.__push((char)('0' + d));
  }
  value = (unsigned long)model_strtol(s.c_str(), 0, 10);      // same circuit as the call inside the code under test (shared by the encoder)
  // arithmetic lemma about the model (stated assumption, a theorem of decimal notation): an n-digit numeral denotes a value below 10^n
  static const unsigned long POW10[13] = {1UL, 10UL, 100UL, 1000UL, 10000UL, 100000UL, 1000000UL, 10000000UL, 100000000UL, 1000000000UL, 10000000000UL, 100000000000UL, 1000000000000UL};
  if (n <= 12) ASSUME(value < POW10[n]);      // (a twenty-digit literal is above LONG_MAX: strtol saturates, no lemma needed)
  return s;
}
