// Harnesses over the REAL macro code of /repo/Compiler/src/macro.cpp (C09 selection + instantiation + literal constraints, C10 hygiene,
// C11 pass budget; a few assertions on the `usable` filter are tagged C12).  The .cpp is included so that the TU-local types
// (MacroDetector, ExtractionState) and functions (get_replacement, push_rule, D, MD, A) are reachable.
//
// The LR machinery is NOT executed here (matching of patterns is C12/C13): MacroDetector::MacroDetector(MacroDefinition) and
// MacroDetector::detect(vector<Token>&) are replaced by the contract stubs below (Job(stubs=...)).  Everything else - get_detectors,
// getErrors, the usable filter, the priority bins, the pass loop, the selection of the match, get_replacement, erase/insert, the
// MAX_PASSES error, extract_macros with push_rule/D/MD/A, check_constraint - is the real code.
// The apply_macros-level entries (h_select, h_adversarial, h_hygiene) do not name get_replacement or any other helper of apply_macros:
// they judge the run by the token sequences apply_macros produces, so they keep giving verdicts when the helpers are re-shaped.  The
// direct-call entries (h_inst, h_temp_names) reach get_replacement through an adapter over its known signatures.
#include "Compiler/src/macro.cpp"

extern "C" { int nondet_int(); }
static inline bool nondet_bool() { return (nondet_int() & 1) != 0; }
#define ASSUME(c) __CPROVER_assume(c)
#define ASSERT(c, msg) __CPROVER_assert(c, msg)

#ifndef MA_ND
#error "MA_ND, MA_NIN, MA_NBODY, MA_NMATCH, MA_RS, MA_PMAX, MA_CT, MA_NERR must be defined by the job"
#endif
#ifndef MA_NDEF
#define MA_NDEF MA_ND
#endif
#ifndef MA_PRIOS
#define MA_PRIOS {0}
#define MA_CONF {0}
#endif
#define MA_NLOG (MA_ND * (MA_PMAX + 1))     /* detect() calls a run can make if it overruns its budget by one pass */
#define MA_MAXR (MA_NBODY * (MA_NMATCH > 1 ? MA_NMATCH : 1))   /* longest instantiated body */

// ---------------------------------------------------------------------------------------------------------------- helpers
// Token vectors are filled at constant indices and their size is set afterwards: a store through a pointer with a symbolic offset into a
// large enclosing object is what CBMC handles worst (see caps_macro.hpp).
#define TOKV_SET(vec, i, tok) new (&(vec).u.d[i]) Token(tok)
static inline bool tok_eq(const Token &a, const Token &b) { return a.t == b.t && a.line == b.line && a.text == b.text && a.file == b.file; }
static bool vec_eq(const std::vector<Token> &a, const std::vector<Token> &b) {
  bool e = a.n == b.n;
  for (int i = 0; i < MA_CT; i++) if (i < a.n && i < b.n) e = e && tok_eq(a.u.d[i], b.u.d[i]);
  return e;
}
static bool uvec_eq(const std::vector<unsigned> &a, const unsigned *b, int nb) {
  bool e = a.n == nb;
  for (int i = 0; i < MA_RS; i++) if (i < a.n && i < nb) e = e && a.u.d[i] == b[i];
  return e;
}
static bool seqs_eq(const std::vector<std::vector<Token>> &a, const std::vector<std::vector<Token>> &b) {
  bool e = a.n == b.n;
  for (int i = 0; i < MA_RS; i++) if (i < a.n && i < b.n) e = e && vec_eq(*a.p[i], *b.p[i]);
  return e;
}
static char sym_lower() { int c = nondet_int(); ASSUME(c >= 'a' && c <= 'z'); return (char)c; }
static int sym_range(int lo, int hi) { int v = nondet_int(); ASSUME(v >= lo && v <= hi); return v; }
static std::string one_char(char c) { std::string s; s.__push(c); return s; }
static std::string two_char(char a, char b) { std::string s; s.__push(a); s.__push(b); return s; }
static std::string sym_text12() { std::string s; s.__push(sym_lower()); if (nondet_bool()) s.__push(sym_lower()); return s; }   // 1 or 2 letters
static bool is_constraint_kind(int k) { return k == Token::NV_ID || k == Token::ID || k == Token::INT; }
static bool is_template_kind(int k) { return k == Token::PROG_TEMP || k == Token::ARGS_TEMP || k == Token::ID_TEMP || k == Token::INT_TEMP || k == Token::VALUE_TEMP; }
// decimal text of a small natural number, written independently of the container model's to_string
static void push_dec(std::string &s, int v) {
  if (v >= 1000) s.__push((char)('0' + (v / 1000) % 10));
  if (v >= 100) s.__push((char)('0' + (v / 100) % 10));
  if (v >= 10) s.__push((char)('0' + (v / 10) % 10));
  s.__push((char)('0' + v % 10));
}

// an ordinary program token (never T_EOF): any kind, one symbolic letter as text
static Token sym_plain_token() {
  Token t; t.t = (Token::Type)sym_range(1, (int)Token::UNKNOWN); t.text = one_char(sym_lower()); t.file = std::string("m"); t.line = sym_range(0, 99);
  return t;
}
// a body token: ID / INT / ';' / $k (k < ntemplates) / #k
static Token sym_body_token(int ntemplates, int line) {
  Token t; t.file = std::string("m"); t.line = line;
  int sel = sym_range(0, 4);
  if (sel == 3) ASSUME(ntemplates > 0);
  if (sel == 0) { t.t = Token::ID; t.text = one_char(sym_lower()); }
  else if (sel == 1) { t.t = Token::INT; t.text = one_char((char)('0' + sym_range(0, 9))); }
  else if (sel == 2) { t.t = Token::PROGSEP; t.text = std::string(";"); }
  else if (sel == 3) { t.t = Token::INSERTION; t.text = two_char('$', (char)('0' + sym_range(0, ntemplates - 1))); }
  else { t.t = Token::TEMP_VAL; t.text = two_char('#', (char)('0' + sym_range(0, 9))); }
  return t;
}

// libc strtol on the short decimal texts the macro code passes ("0".."999" after the '$', priorities); anything else is outside the model
extern "C" long stub_strtol(const char *s, char **end, int base) {
  long v = 0; bool live = true;
  for (int i = 0; i < 4; i++) if (live) { char c = s[i]; if (c >= '0' && c <= '9') v = v * 10 + (c - '0'); else live = false; }
  ASSERT(!live && end == 0 && base == 10, "harness: strtol called on a text longer than 3 digits or with end pointer/base (model bound)");
  return v;
}
// Theo::token_string lives in scan.cpp (flex TU, not linked); its result only feeds diagnostics
extern "C" std::string stub_token_string(Token::Type t) { return std::string("?"); }

// ------------------------------------------------------------------------------------------ contract stubs of the LR machinery
struct CallRec { int tag, has, loc, len; std::vector<Token> in; std::vector<std::vector<Token>> matched; };
struct Log { int conflict[MA_ND]; int n; int overflow; int adversarial; const MacroDetector::Response *script; CallRec c[MA_NLOG]; };
static Log *G;

// constructor contract: stores the definition; gen_res is non-empty exactly for the definitions the harness marked as conflicting
extern "C" void stub_ctor(MacroDetector *self, MacroDefinition md) {
  new (&self->md) MacroDefinition(md);
  new (&self->gen_res) std::vector<LRParser<MacroDetector::Accumulation, Token>::GenerationResult>();
  new (&self->parser) LRParser<MacroDetector::Accumulation, Token>();
  int tag = md.rule.u.d[0].line;
  bool conf = false;
  for (int i = 0; i < MA_ND; i++) if (i == tag) conf = G->conflict[i] != 0;
  if (conf) self->gen_res.n = 1;
}

// detect contract: nullopt, or a match that lies inside the input and never covers the final T_EOF; one NON-EMPTY token sequence per rule
// position (the detector's grammar has no empty right side: a literal matches one token, every slot kind at least one).
// The answer is a fresh solver choice per call (or the scripted response of the entry); every call is recorded so that the oracle can
// recompute the expected run.
extern "C" std::optional<MacroDetector::Response> stub_detect(MacroDetector *self, std::vector<Token> &in) {
  Log &L = *G;
  CallRec r; r.tag = self->md.rule.u.d[0].line; r.in = in;
  int n = in.n;
  bool has = nondet_bool();
  if (L.adversarial) has = true;
#ifdef MA_QUIET_AFTER
  // a macro set whose expansion is finished after MA_QUIET_AFTER detector consultations (used with budgets far above the number of passes needed)
  if (L.n >= MA_QUIET_AFTER) has = false;
#endif
  if (n - 1 < 1) has = false;
  r.has = has; r.loc = 0; r.len = 0;
  MacroDetector::Response resp; resp.location = 0; resp.length = 0;
  if (L.script != 0) {
    // scripted: the response the entry prepared (apply_macros-level fallback of h_inst), first call only
    has = L.n == 0 && L.script->location + L.script->length <= n - 1;
    r.has = has;
    if (has) { resp = *L.script; r.loc = resp.location; r.len = resp.length; r.matched = resp.matched; }
  } else if (has) {
    int loc = nondet_int(), len = nondet_int();
    ASSUME(loc >= 0 && loc < MA_CT && len >= 1 && len <= MA_CT && loc + len <= n - 1);
    r.loc = loc; r.len = len;
    for (int p = 0; p < MA_RS; p++) if (p < self->md.rule.n) {
      std::vector<Token> seq;
      for (int q = 0; q < MA_NMATCH; q++) TOKV_SET(seq, q, sym_plain_token());
      seq.n = sym_range(1, MA_NMATCH);
      r.matched.push_back(seq);
    }
    resp.location = loc; resp.length = len; resp.matched = r.matched;
  }
  int k = L.n;
  if (k >= MA_NLOG) L.overflow = 1;
  for (int i = 0; i < MA_NLOG; i++) if (i == k) L.c[i] = r;
  L.n = k + 1;
  if (has) return std::optional<MacroDetector::Response>(resp);
  return std::nullopt;
}

// ---------------------------------------------------------------------------------------------- counterexample read-out
extern "C" {
int CEX_nd, CEX_passes, CEX_nin, CEX_nlog, CEX_outn, CEX_nerr, CEX_rewrites, CEX_maxed;
int CEX_prio[MA_ND], CEX_conf[MA_ND], CEX_nbody[MA_ND];
int CEX_tag[MA_NLOG], CEX_has[MA_NLOG], CEX_loc[MA_NLOG], CEX_len[MA_NLOG], CEX_insize[MA_NLOG];
}

// ------------------------------------------------------------------------------------------ A. selection + loop (C09, C10, C11)
static void sym_definition(MacroDefinition &d, int tag) {
  d.priority = 0;
  // rule "A <ID>"-like: position 0 carries the identity tag of the definition in its line number
  TOKV_SET(d.rule, 0, Token(Token::ID, std::string("A"), std::string("m"), tag));
  for (int r = 1; r < MA_RS; r++) TOKV_SET(d.rule, r, Token(Token::ID_TEMP, std::string("<ID>"), std::string("m"), sym_range(0, 99)));
  d.rule.n = MA_RS;
  d.content_constraint_token_indices.u.d[0] = 0; d.content_constraint_token_indices.n = 1;
  d.template_token_indices.u.d[0] = (unsigned)sym_range(0, MA_RS - 1); d.template_token_indices.n = 1;   // which rule position $0 refers to
  int line0 = sym_range(0, 9);
  for (int b = 0; b < MA_NBODY; b++) TOKV_SET(d.replacement, b, sym_body_token(1, b == 0 ? line0 : sym_range(0, 99)));
  d.replacement.n = sym_range(0, MA_NBODY);
}

// The specification of one instantiation, written on the harness's own data (no code of /repo involved): the body of `d` with $0 replaced by
// the tokens the detector reported for the pattern position that $0 names, every #n replaced by an ID token named
// <#n>:<file of the #n token>:<line of the first body token>_(M<step>), everything else copied.  istemp[w] marks the tokens that come from a #n.
static void spec_replacement(const MacroDefinition &d, const std::vector<std::vector<Token>> &matched, int step, std::vector<Token> &R, bool *istemp) {
  int wn = 0; for (int w = 0; w < MA_CT; w++) istemp[w] = false;
  const int slotpos = (int)d.template_token_indices.u.d[0];
  const int line0 = d.replacement.u.d[0].line;
  for (int b = 0; b < MA_NBODY; b++) if (b < d.replacement.n) {
    const Token &c = d.replacement.u.d[b];
    if (c.t == Token::INSERTION) {
      for (int p = 0; p < MA_RS; p++) if (p == slotpos && p < matched.n) {
        const std::vector<Token> &sq = *matched.p[p];
        for (int q = 0; q < MA_NMATCH; q++) if (q < sq.n) { for (int w = 0; w < MA_CT; w++) if (w == wn) TOKV_SET(R, w, sq.u.d[q]); wn++; }
      }
    } else if (c.t == Token::TEMP_VAL) {
      Token t = c; t.t = Token::ID;
      std::string nm = c.text; nm.__push(':'); nm += c.file; nm.__push(':'); push_dec(nm, line0); nm.__push('_'); nm.__push('('); nm.__push('M'); push_dec(nm, step); nm.__push(')');
      t.text = nm;
      for (int w = 0; w < MA_CT; w++) if (w == wn) { TOKV_SET(R, w, t); istemp[w] = true; }
      wn++;
    } else { for (int w = 0; w < MA_CT; w++) if (w == wn) TOKV_SET(R, w, c); wn++; }
  }
  R.n = wn;
}

// cur with [loc,loc+len) replaced by R, compared with obs.  Result: everything equal except possibly the TEXT of tokens that come from a
// temporary (their naming is C10's subject); names_eq: those texts are equal too.
static bool splice_eq(const std::vector<Token> &cur, int loc, int len, const std::vector<Token> &R, const bool *istemp, const std::vector<Token> &obs, bool &names_eq) {
  bool e = obs.n == cur.n - len + R.n && loc >= 0 && len >= 0 && loc + len <= cur.n;
  names_eq = true;
  for (int i = 0; i < MA_CT; i++) if (e && i < obs.n) {
    // (by-value selection among the constant positions; every index is inside its sequence because the sizes agree)
    Token want = i < loc ? cur.__get(i) : i < loc + R.n ? R.__get(i - loc) : cur.__get(i - R.n + len);
    bool tmp = false; for (int w = 0; w < MA_CT; w++) if (w == i - loc && i >= loc && i < loc + R.n) tmp = istemp[w];
    const Token &o = obs.u.d[i];
    e = o.t == want.t && o.line == want.line && o.file == want.file;
    if (!tmp) e = e && o.text == want.text;
    else if (e) names_eq = names_eq && !o.text.trunc && o.text == want.text;
  }
  return e;
}

static void run_selection(unsigned passes, bool adversarial) {
  Log L; L.n = 0; L.script = 0; L.overflow = 0; L.adversarial = adversarial; G = &L;
  // ---- the definitions, in order of definition.  Bodies, pattern lines and the slot that $0 names are symbolic; the number of definitions,
  // their priorities and which of them the table generator rejects are CONSTANTS of the job (MA_NDEF, MA_PRIOS, MA_CONF): the family of
  // jobs enumerates every order pattern of the priorities over the definition positions (std::map only compares keys), so "independent
  // of the order of definition" is covered by the family; with symbolic priorities the priority bins become a symbolic heap shape that
  // CBMC does not decide within the budget (measured: 2 definitions, 2 input tokens: 460 s / 10 GB against 30 s).
  static const int PRIOS[MA_ND + 1] = MA_PRIOS; static const int CONF[MA_ND + 1] = MA_CONF;
  const int nd = MA_NDEF; CEX_nd = nd;
  std::vector<MacroDefinition> defs; int prio[MA_ND]; bool usable[MA_ND]; int nusable = 0, nconf = 0;
  for (int i = 0; i < MA_ND; i++) {
    L.conflict[i] = 0; usable[i] = false; prio[i] = 0;
    if (i < nd) {
      L.conflict[i] = CONF[i];
      MacroDefinition d; sym_definition(d, i); d.priority = PRIOS[i]; defs.push_back(d); prio[i] = d.priority; usable[i] = !L.conflict[i];
      if (usable[i]) nusable++; else nconf++;
      CEX_nbody[i] = d.replacement.n;
    }
    CEX_prio[i] = prio[i]; CEX_conf[i] = L.conflict[i];
  }
  // ---- symbolic input: <= MA_NIN tokens, then the single T_EOF
  std::vector<Token> input; int nin = sym_range(0, MA_NIN); CEX_nin = nin;
  { Token eof(Token::T_EOF, std::string(""), std::string("m"), sym_range(0, 99));
    for (int i = 0; i <= MA_NIN; i++) { Token t = sym_plain_token(); if (i == nin) t = eof; TOKV_SET(input, i, t); }
    input.n = nin + 1; }
  CEX_passes = (int)passes;

  MacroApplicationResult res = Theo::apply_macros(input, defs, passes);

  const std::vector<Token> &out = res.transformed_sequence;
  CEX_nlog = L.n; CEX_outn = out.n; CEX_nerr = res.errors.n;
  for (int j = 0; j < MA_NLOG; j++) { CEX_tag[j] = L.c[j].tag; CEX_has[j] = L.c[j].has; CEX_loc[j] = L.c[j].loc; CEX_len[j] = L.c[j].len; CEX_insize[j] = L.c[j].in.n; }

  // ---- oracle: replay the recorded answers of the detectors through the specification.  Only what apply_macros shows to the outside is
  // used: the token sequence every consulted detector sees and the final result.  A correct run makes at most MA_ND * passes detect()
  // calls; the log holds one more pass so that an overrun is seen and flagged.
  std::vector<Token> cur = input, observed;
  int pass = 0, rewrites = 0, hp = 0, remaining = 0, bestloc = 0, bestlen = 0;
  bool done[MA_ND]; for (int i = 0; i < MA_ND; i++) done[i] = false;
  bool in_window = false, have_best = false, finished = false, last_rewrote = false;
  bool best_ok = false, best_names = false, any_ok = false;
  bool ok_member = true, ok_in = true, ok_budget = true, ok_after_end = true, ok_best = true, ok_one = true, ok_names = true;
  for (int j = 0; j < MA_NLOG; j++) if (j < L.n) {
    const CallRec &e = L.c[j];
    if (finished) ok_after_end = false;
    if (!in_window) {
      // a new bin: the highest priority among the usable detectors not yet consulted in this pass
      bool any = false;
      for (int i = 0; i < MA_ND; i++) if (usable[i] && !done[i] && (!any || prio[i] > hp)) { hp = prio[i]; any = true; }
      remaining = 0;
      for (int i = 0; i < MA_ND; i++) if (any && usable[i] && !done[i] && prio[i] == hp) remaining++;
      in_window = true; have_best = false; best_ok = false; best_names = false; any_ok = false;
      // the token sequence after this bin's decision is what the next consulted detector sees, or the final result
      int nx = j + remaining;
      observed = out;
      for (int q = 0; q < MA_NLOG; q++) if (q == nx && q < L.n) observed = L.c[q].in;
    }
    bool member = false;
    for (int i = 0; i < MA_ND; i++) if (i == e.tag) { member = usable[i] && !done[i] && prio[i] == hp; done[i] = true; }
    ok_member = ok_member && member;
    remaining--;
    ok_in = ok_in && vec_eq(e.in, cur);
    ok_budget = ok_budget && (unsigned)pass < passes;
    if (e.has) {
      bool better = !have_best || e.loc < bestloc || (e.loc == bestloc && e.len > bestlen);
      bool tie = have_best && e.loc == bestloc && e.len == bestlen;
      // what the token sequence must be if this candidate is the one that is instantiated in this pass
      MacroDefinition cd = *defs.p[0];
      for (int i = 1; i < MA_ND; i++) if (i == e.tag && i < nd) cd = *defs.p[i];
      std::vector<Token> R; bool istemp[MA_CT]; bool names = true;
      spec_replacement(cd, e.matched, pass, R, istemp);
      bool same = splice_eq(cur, e.loc, e.len, R, istemp, observed, names);
      any_ok = any_ok || same;
      if (better) { have_best = true; bestloc = e.loc; bestlen = e.len; best_ok = same; best_names = same && names; }
      else if (tie) { best_ok = best_ok || same; best_names = best_names || (same && names); }
    }
    if (remaining <= 0) {
      in_window = false;
      if (have_best) {
        ok_one = ok_one && any_ok; ok_best = ok_best && best_ok; ok_names = ok_names && (best_names || !best_ok);
        cur = observed; pass++; rewrites++; last_rewrote = true; for (int i = 0; i < MA_ND; i++) done[i] = false;
      } else { last_rewrote = false; bool left = false; for (int i = 0; i < MA_ND; i++) if (usable[i] && !done[i]) left = true; if (!left) finished = true; }
    }
  }
  CEX_rewrites = rewrites;
  bool spec_end = !in_window && (finished || (unsigned)pass >= passes || nusable == 0);
  bool maxed = false; int nmax = 0;
  for (int i = 0; i < MA_NERR; i++) if (i < res.errors.n && res.errors.u.d[i].t == ParseError::MACRO_APPLY_REACHED_MAX_PASSES) { maxed = true; nmax++; }
  CEX_maxed = maxed;

  ASSERT(!L.overflow, "harness: more detect() calls than the log holds (model bound)");
  // --- C09 selection
  ASSERT(ok_member, "C09: detectors are consulted by descending priority, every usable detector of the current priority exactly once before the decision, whatever the order of definition");
  ASSERT(ok_in, "C09: every detector consulted sees the token sequence produced by the rewriting steps so far (nothing else changes it)");
  ASSERT(ok_one, "C09: a rewriting step replaces exactly the reported range of ONE consulted match by the macro's body with $n replaced by the tokens matched by slot n; all other tokens untouched and in order");
  ASSERT(ok_best, "C09: the match that is rewritten is the reported match of the highest-priority, then leftmost, then longest candidate (any of exactly tied ones), whatever the order of definition");
  ASSERT(ok_after_end, "C09: once a pass finds no match of any usable macro no further detector is consulted");
  ASSERT(spec_end, "C09: rewriting repeats until no pattern matches or the budget is exhausted, and every bin that is consulted is consulted completely");
  if (!last_rewrote) ASSERT(vec_eq(cur, out), "C09: the result is the token sequence after the last rewriting step (equal to the input when nothing matched)");
  if (L.n == 0) ASSERT(vec_eq(input, out) && !maxed, "C09: without any match of a usable macro the output equals the input and no MAX_PASSES error is reported");
  { int neof = 0; for (int i = 0; i < MA_CT; i++) if (i < out.n && out.u.d[i].t == Token::T_EOF) neof++;
    ASSERT(out.n >= 1 && neof == 1 && out.__get(out.n - 1).t == Token::T_EOF, "C09: the result still ends in the single T_EOF"); }
  // --- C10: the naming of the temporaries of the k-th step (everything else about that step is C09's assertion above)
  ASSERT(ok_names && ok_budget, "C10: the temporaries of the k-th rewriting step of a run are the ID tokens <#n>:<file>:<line of the first body token>_(M<k>): every step has its own number (one rewrite per pass)");
  // --- C11 budget
  ASSERT(ok_budget && (unsigned)rewrites <= passes, "C11: at most `passes` rewriting steps; no detector is consulted after the budget is used up");
  ASSERT(ok_one, "C11: a pass performs exactly one rewriting step (the token sequence after the pass is the one before it with ONE instantiated match spliced in), so the number of steps is bounded by the number of passes");
  if ((unsigned)rewrites < passes) ASSERT(!maxed, "C11: when some pass finds nothing the loop stops and no MAX_PASSES error is added");
  if ((unsigned)rewrites == passes && passes > 0) ASSERT(maxed, "C11: when every pass of the budget rewrote, MACRO_APPLY_REACHED_MAX_PASSES is reported");
  ASSERT(nmax <= 1 && res.errors.n == nconf + nmax, "C11: the error list holds one entry per rejected macro and at most one MAX_PASSES entry");
  ASSERT((long)out.n <= (long)input.n + (long)passes * MA_MAXR && out.n <= input.n + rewrites * (MA_MAXR - 1), "C11: output size <= input size + passes * longest instantiated body");
  ASSERT(spec_end || maxed, "C11: an expansion that stops while rewriting is still possible and budget is left reports MAX_PASSES - an unfinished expansion is never passed on as correct (any budget from 1 upward)");
  if (adversarial) ASSERT((unsigned)rewrites == passes || out.n == 1 || nusable == 0, "C11: with a detector that always reports a match exactly `passes` rewriting steps happen (unless no token or no usable macro is left)");
  // --- C12 (usable filter; the generator itself is someone else's obligation)
  { bool ok = true; int k = 0;
    for (int i = 0; i < MA_ND; i++) if (i < nd && L.conflict[i]) {
      bool found = false;
      for (int q = 0; q < MA_NERR; q++) if (q == k && q < res.errors.n) { const ParseError &pe = res.errors.u.d[q]; found = pe.t == ParseError::MACRO_COMPILE_NON_LR && pe.line == i && pe.file == std::string("m"); }
      ok = ok && found; k++;
    }
    ASSERT(ok, "C12: every macro whose table generation reported a conflict yields one MACRO_COMPILE_NON_LR error at the file/line of its first pattern token, in definition order");
    bool asked_rejected = false;
    for (int j = 0; j < MA_NLOG; j++) if (j < L.n) for (int i = 0; i < MA_ND; i++) if (i == L.c[j].tag && L.conflict[i]) asked_rejected = true;
    ASSERT(!asked_rejected, "C12: a rejected macro is never consulted and does not block the accepted ones");
  }
}

// passes is a constant of the job (MA_PFIX in {0,1,2,3}); with a symbolic budget the query was not decided in 20 minutes even for one definition
#ifndef MA_PFIX
#define MA_PFIX MA_PMAX
#endif
extern "C" void h_select() {
  run_selection(MA_PFIX, false);
  ASSERT(0, "WITNESS: end of h_select reachable");
}

// adversarial detector: always reports a match (whenever the input still has a token before T_EOF)
extern "C" void h_adversarial() {
  run_selection(MA_PFIX, true);
  ASSERT(CEX_rewrites < MA_PFIX, "C11(EXISTS): a run in which every pass of the budget rewrites and MACRO_APPLY_REACHED_MAX_PASSES is reported");
  ASSERT(0, "WITNESS: end of h_adversarial reachable");
}

// C10 at the level of apply_macros (no naming scheme, no pass number assumed): one macro whose body is two temporaries #a #b, budget 2, a
// detector that always matches.  The two rewriting steps may match anywhere (in particular both matches may start on the same file and
// line); the variables the first step introduces must differ from the ones the second step introduces.
extern "C" { int CEX_h_na, CEX_h_nb, CEX_h_loc1, CEX_h_len1; }
static bool outside_id_language(const std::string &s) {
  bool odd = s.n == 0 || (s.b[0] >= '0' && s.b[0] <= '9');
  for (int i = 0; i < MINISTL_STR_CAP; i++) if (i < s.n) { char c = s.b[i]; bool idc = (c >= 'a' && c <= 'z') || (c >= 'A' && c <= 'Z') || (c >= '0' && c <= '9') || c == '_'; if (!idc) odd = true; }
  return odd;
}
extern "C" void h_hygiene() {
  Log L; L.n = 0; L.script = 0; L.overflow = 0; L.adversarial = 1; for (int i = 0; i < MA_ND; i++) L.conflict[i] = 0; G = &L;
  MacroDefinition d; sym_definition(d, 0); d.priority = 5;
  int na = sym_range(0, 9), nb = sym_range(0, 9); CEX_h_na = na; CEX_h_nb = nb;
  TOKV_SET(d.replacement, 0, Token(Token::TEMP_VAL, two_char('#', (char)('0' + na)), std::string("m"), sym_range(0, 9)));
  TOKV_SET(d.replacement, 1, Token(Token::TEMP_VAL, two_char('#', (char)('0' + nb)), std::string("m"), sym_range(0, 99)));
  d.replacement.n = 2;
  std::vector<MacroDefinition> defs; defs.push_back(d);
  std::vector<Token> input; TOKV_SET(input, 0, sym_plain_token()); TOKV_SET(input, 1, Token(Token::T_EOF, std::string(""), std::string("m"), sym_range(0, 99))); input.n = 2;
  MacroApplicationResult res = Theo::apply_macros(input, defs, 2);
  const std::vector<Token> &out = res.transformed_sequence;
  const std::vector<Token> &mid = L.c[1].in;      // what the detector saw in the second pass = the result of the first step
  int loc1 = L.c[1].loc, len1 = L.c[1].len; CEX_h_loc1 = loc1; CEX_h_len1 = len1;
  bool two_steps = L.n == 2 && L.c[0].has && L.c[1].has && mid.n == 3 && out.n == 3 - len1 + 2;
  ASSERT(!L.overflow, "harness: more detect() calls than the log holds (model bound)");
  ASSERT(!two_steps, "C10(EXISTS): a run with two rewriting steps, each introducing the temporaries of the body");
  if (two_steps) {
    Token a0 = mid.u.d[0], b0 = mid.u.d[1], a1 = out.__get(loc1), b1 = out.__get(loc1 + 1);
    ASSERT(!a0.text.trunc && !b0.text.trunc && !a1.text.trunc && !b1.text.trunc, "harness: generated name longer than the string capacity (model bound)");
    ASSERT(a0.t == Token::ID && b0.t == Token::ID && a1.t == Token::ID && b1.t == Token::ID, "C10: after expansion a temporary is a variable (ID token)");
    ASSERT(a0.text != a1.text && a0.text != b1.text && b0.text != a1.text && b0.text != b1.text, "C10: the temporaries of one expansion step differ from every temporary of every other expansion step, wherever the two matches start (same file and line included)");
    ASSERT((a0.text == b0.text) == (na == nb) && (a1.text == b1.text) == (na == nb), "C10: within one expansion step equal #n denote the same variable and different #n different variables");
    ASSERT(outside_id_language(a0.text) && outside_id_language(b0.text) && outside_id_language(a1.text) && outside_id_language(b1.text), "C10: no generated name is in the identifier language [a-zA-Z_][a-zA-Z0-9_]* of the scanner (it differs from every variable a user can write)");
  }
  ASSERT(0, "WITNESS: end of h_hygiene reachable");
}

// ------------------------------------------------------------------------------------------ get_replacement through its known signatures
// kind 1: (pair<MacroDetector,Response>, int pass)   2: (const MacroDetector&, const Response&, int pass)   3: (pair<MacroDetector,Response>)
// 0: none of these - the direct-call entries then fall back to apply_macros-level formulations (h_inst) or leave the obligation to h_hygiene.
template<class D, class R> constexpr int GR_KIND =
    requires(const D &d, const R &r, int p) { get_replacement(std::make_pair(d, r), p); } ? 1 :
    requires(const D &d, const R &r, int p) { get_replacement(d, r, p); } ? 2 :
    requires(const D &d, const R &r) { get_replacement(std::make_pair(d, r)); } ? 3 : 0;
template<class D, class R> static std::vector<Token> call_get_replacement(const D &d, const R &r, int pass) {
  if constexpr (GR_KIND<D, R> == 1) return get_replacement(std::make_pair(d, r), pass);
  else if constexpr (GR_KIND<D, R> == 2) return get_replacement(d, r, pass);
  else if constexpr (GR_KIND<D, R> == 3) return get_replacement(std::make_pair(d, r));
  else return std::vector<Token>();
}
static const int GRK = GR_KIND<MacroDetector, MacroDetector::Response>;
extern "C" { int CEX_gr_kind; }

// ------------------------------------------------------------------------------------------ B. instantiation (C09, C10)
#ifndef MB_NB
#define MB_NB 4      /* body tokens */
#define MB_NT 3      /* template slots */
#define MB_NM 2      /* tokens per matched sequence */
#endif
extern "C" { int CEX_b_kind[MB_NB], CEX_b_k[MB_NB], CEX_b_tti[MB_NT], CEX_b_nt, CEX_b_nb, CEX_b_pass, CEX_b_outn; }

// real get_replacement on a detector built by the stubbed constructor: body <= MB_NB tokens of symbolic kind, MB_NT slots at symbolic rule
// positions, every rule position matched by 1..MB_NM tokens of symbolic kind/text.  Expected: the body with $n replaced by the tokens of
// slot n (= rule position template_token_indices[n]), #n replaced by an ID named <#n>:<file>:<line of body[0]>_(M<pass>), the rest copied.
// If get_replacement has none of the known signatures the same instantiation is obtained through apply_macros (one definition, budget 1,
// input x EOF, the detector answers with the prepared response at location 0 length 1, pass number 0).
extern "C" void h_inst() {
  Log L; L.n = 0; L.script = 0; L.overflow = 0; L.adversarial = 0; for (int i = 0; i < MA_ND; i++) L.conflict[i] = 0; G = &L;
  MacroDefinition d; d.priority = 0;
  for (int r = 0; r < MA_RS; r++) TOKV_SET(d.rule, r, Token(Token::ID, std::string("A"), std::string("m"), 0));
  d.rule.n = MA_RS;
  int nt = sym_range(0, MB_NT); CEX_b_nt = nt;
  unsigned tti[MB_NT];
  for (int k = 0; k < MB_NT; k++) { tti[k] = (unsigned)sym_range(0, MA_RS - 1); if (k > 0 && k < nt) ASSUME(tti[k] > tti[k - 1]); d.template_token_indices.u.d[k] = tti[k]; CEX_b_tti[k] = tti[k]; }
  d.template_token_indices.n = nt;
  int nb = sym_range(1, MB_NB); CEX_b_nb = nb;
  int line0 = sym_range(0, 99);
  int bk[MB_NB];   // slot / temporary number of body token b
  for (int b = 0; b < MB_NB; b++) {
    Token t; t.file = one_char(sym_lower()); t.line = b == 0 ? line0 : sym_range(0, 999);
    int sel = sym_range(0, 4); bk[b] = 0;
    if (sel == 3) ASSUME(nt > 0);
    if (sel == 0) { t.t = Token::ID; t.text = one_char(sym_lower()); }
    else if (sel == 1) { t.t = Token::INT; t.text = one_char((char)('0' + sym_range(0, 9))); }
    else if (sel == 2) { t.t = Token::PROGSEP; t.text = std::string(";"); }
    else if (sel == 3) { bk[b] = sym_range(0, MB_NT - 1); ASSUME(bk[b] < nt); t.t = Token::INSERTION; t.text = two_char('$', (char)('0' + bk[b])); }
    else { bk[b] = sym_range(0, 2); t.t = Token::TEMP_VAL; t.text = two_char('#', (char)('0' + bk[b])); }
    TOKV_SET(d.replacement, b, t); CEX_b_kind[b] = t.t; CEX_b_k[b] = bk[b];
  }
  d.replacement.n = nb;
  MacroDetector::Response resp; resp.location = sym_range(0, 9); resp.length = sym_range(1, 9);
  std::vector<Token> slot[MA_RS];
  for (int p = 0; p < MA_RS; p++) {
    for (int q = 0; q < MB_NM; q++) { Token t; t.t = (Token::Type)sym_range(1, (int)Token::UNKNOWN); t.text = one_char(sym_lower()); t.file = std::string("m"); t.line = sym_range(0, 99); TOKV_SET(slot[p], q, t); }
    slot[p].n = sym_range(1, MB_NM);
    resp.matched.push_back(slot[p]);
  }
  int pass = sym_range(0, 1023); CEX_gr_kind = GRK;
  std::vector<Token> out;
  if (GRK != 0) { MacroDetector det(d); out = call_get_replacement(det, resp, pass); }
  else {
    pass = 0; resp.location = 0; resp.length = 1;
    std::vector<Token> input; TOKV_SET(input, 0, sym_plain_token()); TOKV_SET(input, 1, Token(Token::T_EOF, std::string(""), std::string("m"), sym_range(0, 99))); input.n = 2;
    std::vector<MacroDefinition> defs; defs.push_back(d);
    L.script = &resp;
    MacroApplicationResult res = Theo::apply_macros(input, defs, 1);
    L.script = 0;
    out = res.transformed_sequence;
    ASSERT(L.n == 1 && out.n >= 1 && tok_eq(out.__get(out.n - 1), input.u.d[1]), "C09: the one reported match is rewritten once and the final T_EOF stays");
    out.n = out.n - 1;
  }
  CEX_b_pass = pass; CEX_b_outn = out.n;

  // expected sequence, built position by position (stores and comparisons at constant positions under a position guard)
  std::vector<Token> want; int wn = 0; bool temp_ok = true; bool istemp[MA_CT]; for (int w = 0; w < MA_CT; w++) istemp[w] = false;
  for (int b = 0; b < MB_NB; b++) if (b < nb) {
    const Token &c = d.replacement.u.d[b];
    if (c.t == Token::INSERTION) {
      int pos = 0; for (int k = 0; k < MB_NT; k++) if (k == bk[b]) pos = (int)tti[k];
      for (int p = 0; p < MA_RS; p++) if (p == pos) for (int q = 0; q < MB_NM; q++) if (q < slot[p].n) { for (int w = 0; w < MA_CT; w++) if (w == wn) TOKV_SET(want, w, slot[p].u.d[q]); wn++; }
    } else if (c.t == Token::TEMP_VAL) {
      Token t = c; t.t = Token::ID;
      std::string nm = c.text; nm.__push(':'); nm += c.file; nm.__push(':'); push_dec(nm, line0); nm.__push('_'); nm.__push('('); nm.__push('M'); push_dec(nm, pass); nm.__push(')');
      t.text = nm;
      for (int w = 0; w < MA_CT; w++) if (w == wn) { TOKV_SET(want, w, t); istemp[w] = true; temp_ok = temp_ok && w < out.n && !out.u.d[w].text.trunc && tok_eq(out.u.d[w], t); }
      wn++;
    } else { for (int w = 0; w < MA_CT; w++) if (w == wn) TOKV_SET(want, w, c); wn++; }
  }
  want.n = wn;
  ASSERT(wn <= MA_CT, "harness: expected sequence longer than the token capacity (model bound)");
  ASSERT(out.n == wn, "C09: the instantiated body has one token per ordinary body token, one per temporary and the matched tokens of the slot for every $n");
  { bool e = out.n == wn;
    for (int w = 0; w < MA_CT; w++) if (w < out.n && w < wn) { const Token &o = out.u.d[w], &x = want.u.d[w]; e = e && o.t == x.t && o.line == x.line && o.file == x.file && (istemp[w] || o.text == x.text); }
    ASSERT(e, "C09: instantiation = body with every $n replaced by exactly the tokens matched by slot n (in order), every other token copied unchanged, every #n turned into one ID token at its own file/line"); }
  ASSERT(temp_ok, "C10: a temporary #n becomes an ID token named <#n>:<file of the token>:<line of the first body token>_(M<pass>) at its own file/line");
  ASSERT(0, "WITNESS: end of h_inst reachable");
}

// C10: two instantiations of a temporary with symbolic (n, file, defining line, pass): the generated names
extern "C" { int CEX_t_n[2], CEX_t_line[2], CEX_t_pass[2], CEX_t_f0[2], CEX_t_f1[2], CEX_t_flen[2]; }
static std::string temp_name(int which) {
  Log &L = *G;
  MacroDefinition d; d.priority = 0;
  TOKV_SET(d.rule, 0, Token(Token::ID, std::string("A"), std::string("m"), 0)); d.rule.n = 1;
  int n = sym_range(0, 99), line0 = sym_range(0, 999), pass = sym_range(0, 1023);
  // file name: 1 or 2 arbitrary non-NUL bytes (':' , digits, '_' , '(' included - nothing is assumed about file names)
  std::string file; int c0 = sym_range(1, 127), c1 = sym_range(1, 127); bool two = nondet_bool(); file.__push((char)c0); if (two) file.__push((char)c1);
  std::string text; text.__push('#'); push_dec(text, n);      // the scanner's TEMP_VAL rule: '#' followed by a decimal number without leading zero
  TOKV_SET(d.replacement, 0, Token(Token::ID, std::string("x"), file, line0));
  TOKV_SET(d.replacement, 1, Token(Token::TEMP_VAL, text, file, sym_range(0, 999)));
  d.replacement.n = 2;
  CEX_t_n[which] = n; CEX_t_line[which] = line0; CEX_t_pass[which] = pass; CEX_t_f0[which] = c0; CEX_t_f1[which] = c1; CEX_t_flen[which] = two ? 2 : 1;
  MacroDetector::Response resp; resp.location = 0; resp.length = 1;
  { std::vector<Token> seq; TOKV_SET(seq, 0, sym_plain_token()); seq.n = 1; resp.matched.push_back(seq); }    // the one pattern position matched one token
  MacroDetector det(d);
  std::vector<Token> out = call_get_replacement(det, resp, pass);
  ASSERT(out.n == 2 && out.u.d[1].t == Token::ID, "C10: the temporary becomes one ID token");
  return out.u.d[1].text;
}
extern "C" void h_temp_names() {
  Log L; L.n = 0; L.script = 0; L.overflow = 0; L.adversarial = 0; for (int i = 0; i < MA_ND; i++) L.conflict[i] = 0; G = &L;
  CEX_gr_kind = GRK;
  // (no known way to call the naming function directly: nothing is asserted here, the obligation is h_hygiene's at the apply_macros level)
  if (GRK != 0) {
  std::string a = temp_name(0), b = temp_name(1);
  bool same_n = CEX_t_n[0] == CEX_t_n[1], same_line = CEX_t_line[0] == CEX_t_line[1], same_pass = CEX_t_pass[0] == CEX_t_pass[1];
  bool same_file = CEX_t_flen[0] == CEX_t_flen[1] && CEX_t_f0[0] == CEX_t_f0[1] && (CEX_t_flen[0] == 1 || CEX_t_f1[0] == CEX_t_f1[1]);
  ASSERT(!a.trunc && !b.trunc, "harness: generated name longer than the string capacity (model bound)");
  if (GRK == 1 || GRK == 2) {   // the step number is an argument of the naming function
    if (same_n && same_file && same_line && same_pass) ASSERT(a == b, "C10: equal n, file, defining line and pass give the same variable");
    if (!same_pass) ASSERT(a != b, "C10: temporaries of different passes (expansion steps) are different variables, whatever n, file and line");
    if (same_pass && same_file && same_line && !same_n) ASSERT(a != b, "C10: different n within one expansion step are different variables");
  }   // (otherwise "different steps, different variables" is decided at the level of apply_macros by h_hygiene)
  bool hash = false, colon = false, paren = false;
  for (int i = 0; i < MINISTL_STR_CAP; i++) if (i < a.n) { if (a.b[i] == '#') hash = true; if (a.b[i] == ':') colon = true; if (a.b[i] == '(') paren = true; }
  ASSERT(a.n >= 1 && a.b[0] == '#' && hash && colon && paren, "C10: every generated name starts with '#' and contains ':' and '(' (characters no user-written identifier contains)");
  }
  ASSERT(0, "WITNESS: end of h_temp_names reachable");
}

// ------------------------------------------------------------------------------------------ C. literal constraints (C09)
#ifndef MC_NT
#define MC_NT 4      /* tokens in the stream of a step harness */
#endif
// the specification of the two index lists of a MacroDefinition: positions of ID/INT/NV_ID and of the five template kinds
static void spec_indices(const std::vector<Token> &rule, unsigned *cc, int &ncc, unsigned *tt, int &ntt) {
  ncc = 0; ntt = 0;
  for (int i = 0; i < MA_RS; i++) if (i < rule.n) {
    if (is_constraint_kind(rule.u.d[i].t)) { for (int w = 0; w < MA_RS; w++) if (w == ncc) cc[w] = i; ncc++; }
    if (is_template_kind(rule.u.d[i].t)) { for (int w = 0; w < MA_RS; w++) if (w == ntt) tt[w] = i; ntt++; }
  }
}
static bool inv_indices(const MacroDefinition &md) {
  unsigned cc[MA_RS], tt[MA_RS]; int ncc, ntt; spec_indices(md.rule, cc, ncc, tt, ntt);
  return uvec_eq(md.content_constraint_token_indices, cc, ncc) && uvec_eq(md.template_token_indices, tt, ntt);
}
static Token sym_any_token(int lo_kind) {
  Token t; t.t = (Token::Type)sym_range(lo_kind, (int)Token::UNKNOWN); t.text = sym_text12(); t.file = one_char(sym_lower()); t.line = sym_range(0, 999);
  return t;
}
// a definition under construction: rule of r < MA_RS symbolic tokens with the index lists the specification prescribes (Inv), body of nb tokens
static void sym_partial_macro(MacroDefinition &md, int max_rule, int max_body) {
  md.priority = nondet_int();
  for (int i = 0; i < MA_RS; i++) TOKV_SET(md.rule, i, sym_any_token(1));
  md.rule.n = sym_range(0, max_rule);
  unsigned cc[MA_RS], tt[MA_RS]; int ncc, ntt; spec_indices(md.rule, cc, ncc, tt, ntt);
  for (int i = 0; i < MA_RS; i++) { md.content_constraint_token_indices.u.d[i] = cc[i]; md.template_token_indices.u.d[i] = tt[i]; }
  md.content_constraint_token_indices.n = ncc; md.template_token_indices.n = ntt;
  for (int i = 0; i < MA_CT; i++) TOKV_SET(md.replacement, i, sym_any_token(1));
  md.replacement.n = sym_range(0, max_body);
}
static bool rule_prefix_eq(const std::vector<Token> &a, const std::vector<Token> &b, int n) {
  bool e = true; for (int i = 0; i < MA_CT; i++) if (i < n) e = e && tok_eq(a.u.d[i], b.u.d[i]); return e;
}
struct StepCalls { int md, a; unsigned pos_md, pos_a; };
static StepCalls *SC;
extern "C" void stub_MD(ExtractionState &es) { SC->md++; SC->pos_md = es.tok_pos; }
extern "C" void stub_A(ExtractionState &es) { SC->a++; SC->pos_a = es.tok_pos; }

// One step of the extraction grammar (layer B): which = 0: D, 1: MD, 2: A, called on an arbitrary state; the recursive continuation
// (MD / A) is replaced by a recorder, so the facts below hold for patterns and bodies of any length by induction over the token stream.
// (The real D / MD / A is called from the harness_* entry itself: only calls made by functions named harness_* are not redirected.)
struct StepCtx { StepCalls sc; std::vector<Token> toks; unsigned p; MacroDefinition before; int k; Token cur; std::vector<MacroDefinition> macros; };
static void step_pre(StepCtx &c, int which) {
  c.sc.md = 0; c.sc.a = 0; c.sc.pos_md = 0; c.sc.pos_a = 0; SC = &c.sc;
  for (int i = 0; i < MC_NT; i++) TOKV_SET(c.toks, i, sym_any_token(0));
  c.toks.n = sym_range(1, MC_NT);
  c.p = (unsigned)sym_range(0, MC_NT); ASSUME((int)c.p <= c.toks.n);
  sym_partial_macro(c.before, MA_RS - 1, which == 2 ? MA_CT - 1 : 0);
  c.macros.push_back(c.before);
  c.k = (int)c.p < c.toks.n ? (int)c.toks.__get(c.p).t : (int)Token::T_EOF;
  c.cur = c.toks.__get(c.p);
}
static void step_post(StepCtx &c, int which, ExtractionState &es) {
  const StepCalls &sc = c.sc; const MacroDefinition &before = c.before; const int k = c.k; const unsigned p = c.p; const Token &cur = c.cur;
  const MacroDefinition &after = *es.incomplete_macros.p[0];
  bool rule_same = after.rule.n == before.rule.n && rule_prefix_eq(after.rule, before.rule, before.rule.n) && uvec_eq(after.content_constraint_token_indices, before.content_constraint_token_indices.u.d, before.content_constraint_token_indices.n) && uvec_eq(after.template_token_indices, before.template_token_indices.u.d, before.template_token_indices.n);
  bool body_same = after.replacement.n == before.replacement.n && rule_prefix_eq(after.replacement, before.replacement, before.replacement.n);
  if (which <= 1) {
    if (k != Token::T_EOF && k != Token::AS && k != Token::DEFINE) {
      ASSERT(es.incomplete_macros.n == 1 && after.rule.n == before.rule.n + 1 && rule_prefix_eq(after.rule, before.rule, before.rule.n) && tok_eq(after.rule.__get(before.rule.n), cur),
             "C09: every token between DEFINE [PRIORITY n] and AS is appended to the pattern unchanged (kind, text, file, line), earlier pattern tokens untouched");
      ASSERT(inv_indices(after), "C09: content_constraint_token_indices are exactly the positions of ID/INT/NV_ID pattern tokens and template_token_indices exactly the positions of the five template kinds (push_rule keeps this invariant)");
      ASSERT(body_same && after.priority == before.priority && es.encountered_errors.n == 0 && es.output.n == 0, "C09: a pattern token changes nothing else (body, priority, errors, output)");
      ASSERT(es.tok_pos == p + 1 && sc.md == 1 && sc.a == 0 && sc.pos_md == p + 1, "C09: after a pattern token extraction continues with the next token in the pattern state");
    }
    if (k == Token::AS && which == 1) ASSERT(es.incomplete_macros.n == 1 && rule_same && body_same && es.tok_pos == p + 1 && sc.a == 1 && sc.md == 0 && sc.pos_a == p + 1 && es.encountered_errors.n == 0, "C09: AS ends the pattern: the pattern is complete and unchanged, the body starts with the next token");
    if (k == Token::AS && which == 0) ASSERT(es.incomplete_macros.n == 0 && es.encountered_errors.n == 1 && es.encountered_errors.u.d[0].t == ParseError::MACRO_EXTRACT_EMPTY_DEFINE, "C09: a definition with an empty pattern is reported and dropped");
    if (k == Token::DEFINE) ASSERT(es.incomplete_macros.n == 1 && rule_same && body_same && es.encountered_errors.n == 1 && es.encountered_errors.u.d[0].t == ParseError::MACRO_EXTRACT_NESTED && es.tok_pos == p + 1 && sc.md == 1 && sc.a == 0, "C09: a nested DEFINE is reported and skipped, the pattern is unchanged");
  } else {
    if (k != Token::T_EOF && k != Token::END_DEFINE && k != Token::DEFINE && k != Token::AS) {
      ASSERT(es.incomplete_macros.n == 1 && rule_same && after.replacement.n == before.replacement.n + 1 && rule_prefix_eq(after.replacement, before.replacement, before.replacement.n) && tok_eq(after.replacement.__get(before.replacement.n), cur),
             "C09: every token between AS and END DEFINE is appended to the body unchanged, pattern and index lists untouched");
      ASSERT(es.tok_pos == p + 1 && sc.a == 1 && sc.md == 0 && sc.pos_a == p + 1 && es.encountered_errors.n == 0 && es.output.n == 0, "C09: after a body token extraction continues with the next token in the body state");
    }
    if (k == Token::END_DEFINE) ASSERT(es.incomplete_macros.n == 1 && rule_same && body_same && es.tok_pos == p + 1 && sc.a == 0 && sc.md == 0 && es.encountered_errors.n == 0, "C09: END DEFINE completes the definition unchanged");
    if (k == Token::DEFINE || k == Token::AS) ASSERT(es.incomplete_macros.n == 1 && rule_same && body_same && es.encountered_errors.n == 1 && es.encountered_errors.u.d[0].t == ParseError::MACRO_EXTRACT_NESTED && es.tok_pos == p + 1 && sc.a == 1, "C09: DEFINE / AS inside a body is reported and skipped, the body is unchanged");
  }
}
#define STEP_ENTRY(name, which, CALL) extern "C" void name() { StepCtx c; step_pre(c, which); \
  ExtractionState es = {.incomplete_macros = c.macros, .encountered_errors = {}, .tok_pos = c.p, .tokens = c.toks, .output = {}}; \
  CALL(es); step_post(c, which, es); ASSERT(0, "WITNESS: end of " #name " reachable"); }
STEP_ENTRY(harness_d_step, 0, D)
STEP_ENTRY(harness_md_step, 1, MD)
STEP_ENTRY(harness_a_step, 2, A)

// expected verdict of check_constraint: every constrained position is matched by exactly one token with equal text
static bool spec_constraint(const std::vector<Token> &rule, const std::vector<std::vector<Token>> &matched) {
  bool ok = true;
  for (int i = 0; i < MA_RS; i++) if (i < rule.n && is_constraint_kind(rule.u.d[i].t)) {
    const std::vector<Token> &m = *matched.p[i];
    ok = ok && m.n == 1 && m.u.d[0].text == rule.u.d[i].text;
  }
  return ok;
}
static void sym_matched(std::vector<std::vector<Token>> &matched, int nrule) {
  for (int i = 0; i < MA_RS; i++) if (i < nrule) {
    std::vector<Token> seq; for (int q = 0; q < 2; q++) TOKV_SET(seq, q, sym_any_token(1)); seq.n = sym_range(0, 2);
    matched.push_back(seq);
  }
}
// real check_constraint on a detector whose definition satisfies the index invariant: symbolic pattern (all kinds, 1-2 letter texts) and
// symbolic matched sequences (0..2 tokens per pattern position)
extern "C" void h_check_constraint() {
  Log L; L.n = 0; L.script = 0; L.overflow = 0; L.adversarial = 0; for (int i = 0; i < MA_ND; i++) L.conflict[i] = 0; G = &L;
  MacroDefinition md; sym_partial_macro(md, MA_RS, 0); ASSUME(md.rule.n >= 1);
  md.rule.u.d[0].line = 0;
  std::vector<std::vector<Token>> matched; sym_matched(matched, md.rule.n);
  MacroDetector det(md);
  bool got = det.check_constraint(matched);
  ASSERT(got == spec_constraint(md.rule, matched), "C09: check_constraint holds iff every literal ID/INT/other-character position of the pattern is matched by exactly one token with equal text");
  ASSERT(0, "WITNESS: end of h_check_constraint reachable");
}

// real extract_macros end to end on DEFINE [PRIORITY n] <pattern> AS <body> END_DEFINE x EOF with CONCRETE kinds (the recursive descent is then
// resolved by constant propagation) and symbolic texts / files / lines / priority digits / slot numbers; then check_constraint of the result.
extern "C" { int CEX_x_shape; }
static void run_extract(int shape, bool with_prio, int nrule, const int *rk, int nbody, const int *bkinds) {
  Log L; L.n = 0; L.script = 0; L.overflow = 0; L.adversarial = 0; for (int i = 0; i < MA_ND; i++) L.conflict[i] = 0; G = &L;
  CEX_x_shape = shape;
  std::vector<Token> toks; int n = 0; int pv = 0;
  TOKV_SET(toks, n, Token(Token::DEFINE, std::string("def"), std::string("m"), sym_range(0, 999))); n++;
  if (with_prio) {
    TOKV_SET(toks, n, Token(Token::PRIORITY, std::string("prio"), std::string("m"), sym_range(0, 999))); n++;
    pv = sym_range(0, 999); std::string ptxt; push_dec(ptxt, pv);
    TOKV_SET(toks, n, Token(Token::INT, ptxt, std::string("m"), sym_range(0, 999))); n++;
  }
  int r0 = n; int ntemplates = 0;
  for (int i = 0; i < nrule; i++) { Token t = sym_any_token(1); t.t = (Token::Type)rk[i]; if (is_template_kind(rk[i])) ntemplates++; TOKV_SET(toks, n, t); n++; }
  TOKV_SET(toks, n, Token(Token::AS, std::string("as"), std::string("m"), sym_range(0, 999))); n++;
  int b0 = n; int slotno[4] = {0, 0, 0, 0};
  for (int i = 0; i < nbody; i++) {
    Token t = sym_any_token(1); t.t = (Token::Type)bkinds[i];
    if (bkinds[i] == Token::INSERTION) { slotno[i] = sym_range(0, 3); t.text = two_char('$', (char)('0' + slotno[i])); }
    if (bkinds[i] == Token::TEMP_VAL) t.text = two_char('#', (char)('0' + sym_range(0, 9)));
    TOKV_SET(toks, n, t); n++;
  }
  TOKV_SET(toks, n, Token(Token::END_DEFINE, std::string("enddef"), std::string("m"), sym_range(0, 999))); n++;
  int x0 = n;
  { Token t = sym_any_token(1); ASSUME(t.t != Token::DEFINE); TOKV_SET(toks, n, t); n++; }
  TOKV_SET(toks, n, Token(Token::T_EOF, std::string(""), std::string("m"), sym_range(0, 999))); n++;
  toks.n = n;

  MacroExtractionResult mer = Theo::extract_macros(toks);

  ASSERT(mer.macros.n == 1, "C09: one DEFINE ... END DEFINE yields one macro definition");
  const MacroDefinition &md = *mer.macros.p[0];
  bool rule_ok = md.rule.n == nrule, body_ok = md.replacement.n == nbody; int nrange = 0;
  for (int i = 0; i < nrule; i++) rule_ok = rule_ok && tok_eq(md.rule.u.d[i], toks.u.d[r0 + i]);
  for (int i = 0; i < nbody; i++) {
    if (bkinds[i] == Token::INSERTION && slotno[i] >= ntemplates) { nrange++; body_ok = body_ok && md.replacement.u.d[i].t == Token::ID && md.replacement.u.d[i].text == std::string("error"); }
    else body_ok = body_ok && tok_eq(md.replacement.u.d[i], toks.u.d[b0 + i]);
  }
  ASSERT(rule_ok, "C09: the pattern of the definition is exactly the tokens between DEFINE [PRIORITY n] and AS");
  ASSERT(body_ok, "C09: the body of the definition is exactly the tokens between AS and END DEFINE ($n naming no slot of the pattern is replaced by the ID 'error')");
  ASSERT(inv_indices(md), "C09: content_constraint_token_indices / template_token_indices are exactly the positions of the literal kinds / template kinds");
  ASSERT(md.priority == (with_prio ? pv : 0), "C09: the priority of a definition is the decimal value after PRIORITY, 0 without one");
  { bool errs_ok = mer.errors.n == nrange; for (int i = 0; i < MA_NERR; i++) if (i < mer.errors.n) errs_ok = errs_ok && mer.errors.u.d[i].t == ParseError::RANGE;
    ASSERT(errs_ok, "C09: a well-formed definition is extracted without errors, except one RANGE error per $n that names no slot"); }
  ASSERT(mer.tokens.n == 2 && tok_eq(mer.tokens.u.d[0], toks.u.d[x0]) && mer.tokens.u.d[1].t == Token::T_EOF, "C09: the definition is removed from the token stream, the other tokens stay in order");
  // literal constraints of the extracted definition
  MacroDefinition m2 = md; m2.rule.u.d[0].line = 0;
  std::vector<std::vector<Token>> matched; sym_matched(matched, nrule);
  MacroDetector det(m2);
  ASSERT(det.check_constraint(matched) == spec_constraint(md.rule, matched), "C09: a match of the extracted macro is accepted iff every literal ID/INT/other-character position is matched by exactly one token with equal text");
}
extern "C" void h_extract_0() { static const int rk[] = {Token::ID, Token::ID_TEMP, Token::NV_ID}; static const int bk[] = {Token::INSERTION, Token::ID}; run_extract(0, false, 3, rk, 2, bk); ASSERT(0, "WITNESS: end of h_extract_0 reachable"); }
extern "C" void h_extract_1() { static const int rk[] = {Token::PROG_TEMP, Token::PROGSEP, Token::INT}; static const int bk[] = {Token::TEMP_VAL, Token::INSERTION}; run_extract(1, true, 3, rk, 2, bk); ASSERT(0, "WITNESS: end of h_extract_1 reachable"); }
extern "C" void h_extract_2() { static const int rk[] = {Token::LOOP, Token::VALUE_TEMP, Token::ARGS_TEMP, Token::INT_TEMP}; static const int bk[] = {Token::INSERTION}; run_extract(2, true, 4, rk, 1, bk); ASSERT(0, "WITNESS: end of h_extract_2 reachable"); }
extern "C" void h_extract_3() { static const int rk[] = {Token::ID}; static const int bk[] = {Token::ID}; run_extract(3, false, 1, rk, 0, bk); ASSERT(0, "WITNESS: end of h_extract_3 reachable"); }
