// Harnesses over the REAL macro code of /repo/Compiler/src/macro.cpp (C09 selection + instantiation + literal constraints, C10 hygiene,
// C11 pass budget; a few assertions on the `usable` filter are tagged C12).  The .cpp is included so that the TU-local types
// (MacroDetector, ExtractionState) and functions (get_replacement, push_rule, D, MD, A) are reachable.
//
// The LR machinery is NOT executed here (matching of patterns is C12/C13): in the builds that run apply_macros the constructor
// MacroDetector::MacroDetector(MacroDefinition) and MacroDetector::detect(vector<Token>&) are replaced by the contract stubs below
// (Job(stubs=...)).  Everything else - get_detectors, getErrors, the usable filter, the priority bins, the pass loop, the
// min_element comparator, get_replacement, erase/insert, the MAX_PASSES error - is the real code.
#include "Compiler/src/macro.cpp"

extern "C" { int nondet_int(); }
static inline bool nondet_bool() { return (nondet_int() & 1) != 0; }
#define ASSUME(c) __CPROVER_assume(c)
#define ASSERT(c, msg) __CPROVER_assert(c, msg)

#ifndef MA_ND
#error "MA_ND, MA_NIN, MA_NBODY, MA_NMATCH, MA_RS, MA_PMAX, MA_CT, MA_NERR must be defined by the job"
#endif
#ifndef MA_NDEF
#define MA_NDEF MA_ND
#endif
#ifndef MA_NLOG
#define MA_NLOG (MA_ND * (MA_PMAX + 1))     /* detect() calls a run can make if it overruns its budget by one pass */
#endif
#define MA_MAXR (MA_NBODY * (MA_NMATCH > 1 ? MA_NMATCH : 1))   /* longest instantiated body */

// ---------------------------------------------------------------------------------------------------------------- helpers
static inline bool tok_eq(const Token &a, const Token &b) { return a.t == b.t && a.line == b.line && a.text == b.text && a.file == b.file; }
static bool vec_eq(const std::vector<Token> &a, const std::vector<Token> &b) {
  bool e = a.n == b.n;
  for (int i = 0; i < MA_CT; i++) if (i < a.n && i < b.n) e = e && tok_eq(a.u.d[i], b.u.d[i]);
  return e;
}
static char sym_lower() { int c = nondet_int(); ASSUME(c >= 'a' && c <= 'z'); return (char)c; }
static int sym_range(int lo, int hi) { int v = nondet_int(); ASSUME(v >= lo && v <= hi); return v; }
static std::string one_char(char c) { std::string s; s.__push(c); return s; }
static std::string two_char(char a, char b) { std::string s; s.__push(a); s.__push(b); return s; }
// token vectors are filled at constant indices and their size is set afterwards (no push_back at a symbolic size: a store through a
// pointer with symbolic offset into a large enclosing object is what CBMC handles worst)
#define TOKV_SET(vec, i, tok) new (&(vec).u.d[i]) Token(tok)
static bool is_constraint_kind(int k) { return k == Token::NV_ID || k == Token::ID || k == Token::INT; }
static bool is_template_kind(int k) { return k == Token::PROG_TEMP || k == Token::ARGS_TEMP || k == Token::ID_TEMP || k == Token::INT_TEMP || k == Token::VALUE_TEMP; }

// an ordinary program token (never T_EOF): any kind, one symbolic letter as text
static Token sym_plain_token() {
  Token t; t.t = (Token::Type)sym_range(1, (int)Token::UNKNOWN); t.text = one_char(sym_lower()); t.file = std::string("m"); t.line = sym_range(0, 99);
  return t;
}
// a body token: ID / INT / ';' / $k (k < ntemplates) / #k
static Token sym_body_token(int ntemplates, int line) {
  Token t; t.file = std::string("m"); t.line = line;
  int sel = sym_range(0, 4);
  if (sel == 3) ASSUME(ntemplates > 0);
  if (sel == 0) { t.t = Token::ID; t.text = one_char(sym_lower()); }
  else if (sel == 1) { t.t = Token::INT; t.text = one_char((char)('0' + sym_range(0, 9))); }
  else if (sel == 2) { t.t = Token::PROGSEP; t.text = std::string(";"); }
  else if (sel == 3) { t.t = Token::INSERTION; t.text = two_char('$', (char)('0' + sym_range(0, ntemplates - 1))); }
  else { t.t = Token::TEMP_VAL; t.text = two_char('#', (char)('0' + sym_range(0, 9))); }
  return t;
}

// libc strtol on the short decimal texts the macro code passes ("0".."999" after the '$'); anything else is outside the model
extern "C" long stub_strtol(const char *s, char **end, int base) {
  long v = 0; bool live = true; int nd = 0;
  for (int i = 0; i < 4; i++) if (live) { char c = s[i]; if (c >= '0' && c <= '9') { v = v * 10 + (c - '0'); nd++; } else live = false; }
  ASSERT(!live && end == 0 && base == 10, "harness: strtol called on a text longer than 3 digits or with end pointer/base (model bound)");
  return v;
}
// Theo::token_string lives in scan.cpp (flex TU, not linked); its result only feeds diagnostics
extern "C" std::string stub_token_string(Token::Type t) { return std::string("?"); }

// ------------------------------------------------------------------------------------------ contract stubs of the LR machinery
struct CallRec { int tag, has, loc, len; std::vector<Token> in; std::vector<std::vector<Token>> matched; };
struct Log { int conflict[MA_ND]; int n; int overflow; int ctor_calls; int adversarial; CallRec c[MA_NLOG]; };
static Log *G;

// constructor contract: stores the definition; gen_res is non-empty exactly for the definitions the harness marked as conflicting
extern "C" void stub_ctor(MacroDetector *self, MacroDefinition md) {
  new (&self->md) MacroDefinition(md);
  new (&self->gen_res) std::vector<LRParser<MacroDetector::Accumulation, Token>::GenerationResult>();
  new (&self->parser) LRParser<MacroDetector::Accumulation, Token>();
  int tag = md.rule.u.d[0].line;
  bool conf = false;
  for (int i = 0; i < MA_ND; i++) if (i == tag) conf = G->conflict[i] != 0;
  if (conf) self->gen_res.n = 1;
  G->ctor_calls++;
}

// detect contract: nullopt, or a match that lies inside the input and never covers the final T_EOF; one sequence per rule position.
// The answer is a fresh solver choice per call; every call is recorded so that the oracle can recompute the expected run.
extern "C" std::optional<MacroDetector::Response> stub_detect(MacroDetector *self, std::vector<Token> &in) {
  Log &L = *G;
  CallRec r; r.tag = self->md.rule.u.d[0].line; r.in = in;
  int n = in.n;
  bool has = nondet_bool();
  if (L.adversarial) has = true;
  if (n - 1 < 1) has = false;
  r.has = has; r.loc = 0; r.len = 0;
  MacroDetector::Response resp; resp.location = 0; resp.length = 0;
  if (has) {
    int loc = nondet_int(), len = nondet_int();
    ASSUME(loc >= 0 && loc < MA_CT && len >= 1 && len <= MA_CT && loc + len <= n - 1);
    r.loc = loc; r.len = len;
    for (int p = 0; p < MA_RS; p++) if (p < self->md.rule.n) {
      std::vector<Token> seq;
      for (int q = 0; q < MA_NMATCH; q++) TOKV_SET(seq, q, sym_plain_token());
      seq.n = sym_range(0, MA_NMATCH);
      r.matched.push_back(seq);
    }
    resp.location = loc; resp.length = len; resp.matched = r.matched;
  }
  int k = L.n;
  if (k >= MA_NLOG) L.overflow = 1;
  for (int i = 0; i < MA_NLOG; i++) if (i == k) L.c[i] = r;
  L.n = k + 1;
  if (has) return std::optional<MacroDetector::Response>(resp);
  return std::nullopt;
}

// ---------------------------------------------------------------------------------------------- counterexample read-out
extern "C" {
int CEX_nd, CEX_passes, CEX_nin, CEX_nlog, CEX_outn, CEX_nerr, CEX_rewrites, CEX_maxed;
int CEX_prio[MA_ND], CEX_conf[MA_ND], CEX_nbody[MA_ND];
int CEX_tag[MA_NLOG], CEX_has[MA_NLOG], CEX_loc[MA_NLOG], CEX_len[MA_NLOG], CEX_insize[MA_NLOG];
}

// ------------------------------------------------------------------------------------------ A. selection + loop (C09, C11)
static void sym_definition(MacroDefinition &d, int tag) {
  d.priority = nondet_int();
  // rule "A <ID>"-like: position 0 carries the identity tag of the definition in its line number
  TOKV_SET(d.rule, 0, Token(Token::ID, std::string("A"), std::string("m"), tag));
  for (int r = 1; r < MA_RS; r++) TOKV_SET(d.rule, r, Token(Token::ID_TEMP, std::string("<ID>"), std::string("m"), sym_range(0, 99)));
  d.rule.n = MA_RS;
  d.content_constraint_token_indices.u.d[0] = 0; d.content_constraint_token_indices.n = 1;
  d.template_token_indices.u.d[0] = (unsigned)sym_range(0, MA_RS - 1); d.template_token_indices.n = 1;   // which rule position $0 refers to
  int line0 = sym_range(0, 9);
  for (int b = 0; b < MA_NBODY; b++) TOKV_SET(d.replacement, b, sym_body_token(1, b == 0 ? line0 : sym_range(0, 99)));
  d.replacement.n = sym_range(0, MA_NBODY);
}

// expected[i] of cur with [loc,loc+len) replaced by R, compared with obs
static bool splice_eq(const std::vector<Token> &cur, int loc, int len, const std::vector<Token> &R, const std::vector<Token> &obs) {
  bool e = obs.n == cur.n - len + R.n;
  for (int i = 0; i < MA_CT; i++) if (i < obs.n) {
    bool same;
    if (i < loc) same = tok_eq(obs.u.d[i], cur.__at(i));
    else if (i < loc + R.n) same = tok_eq(obs.u.d[i], R.__at(i - loc));
    else same = tok_eq(obs.u.d[i], cur.__at(i - R.n + len));
    e = e && same;
  }
  return e;
}

static void run_selection(unsigned passes, bool adversarial) {
  Log L; L.n = 0; L.overflow = 0; L.ctor_calls = 0; L.adversarial = adversarial; G = &L;
  // ---- the definitions, in order of definition.  Bodies, pattern lines and the slot that $0 names are symbolic; the number of definitions,
  // their priorities and which of them the table generator rejects are CONSTANTS of the job (MA_NDEF, MA_PRIOS, MA_CONF): the family of
  // jobs enumerates every order pattern of the priorities over the definition positions (std::map only compares keys), so "independent
  // of the order of definition" is covered by the family; with symbolic priorities the priority bins become a symbolic heap shape that
  // CBMC does not decide within the budget (measured: 2 definitions, 2 input tokens: 460 s / 10 GB against 30 s).
  static const int PRIOS[MA_ND + 1] = MA_PRIOS; static const int CONF[MA_ND + 1] = MA_CONF;
  const int nd = MA_NDEF; CEX_nd = nd;
  std::vector<MacroDefinition> defs; int prio[MA_ND]; bool usable[MA_ND]; int nusable = 0, nconf = 0;
  for (int i = 0; i < MA_ND; i++) {
    L.conflict[i] = 0; usable[i] = false; prio[i] = 0;
    if (i < nd) {
      L.conflict[i] = CONF[i];
      MacroDefinition d; sym_definition(d, i); d.priority = PRIOS[i]; defs.push_back(d); prio[i] = d.priority; usable[i] = !L.conflict[i];
      if (usable[i]) nusable++; else nconf++;
      CEX_nbody[i] = d.replacement.n;
    }
    CEX_prio[i] = prio[i]; CEX_conf[i] = L.conflict[i];
  }
  // ---- symbolic input: <= MA_NIN tokens, then the single T_EOF
  std::vector<Token> input; int nin = sym_range(0, MA_NIN); CEX_nin = nin;
  { Token eof(Token::T_EOF, std::string(""), std::string("m"), sym_range(0, 99));
    for (int i = 0; i <= MA_NIN; i++) { Token t = sym_plain_token(); if (i == nin) t = eof; TOKV_SET(input, i, t); }
    input.n = nin + 1; }
  CEX_passes = (int)passes;

  MacroApplicationResult res = Theo::apply_macros(input, defs, passes);

  const std::vector<Token> &out = res.transformed_sequence;
  CEX_nlog = L.n; CEX_outn = out.n; CEX_nerr = res.errors.n;
  for (int j = 0; j < MA_NLOG; j++) { CEX_tag[j] = L.c[j].tag; CEX_has[j] = L.c[j].has; CEX_loc[j] = L.c[j].loc; CEX_len[j] = L.c[j].len; CEX_insize[j] = L.c[j].in.n; }

  // ---- oracle: replay the recorded answers of the detectors through the specification
  std::vector<Token> cur = input, observed;
  int pass = 0, rewrites = 0, hp = 0, remaining = 0, bestloc = 0, bestlen = 0;
  bool done[MA_ND]; for (int i = 0; i < MA_ND; i++) done[i] = false;
  bool in_window = false, have_best = false, best_ok = false, finished = false;
  bool ok_member = true, ok_in = true, ok_budget = true, ok_after_end = true, ok_step = true, ok_temp = true;
  for (int j = 0; j < MA_NLOG; j++) if (j < L.n) {
    const CallRec &e = L.c[j];
    if (finished) ok_after_end = false;
    if (!in_window) {
      // a new bin: the highest priority among the usable detectors not yet consulted in this pass
      bool any = false;
      for (int i = 0; i < MA_ND; i++) if (usable[i] && !done[i] && (!any || prio[i] > hp)) { hp = prio[i]; any = true; }
      remaining = 0;
      for (int i = 0; i < MA_ND; i++) if (any && usable[i] && !done[i] && prio[i] == hp) remaining++;
      in_window = true; have_best = false; best_ok = false;
      // the token sequence after this bin's decision is what the next consulted detector sees, or the final result
      int nx = j + remaining;
      observed = out;
      for (int q = 0; q < MA_NLOG; q++) if (q == nx && q < L.n) observed = L.c[q].in;
    }
    bool member = false;
    for (int i = 0; i < MA_ND; i++) if (i == e.tag) { member = usable[i] && !done[i] && prio[i] == hp; done[i] = true; }
    ok_member = ok_member && member;
    remaining--;
    ok_in = ok_in && vec_eq(e.in, cur);
    ok_budget = ok_budget && (unsigned)pass < passes;
    if (e.has) {
      bool better = !have_best || e.loc < bestloc || (e.loc == bestloc && e.len > bestlen);
      bool tie = have_best && e.loc == bestloc && e.len == bestlen;
      if (better || tie) {
        int tg = e.tag; if (tg < 0 || tg >= MA_ND) tg = 0;
        MacroDetector det(defs.__at(tg));
        MacroDetector::Response rp; rp.location = e.loc; rp.length = e.len; rp.matched = e.matched;
        std::vector<Token> R = get_replacement(std::make_pair(det, rp), pass);
        bool same = splice_eq(cur, e.loc, e.len, R, observed);
        if (better) { have_best = true; bestloc = e.loc; bestlen = e.len; best_ok = same; } else best_ok = best_ok || same;
      }
    }
    if (remaining <= 0) {
      in_window = false;
      if (have_best) { ok_step = ok_step && best_ok; cur = observed; pass++; rewrites++; for (int i = 0; i < MA_ND; i++) done[i] = false; }
      else { bool left = false; for (int i = 0; i < MA_ND; i++) if (usable[i] && !done[i]) left = true; if (!left) finished = true; }
    }
  }
  CEX_rewrites = rewrites;
  bool spec_end = !in_window && (finished || (unsigned)pass >= passes || nusable == 0);
  bool maxed = false; int nmax = 0;
  for (int i = 0; i < MA_NERR; i++) if (i < res.errors.n && res.errors.u.d[i].t == ParseError::MACRO_APPLY_REACHED_MAX_PASSES) { maxed = true; nmax++; }
  CEX_maxed = maxed;

  ASSERT(!L.overflow, "harness: more detect() calls than the log holds (model bound)");
  // --- C09 selection
  ASSERT(ok_member, "C09: detectors are consulted by descending priority, every usable detector of the current priority exactly once before the decision, whatever the order of definition");
  ASSERT(ok_in, "C09: every detector consulted sees the token sequence produced by the rewriting steps so far (nothing else changes it)");
  ASSERT(ok_step, "C09: the step taken replaces exactly the reported range of the highest-priority, then leftmost, then longest match by get_replacement's tokens; all other tokens untouched and in order");
  ASSERT(ok_after_end, "C09: once a pass finds no match of any usable macro no further detector is consulted");
  ASSERT(spec_end, "C09: rewriting repeats until no pattern matches or the budget is exhausted, and every bin that is consulted is consulted completely");
  ASSERT(vec_eq(cur, out), "C09: the result is the token sequence after the last rewriting step (equal to the input when nothing matched)");
  if (L.n == 0) ASSERT(vec_eq(input, out) && !maxed, "C09: without any match of a usable macro the output equals the input and no MAX_PASSES error is reported");
  { int neof = 0; for (int i = 0; i < MA_CT; i++) if (i < out.n && out.u.d[i].t == Token::T_EOF) neof++;
    ASSERT(out.n >= 1 && neof == 1 && out.__at(out.n - 1).t == Token::T_EOF, "C09: the result still ends in the single T_EOF"); }
  // --- C10 relies on: one rewriting step per pass number (get_replacement(.., pass) of the oracle uses the step index)
  ASSERT(ok_step && ok_budget, "C10: the k-th rewriting step of a run is the only one that instantiates its temporaries with pass number k");
  // --- C11 budget
  ASSERT(ok_budget && (unsigned)rewrites <= passes, "C11: at most `passes` rewriting steps; no detector is consulted after the budget is used up");
  if ((unsigned)rewrites < passes) ASSERT(!maxed, "C11: when some pass finds nothing the loop stops and no MAX_PASSES error is added");
  if ((unsigned)rewrites == passes && passes > 0) ASSERT(maxed, "C11: when every pass of the budget rewrote, MACRO_APPLY_REACHED_MAX_PASSES is reported");
  ASSERT(nmax <= 1 && res.errors.n == nconf + nmax, "C11: the error list holds one entry per rejected macro and at most one MAX_PASSES entry");
  ASSERT(out.n <= input.n + (int)passes * MA_MAXR && out.n <= input.n + rewrites * (MA_MAXR - 1), "C11: output size <= input size + passes * longest instantiated body");
  // --- C12 (usable filter; the generator itself is someone else's obligation)
  { bool ok = true; int k = 0;
    for (int i = 0; i < MA_ND; i++) if (i < nd && L.conflict[i]) {
      bool found = false;
      for (int q = 0; q < MA_NERR; q++) if (q == k && q < res.errors.n) { const ParseError &pe = res.errors.u.d[q]; found = pe.t == ParseError::MACRO_COMPILE_NON_LR && pe.line == i && pe.file == std::string("m"); }
      ok = ok && found; k++;
    }
    ASSERT(ok, "C12: every macro whose table generation reported a conflict yields one MACRO_COMPILE_NON_LR error at the file/line of its first pattern token, in definition order");
    bool asked_rejected = false;
    for (int j = 0; j < MA_NLOG; j++) if (j < L.n) for (int i = 0; i < MA_ND; i++) if (i == L.c[j].tag && L.conflict[i]) asked_rejected = true;
    ASSERT(!asked_rejected, "C12: a rejected macro is never consulted and does not block the accepted ones");
  }
}

#ifdef MA_PFIX
extern "C" void h_select() {
  run_selection(MA_PFIX, false);
  ASSERT(0, "WITNESS: end of h_select reachable");
}
#endif

extern "C" void h_loop() {
  unsigned passes = (unsigned)sym_range(0, MA_PMAX);
  run_selection(passes, false);
  ASSERT(CEX_rewrites < MA_PMAX, "C11(EXISTS): a run in which every pass of the largest budget rewrites");
  ASSERT(0, "WITNESS: end of h_loop reachable");
}

// adversarial detector: always reports a match (whenever the input still has a token before T_EOF)
extern "C" void h_adversarial() {
  unsigned passes = (unsigned)sym_range(1, MA_PMAX);
  run_selection(passes, true);
  ASSERT(0, "WITNESS: end of h_adversarial reachable");
}
