// C08, layer A on the generator's breakpoint bookkeeping.  The functions under test are the REAL member functions of the
// TU-local struct GenState of /repo/Compiler/src/gen.cpp (breakpoint, removeTopPotBreak, advanceLine, getMarkPos, emit) and
// the real Theo::gen; nothing of them is re-implemented here.  Every obligation is ONE real call from an ARBITRARY symbolic
// GenState (code, both tables, current file/line) that satisfies the invariant Inv_tab; Inv_tab is asserted again after the
// call, so it holds after generator runs of any length (induction over the calls; base case h_base).
//
// Inv_tab(gs):
//  (a) every (idx -> bp) of line_info: idx < code.size(), code[idx] is POTENTIAL_BREAK, potential_breaks has bp and its vector
//      contains idx exactly once;
//  (b) every (bp -> vec) of potential_breaks: vec is not empty and every idx in vec has line_info[idx] == bp;
//  (c) every POTENTIAL_BREAK instruction is a key of line_info;
//  (d) no location of either table has the file "__standards__";
//  (e) the current file fs.name is not "__standards__"          (needed for (d) to be inductive: breakpoint() labels with fs);
//  (f) code is not empty and code[0] is not a POTENTIAL_BREAK    (needed for back() in getMarkPos/removeTopPotBreak: code[0]
//      is the PREPARE_EXEC of the root routine and removeTopPotBreak pops breakpoint instructions only).
// The predicate reads the real containers slot by slot (as a range-for would) and compares with ==; the ordered look-ups
// (find / operator[] / erase) are executed by the code under test only.  That the slots of a map are sorted by key is the
// representation invariant of the container: it holds by construction in the pre-state and is kept by the container model.
//
// Entries: h_breakpoint, h_remove_top, h_advance_line, h_mark_pos, h_emit (one call from an arbitrary Inv_tab state each),
// h_factories (premise of h_emit), h_base (the state Theo::gen() starts from; gen_ast() replaced by the observer stub_gen_ast).
// A layer-C entry (whole real gen() on a hand-built tree with symbolic node labels) was tried and removed: CBMC 6.11 does not
// finish symbolic execution within 300 s even for a one-statement tree; props/c08.py compiles tricky layouts natively instead.
// The harness is written against the container model only (job option native=False).
#include "Compiler/src/gen.cpp"

extern "C" { int nondet_int(); }
static inline bool nondet_bool() { return (nondet_int() & 1) != 0; }
#define ASSUME(c) __CPROVER_assume(c)
#define ASSERT(c, msg) __CPROVER_assert(c, msg)

#define CODE_CAP (GEN_L + 1)
#define SITE_CAP (GEN_NSITE + 1)
#define LOC_CAP (GEN_NLOC + 1)
#define IVEC_CAP (GEN_NSITE + 1)
typedef std::map<BreakPoint, std::vector<ProgramIndex>> PBMap;
typedef std::map<ProgramIndex, BreakPoint> LIMap;
static_assert(std::vector<Instruction>::VCAP == CODE_CAP, "caps_gen.hpp out of step with the harness");
static_assert(LIMap::MCAP == SITE_CAP && PBMap::MCAP == LOC_CAP && std::vector<ProgramIndex>::VCAP == IVEC_CAP, "caps_gen.hpp out of step with the harness");

// ---- counterexample read-out
extern "C" {
int CEX_n, CEX_nsite, CEX_nloc, CEX_fs_file, CEX_fs_line, CEX_arg_file, CEX_arg_line, CEX_arg_op;
int CEX_op[CODE_CAP], CEX_site[SITE_CAP], CEX_site_file[SITE_CAP], CEX_site_line[SITE_CAP];
int CEX_loc_file[LOC_CAP], CEX_loc_line[LOC_CAP], CEX_loc_n[LOC_CAP], CEX_loc_sites[LOC_CAP * IVEC_CAP];
}

static const char *const STD = "__standards__";
// file names: three ordinary ones and the hidden standard-macro file ("__standards__" < "a" < "b" < "c"); the strings are built
// once per run (init_names) and copied afterwards (a copy is one struct assignment in the container model)
static std::string NAMES[4];
static void init_names() { NAMES[0] = std::string("a"); NAMES[1] = std::string("b"); NAMES[2] = std::string("c"); NAMES[3] = std::string(STD); }
static std::string fname(int f) { std::string r = NAMES[0]; if (f == 1) r = NAMES[1]; if (f == 2) r = NAMES[2]; if (f == 3) r = NAMES[3]; return r; }
static inline bool is_std(const std::string &s) { return s == NAMES[3]; }
static inline bool same_bp(const BreakPoint &a, const BreakPoint &b) { return (a.line == b.line) & (a.file == b.file); }
static inline bool is_pb(const Instruction &i) { return i.op == OpCode::POTENTIAL_BREAK; }
static int count_in(const std::vector<ProgramIndex> &v, int x) { int c = 0; for (int i = 0; i < IVEC_CAP; i++) if (i < (int)v.size() && v.u.d[i] == x) c++; return c; }

// look-ups by scanning the slots of the real containers with == (what a range-for over the map would see; the ordered
// look-up of the map itself costs three string orderings per slot and is left to the code under test).  (found, value)
static bool li_get(const LIMap &m, int idx, BreakPoint &bp) {
  bool h = false;
  for (int k = 0; k < SITE_CAP; k++) if (k < (int)m.size() && m.u.d[k].first == idx) { h = true; bp = m.u.d[k].second; }
  return h;
}
static bool li_has(const LIMap &m, int idx) { bool h = false; for (int k = 0; k < SITE_CAP; k++) if (k < (int)m.size() && m.u.d[k].first == idx) h = true; return h; }
static bool pb_get(const PBMap &m, const BreakPoint &bp, std::vector<ProgramIndex> &v) {
  bool h = false;
  for (int j = 0; j < LOC_CAP; j++) if (j < (int)m.size() && same_bp(m.u.d[j].first, bp)) { h = true; v = m.u.d[j].second; }
  return h;
}
static bool pb_has(const PBMap &m, const BreakPoint &bp) { bool h = false; for (int j = 0; j < LOC_CAP; j++) if (j < (int)m.size() && same_bp(m.u.d[j].first, bp)) h = true; return h; }

// ---- the invariant, over the real containers of the real Program and the real FileState
static bool inv_tab(const Program &p, const FileState &fs) {
  int n = (int)p.code.size(), ns = (int)p.line_info.size(), nl = (int)p.potential_breaks.size();
  bool ok = n >= 1 && n <= CODE_CAP && ns >= 0 && ns <= SITE_CAP && nl >= 0 && nl <= LOC_CAP;
  if (!ok) return false;
  ok = !is_pb(p.code.u.d[0]);                                                                             // (f)
  ok = ok & !is_std(fs.name);                                                                              // (e)
  for (int k = 0; k < SITE_CAP; k++) if (k < ns) {                                                        // (a), (d)
    const auto &sl = p.line_info.u.d[k];
    int idx = sl.first;
    bool in = idx >= 0 && idx < n;
    bool pb = false;
    for (int i = 0; i < CODE_CAP; i++) if (i == idx) pb = is_pb(p.code.u.d[i]);
    // exactly one location slot carries this site's label, that slot lists the site exactly once; every slot that lists the
    // site carries its label (this is (b) read from the site's side)
    int owners = 0; bool once = false, others = true;
    for (int j = 0; j < LOC_CAP; j++) if (j < nl) {
      const auto &lo = p.potential_breaks.u.d[j];
      bool eq = same_bp(lo.first, sl.second);
      int cnt = count_in(lo.second, idx);
      if (eq) { owners++; once = cnt == 1; }
      else others = others & (cnt == 0);
    }
    ok = ok & in & pb & (owners == 1) & once & others & !is_std(sl.second.file);
  }
  for (int j = 0; j < LOC_CAP; j++) if (j < nl) {                                                         // (b), (d)
    const auto &lo = p.potential_breaks.u.d[j];
    int vn = (int)lo.second.size();
    bool listed = true;
    for (int c = 0; c < IVEC_CAP; c++) if (c < vn) listed = listed & li_has(p.line_info, lo.second.u.d[c]);
    ok = ok & (vn >= 1) & (vn <= IVEC_CAP) & listed & !is_std(lo.first.file);
  }
  for (int i = 0; i < CODE_CAP; i++) if (i < n && is_pb(p.code.u.d[i])) ok = ok & li_has(p.line_info, i);   // (c)
  return ok;
}

// ---- arbitrary generator state: code, both tables and the current position are symbolic; only the representation
// invariants of the containers themselves (sizes within capacity, map keys strictly increasing) hold by construction.
// The pre-state is inside the bounds GEN_L / GEN_NSITE / GEN_NLOC; the capacities are one larger (room for the call's effect).
static void sym_state(GenState &gs) {
  Program &p = gs.out;
  int n = nondet_int(); ASSUME(n >= 0 && n <= GEN_L); CEX_n = n;
  for (int i = 0; i < CODE_CAP; i++) {
    Instruction ins; int op = nondet_int(); ASSUME(op >= 0 && op <= 11); ins.op = (OpCode)op;
    ins.parameters.test.target = nondet_int(); ins.parameters.test.op1 = nondet_int(); ins.parameters.test.op2 = nondet_int();
    p.code.u.d[i] = ins; CEX_op[i] = op;
  }
  p.code.n = n;
  int ns = nondet_int(); ASSUME(ns >= 0 && ns <= GEN_NSITE); CEX_nsite = ns;
  for (int k = 0; k < SITE_CAP; k++) {
    int idx = nondet_int(), f = nondet_int(), l = nondet_int(); ASSUME(f >= 0 && f <= 3);
    auto &sl = p.line_info.u.d[k]; sl.first = idx; sl.second.file = fname(f); sl.second.line = l;
    if (k > 0 && k < ns) ASSUME(p.line_info.u.d[k - 1].first < idx);
    CEX_site[k] = idx; CEX_site_file[k] = f; CEX_site_line[k] = l;
  }
  p.line_info.n = ns;
  int nl = nondet_int(); ASSUME(nl >= 0 && nl <= GEN_NLOC); CEX_nloc = nl;
  for (int j = 0; j < LOC_CAP; j++) {
    int f = nondet_int(), l = nondet_int(), vn = nondet_int(); ASSUME(f >= 0 && f <= 3); ASSUME(vn >= 0 && vn <= GEN_NSITE);
    auto &sl = p.potential_breaks.u.d[j]; sl.first.file = fname(f); sl.first.line = l;
    for (int c = 0; c < IVEC_CAP; c++) { int idx = nondet_int(); sl.second.u.d[c] = idx; CEX_loc_sites[j * IVEC_CAP + c] = idx; }
    sl.second.n = vn;
    if (j > 0 && j < nl) ASSUME(p.potential_breaks.u.d[j - 1].first < sl.first);   // the real operator<(BreakPoint, BreakPoint)
    CEX_loc_file[j] = f; CEX_loc_line[j] = l; CEX_loc_n[j] = vn;
  }
  p.potential_breaks.n = nl;
  int ff = nondet_int(), fl = nondet_int(); ASSUME(ff >= 0 && ff <= 3);
  gs.fs.name = fname(ff); gs.fs.line = fl; CEX_fs_file = ff; CEX_fs_line = fl;
}

// ---- effects
static bool same_instr(const Instruction &a, const Instruction &b) {
  return (a.op == b.op) & (a.parameters.test.target == b.parameters.test.target) & (a.parameters.test.op1 == b.parameters.test.op1) & (a.parameters.test.op2 == b.parameters.test.op2);
}
// the first m instructions of q are those of p
static bool code_prefix(const Program &p, const Program &q, int m) {
  bool ok = true;
  for (int i = 0; i < CODE_CAP; i++) if (i < m) ok = ok & same_instr(p.code.u.d[i], q.code.u.d[i]);
  return ok;
}
static bool instr_at(const Program &p, int at, Instruction &out) { bool h = false; for (int i = 0; i < CODE_CAP; i++) if (i == at && i < (int)p.code.size()) { h = true; out = p.code.u.d[i]; } return h; }
static bool same_vec(const std::vector<ProgramIndex> &a, const std::vector<ProgramIndex> &b) {
  bool ok = a.size() == b.size();
  for (int c = 0; c < IVEC_CAP; c++) if (c < (int)a.size()) ok = ok & (a.u.d[c] == b.u.d[c]);
  return ok;
}
// both tables identical, slot by slot (the representation is canonical: slots sorted by key)
static bool tables_same(const Program &p, const Program &q) {
  bool ok = p.line_info.size() == q.line_info.size() && p.potential_breaks.size() == q.potential_breaks.size();
  for (int k = 0; k < SITE_CAP; k++) if (k < (int)p.line_info.size()) ok = ok & (p.line_info.u.d[k].first == q.line_info.u.d[k].first) & same_bp(p.line_info.u.d[k].second, q.line_info.u.d[k].second);
  for (int j = 0; j < LOC_CAP; j++) if (j < (int)p.potential_breaks.size()) ok = ok & same_bp(p.potential_breaks.u.d[j].first, q.potential_breaks.u.d[j].first) & same_vec(p.potential_breaks.u.d[j].second, q.potential_breaks.u.d[j].second);
  return ok;
}
static bool unchanged(const Program &pre, const Program &post) {
  return pre.code.size() == post.code.size() && code_prefix(pre, post, (int)pre.code.size()) && tables_same(pre, post);
}
// exactly one POTENTIAL_BREAK appended and exactly one site (index = old code size) registered at loc; everything older kept
static bool one_site_added(const Program &pre, const Program &post, const BreakPoint &loc) {
  int at = (int)pre.code.size();
  bool ok = (int)post.code.size() == at + 1 && code_prefix(pre, post, at);
  { Instruction top; bool h = instr_at(post, at, top); ok = ok && h && is_pb(top); }
  // site -> location
  ok = ok && post.line_info.size() == pre.line_info.size() + 1;
  for (int k = 0; k < SITE_CAP; k++) if (k < (int)pre.line_info.size()) {
    BreakPoint bp; bool has = li_get(post.line_info, pre.line_info.u.d[k].first, bp);
    ok = ok && has; if (has) ok = ok && same_bp(bp, pre.line_info.u.d[k].second);
  }
  { BreakPoint bp; bool has = li_get(post.line_info, at, bp); ok = ok && has; if (has) ok = ok && same_bp(bp, loc); }
  // location -> sites
  bool known = pb_has(pre.potential_breaks, loc);
  ok = ok && post.potential_breaks.size() == pre.potential_breaks.size() + (known ? 0 : 1);
  for (int j = 0; j < LOC_CAP; j++) if (j < (int)pre.potential_breaks.size()) {
    const auto &sl = pre.potential_breaks.u.d[j];
    std::vector<ProgramIndex> v; bool has = pb_get(post.potential_breaks, sl.first, v);
    ok = ok && has;
    if (has) {
      bool mine = same_bp(sl.first, loc);
      int vn = (int)sl.second.size();
      ok = ok && (int)v.size() == vn + (mine ? 1 : 0);
      for (int c = 0; c < IVEC_CAP; c++) if (c < vn) ok = ok && v.u.d[c] == sl.second.u.d[c];
      if (mine) for (int c = 0; c < IVEC_CAP; c++) if (c == vn) ok = ok && v.u.d[c] == at;
    }
  }
  if (!known) { std::vector<ProgramIndex> v; bool has = pb_get(post.potential_breaks, loc, v); ok = ok && has; if (has) ok = ok && v.size() == 1 && v.u.d[0] == at; }
  return ok;
}
// exactly the top instruction (a POTENTIAL_BREAK) and exactly its site removed; the other sites of its line stay
static bool top_site_removed(const Program &pre, const Program &post) {
  int top = (int)pre.code.size() - 1;
  bool ok = (int)post.code.size() == top && code_prefix(pre, post, top);
  BreakPoint loc; bool listed = li_get(pre.line_info, top, loc);
  ok = ok && listed;                                             // (Inv_tab (c) of the pre-state)
  ok = ok && post.line_info.size() + 1 == pre.line_info.size() && !li_has(post.line_info, top);
  for (int k = 0; k < SITE_CAP; k++) if (k < (int)pre.line_info.size() && pre.line_info.u.d[k].first != top) {
    BreakPoint bp; bool has = li_get(post.line_info, pre.line_info.u.d[k].first, bp);
    ok = ok && has; if (has) ok = ok && same_bp(bp, pre.line_info.u.d[k].second);
  }
  int gone = 0;
  for (int j = 0; j < LOC_CAP; j++) if (j < (int)pre.potential_breaks.size()) {
    const auto &sl = pre.potential_breaks.u.d[j];
    std::vector<ProgramIndex> v; bool has = pb_get(post.potential_breaks, sl.first, v);
    if (listed && same_bp(sl.first, loc)) {
      // the line of the removed site: its vector without `top`, order kept; the entry disappears only if nothing is left
      std::vector<ProgramIndex> want;
      for (int c = 0; c < IVEC_CAP; c++) if (c < (int)sl.second.size() && sl.second.u.d[c] != top) { for (int q = 0; q < IVEC_CAP; q++) if (q == want.n) want.u.d[q] = sl.second.u.d[c]; want.n++; }
      if (want.n == 0) { ok = ok && !has; gone++; }
      else ok = ok && has && same_vec(want, v);
    } else {
      ok = ok && has; if (has) ok = ok && same_vec(v, sl.second);
    }
  }
  ok = ok && post.potential_breaks.size() + gone == pre.potential_breaks.size();
  return ok;
}

static GenState fresh_state() {
  init_names();
  GenState gs = {.in = {}, .out = {.code = {}, .stack_maps = {}, .potential_breaks = {}, .line_info = {}}, .errors = {}, .symbols = {},
                 .funcAddrs = {}, .labels = {}, .backpatching_todo = {}, .fs = {.name = "a", .line = 0}};
  return gs;
}

// ---------------------------------------------------------------------------------------------------------
extern "C" void h_breakpoint() {
  GenState gs = fresh_state(); sym_state(gs);
  ASSUME(inv_tab(gs.out, gs.fs));
  Program pre = gs.out; FileState fs0 = gs.fs;
  gs.breakpoint();
  BreakPoint here = {fs0.name, fs0.line};
  ASSERT(one_site_added(pre, gs.out, here), "C08: breakpoint() appends exactly one POTENTIAL_BREAK and registers exactly that site, in both tables, at the current file and line; all older sites unchanged");
  ASSERT(gs.fs.line == fs0.line && gs.fs.name == fs0.name, "C08: breakpoint() leaves the current file and line unchanged");
  ASSERT(inv_tab(gs.out, gs.fs), "C08: Inv_tab preserved by breakpoint() (tables inverse, sites == POTENTIAL_BREAK instructions, no __standards__)");
  ASSERT(0, "WITNESS: end of h_breakpoint reachable");
}

// ---------------------------------------------------------------------------------------------------------
extern "C" void h_remove_top() {
  GenState gs = fresh_state(); sym_state(gs);
  ASSUME(inv_tab(gs.out, gs.fs));
  Program pre = gs.out; FileState fs0 = gs.fs;
  bool top_is_site = is_pb(pre.code.__at((int)pre.code.size() - 1));
  gs.removeTopPotBreak();
  if (top_is_site) {
    ASSERT(top_site_removed(pre, gs.out), "C08: removeTopPotBreak() removes exactly the top POTENTIAL_BREAK and exactly its site from both tables; other sites of the same line stay");
  } else {
    ASSERT(unchanged(pre, gs.out), "C08: removeTopPotBreak() changes nothing when the top instruction is not a POTENTIAL_BREAK");
  }
  ASSERT(gs.fs.line == fs0.line && gs.fs.name == fs0.name, "C08: removeTopPotBreak() leaves the current file and line unchanged");
  ASSERT(inv_tab(gs.out, gs.fs), "C08: Inv_tab preserved by removeTopPotBreak()");
  // existential side: both branches, and the branch "line keeps another site", are inside the bounds
  {
    bool shared = false;
    if (top_is_site) { BreakPoint loc; std::vector<ProgramIndex> v; if (li_get(pre.line_info, (int)pre.code.size() - 1, loc) && pb_get(pre.potential_breaks, loc, v)) shared = v.size() >= 2; }
    ASSERT(!shared, "C08(EXISTS): a pre-state in which the removed site shares its line with another site");
  }
  ASSERT(0, "WITNESS: end of h_remove_top reachable");
}

// ---------------------------------------------------------------------------------------------------------
extern "C" void h_advance_line() {
  GenState gs = fresh_state(); sym_state(gs);
  ASSUME(inv_tab(gs.out, gs.fs));
  Program pre = gs.out; FileState fs0 = gs.fs;
  // argument: any line; file = one of the ordinary names (this includes the current one) or "__standards__"
  int af = nondet_int(), al = nondet_int(); ASSUME(af >= 0 && af <= 3); CEX_arg_file = af; CEX_arg_line = al;
  std::string file = fname(af);
  bool hidden = af == 3;
  bool same_place = !hidden && file == fs0.name && al == fs0.line;
  gs.advanceLine(al, file);
  if (hidden) {
    ASSERT(unchanged(pre, gs.out) && gs.fs.line == fs0.line && gs.fs.name == fs0.name, "C08: advanceLine() onto a token of __standards__ changes nothing (no site, current position kept)");
  } else if (same_place) {
    ASSERT(unchanged(pre, gs.out) && gs.fs.line == fs0.line && gs.fs.name == fs0.name, "C08: advanceLine() onto the current file and line emits no site");
  } else {
    BreakPoint there = {file, al};
    ASSERT(one_site_added(pre, gs.out, there), "C08: advanceLine() onto another (file, line) emits exactly one site, labelled with exactly that file and line");
    ASSERT(gs.fs.line == al && gs.fs.name == file, "C08: advanceLine() makes the node's file and line the current position");
    // a jump mark placed now designates the site of its own line
    ProgramIndex m = gs.getMarkPos();
    BreakPoint bp; bool has = li_get(gs.out.line_info, m, bp);
    ASSERT(m == (int)pre.code.size() && has && same_bp(bp, there), "C08: right after advanceLine() emitted a site, getMarkPos() is that site");
  }
  ASSERT(inv_tab(gs.out, gs.fs), "C08: Inv_tab preserved by advanceLine(); in particular no site is labelled __standards__");
  // existential side: every case of the specification is inside the bounds
  ASSERT(!hidden, "C08(EXISTS): a call with file __standards__");
  ASSERT(!same_place, "C08(EXISTS): a call onto the current position");
  ASSERT(hidden || same_place || !pb_has(pre.potential_breaks, BreakPoint{file, al}), "C08(EXISTS): a call that re-enters a line which already owns a site");
  ASSERT(hidden || file == fs0.name, "C08(EXISTS): a call that changes the file");
  ASSERT(0, "WITNESS: end of h_advance_line reachable");
}

// ---------------------------------------------------------------------------------------------------------
extern "C" void h_mark_pos() {
  GenState gs = fresh_state(); sym_state(gs);
  ASSUME(inv_tab(gs.out, gs.fs));
  Program pre = gs.out; FileState fs0 = gs.fs;
  int n = (int)pre.code.size();
  bool top_is_site = is_pb(pre.code.__at(n - 1));
  ProgramIndex m = gs.getMarkPos();
  ASSERT(m == (top_is_site ? n - 1 : n), "C08: getMarkPos() is the top instruction if that is a POTENTIAL_BREAK, else the next position");
  ASSERT(gs.getNextPos() == n, "C08: getNextPos() is the code size");
  ASSERT(unchanged(pre, gs.out) && gs.fs.line == fs0.line && gs.fs.name == fs0.name, "C08: getMarkPos()/getNextPos() change nothing");
  ASSERT(0, "WITNESS: end of h_mark_pos reachable");
}

// ---------------------------------------------------------------------------------------------------------
extern "C" void h_emit() {
  GenState gs = fresh_state(); sym_state(gs);
  ASSUME(inv_tab(gs.out, gs.fs));
  Program pre = gs.out; FileState fs0 = gs.fs;
  Instruction ins; int op = nondet_int(); ASSUME(op >= 1 && op <= 11); ins.op = (OpCode)op; CEX_arg_op = op;   // any opcode but POTENTIAL_BREAK (0)
  ins.parameters.test.target = nondet_int(); ins.parameters.test.op1 = nondet_int(); ins.parameters.test.op2 = nondet_int();
  gs.emit(ins);
  int n = (int)pre.code.size();
  bool app = (int)gs.out.code.size() == n + 1 && code_prefix(pre, gs.out, n);
  if (app) app = same_instr(gs.out.code.__at(n), ins);
  ASSERT(app, "C08: emit() appends exactly the given instruction");
  ASSERT(tables_same(pre, gs.out) && gs.fs.line == fs0.line && gs.fs.name == fs0.name, "C08: emit() leaves both tables and the current position unchanged");
  ASSERT(inv_tab(gs.out, gs.fs), "C08: Inv_tab preserved by emit() of an instruction other than POTENTIAL_BREAK");
  ASSERT(0, "WITNESS: end of h_emit reachable");
}

// ---------------------------------------------------------------------------------------------------------
// premise of h_emit: the instructions gen.cpp hands to emit() outside breakpoint() come from these factories (syntactic
// check in props/c08.py); none of them yields a POTENTIAL_BREAK, whatever the operands
extern "C" void h_factories() {
  int a = nondet_int(), b = nondet_int(), c = nondet_int();
  bool none = !is_pb(Instruction::Halt()) && !is_pb(Instruction::Break()) && !is_pb(Instruction::Test(a, b, c)) && !is_pb(Instruction::Add(a, b, c)) &&
              !is_pb(Instruction::Jmp(a)) && !is_pb(Instruction::JmpC(a, b)) && !is_pb(Instruction::PrepareExec(a, b, c)) && !is_pb(Instruction::Arg(a, b)) &&
              !is_pb(Instruction::Exec(a)) && !is_pb(Instruction::Ret(a)) && !is_pb(Instruction::LoadConstant(a, b));
  ASSERT(none, "C08: no instruction factory other than PotentialBreak() yields a POTENTIAL_BREAK");
  ASSERT(is_pb(Instruction::PotentialBreak()), "C08: PotentialBreak() yields a POTENTIAL_BREAK");
  ASSERT(0, "WITNESS: end of h_factories reachable");
}

// ---------------------------------------------------------------------------------------------------------
// base case: the state Theo::gen() constructs and hands to gen_ast() (gen_ast is replaced by this observer in the job's build)
static int base_seen;
extern "C" void stub_gen_ast(GenState &gs) {
  base_seen++;
  ASSERT(gs.out.line_info.size() == 0 && gs.out.potential_breaks.size() == 0, "C08: gen() starts with empty breakpoint tables");
  ASSERT(gs.out.code.size() == 1 && gs.out.code.u.d[0].op == OpCode::PREPARE_EXEC, "C08: gen() starts with the root PREPARE_EXEC as only instruction");
  ASSERT(inv_tab(gs.out, gs.fs), "C08: the state gen() starts from satisfies Inv_tab (base case)");
}
extern "C" void h_base() {
  init_names();
  AST a; a.parsed_correctly = nondet_bool(); a.root = NULL;
  base_seen = 0;
  CodegenResult r = Theo::gen(a);
  ASSERT(base_seen == 1, "C08: gen() runs the traversal exactly once, from the constructed state");
  FileState any = {.name = "a", .line = 0};
  ASSERT(inv_tab(r.code, any), "C08: gen() on an empty traversal returns a program that satisfies Inv_tab (root stack map, HALT, backpatching touch no table)");
  ASSERT(0, "WITNESS: end of h_base reachable");
}

