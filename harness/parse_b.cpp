// Layer B for the recursive-descent parser of Compiler/src/parse.cpp (C04, C02): ONE real grammar function at a time, every callee
// (including the recursive call) replaced by its CONTRACT stub (ir2c --stub), on a symbolic token window with a symbolic cursor.
// Obligations per function X (reference = LL(1) table generated from spec/grammar.ll1, header PB_DATA):
//   SOUND     no new error  =>  what X consumed (its own terminals and the spans of its callees, in order) is a row of X selected by the lookahead
//   COMPLETE  a row is selected, the tokens X reads itself are the row's terminals, no callee reports an error, every non-nullable callee is
//             entered on a token of its FIRST set and the token after X is in FOLLOW(X)  =>  X records no error of its own
//   SAFE      no container precondition / null dereference, cursor monotone and never past T_EOF, progress, result-nullness contract
// Soundness of the composition (standard): a recursive-descent parser whose every function implements its row selection accepts exactly L(G);
// the obligations hold for windows at any position of a token stream of any length (nothing outside the window is read).
#include "Compiler/src/parse.cpp"
#include PB_DATA
extern "C" { int nondet_int(); }
static inline bool nondet_bool() { return (nondet_int() & 1) != 0; }
#define ASSUME(c) __CPROVER_assume(c)
#define ASSERT(c, msg) __CPROVER_assert(c, msg)
#ifndef PB_W
#define PB_W 10
#endif
#define PB_MAXLOG 6

static std::vector<Token> *g_toks; static int g_n;          // window: g_n tokens, the last one is the only T_EOF
static int LOG_NT[PB_MAXLOG], LOG_START[PB_MAXLOG], LOG_END[PB_MAXLOG], LOG_ERR[PB_MAXLOG]; static int n_log; static int stub_errors;
extern "C" { int CEX_kind[PB_W], CEX_n, CEX_at, CEX_nt; }

static bool in_mask(unsigned long m, int k) { return k >= 0 && k < 39 && ((m >> k) & 1UL) != 0; }
static int kind_at(int i) { return (int)g_toks->__at(i).t; }
static int cursor(ParseState &ps) { return ps.pos.i; }

// ---- contract stub shared by all nonterminals
static Node *contract(ParseState &ps, int nt) {
  int start = cursor(ps);
  int la = kind_at(start);
  bool err = nondet_bool();
  int adv = nondet_int(); ASSUME(adv >= 0 && adv <= PB_W && start + adv <= g_n - 1);
  bool first = in_mask(NT_FIRST[nt], la);
  // progress: entered on a token of its FIRST set a function consumes at least one token, with or without errors
  if (first) ASSUME(adv >= 1);
  // a nullable function entered outside its FIRST set takes the empty alternative: no token, no error, null result
  if (NT_NULLABLE[nt] && !first) { ASSUME(adv == 0 && !err); }
  // a non-nullable function entered outside its FIRST set reports an error
  if (!NT_NULLABLE[nt] && !first) ASSUME(err);
  // P (hence S -> P): without a new error the next token is none of ';', a statement start or PROGRAM (those are consumed or reported by expected_end_or_semicolon)
  if ((nt == NT_P || nt == NT_S) && !err) { int k = kind_at(start + adv); ASSUME(k != Token::PROGSEP && k != Token::ID && k != Token::LOOP && k != Token::WHILE && k != Token::GOTO && k != Token::IF && k != Token::STOP && k != Token::PROGRAM); }
  if (nt == NT_MOREP && !err) { int k = kind_at(start + adv); ASSUME(adv == 0 || (k != Token::PROGSEP && k != Token::ID && k != Token::LOOP && k != Token::WHILE && k != Token::GOTO && k != Token::IF && k != Token::STOP && k != Token::PROGRAM)); }
  if (n_log < PB_MAXLOG) { LOG_NT[n_log] = nt; LOG_START[n_log] = start; LOG_END[n_log] = start + adv; LOG_ERR[n_log] = err; }
  n_log++;
  ps.pos = ps.pos + adv;
  if (err) { ps.a.errors.push_back({1, "m", "e"}); stub_errors++; }
  // result: ARGS never returns null; VALUE returns null exactly when it is entered on a token that starts no value; nullable functions return null for the empty alternative
  bool null_result;
  if (nt == NT_ARGS) null_result = false;
  else if (nt == NT_VALUE) null_result = !first;
  else if (NT_NULLABLE[nt]) null_result = !first ? true : nondet_bool();
  else null_result = err ? nondet_bool() : false;
#ifdef PB_PROVENANCE
  return null_result ? (Node *)NULL : ps.a.mk(Node::Type::SPLIT, g_toks->__at(start).line, g_toks->__at(start).file, "", NULL, NULL);
#else
  return null_result ? (Node *)NULL : ps.a.mk(Node::Type::SPLIT, 1, "m", "", NULL, NULL);
#endif
}
// environment: token_string() only formats diagnostics (defined in scan.cpp, which is not part of these obligations)
std::string Theo::token_string(Theo::Token::Type) { return "t"; }
// contract of expected_end_or_semicolon (proved for the real function by harness_expected_end): silent and without effect on any token other than ';',
// a statement start or PROGRAM; otherwise it consumes at least one token, reports the misplaced statement / definition, and leaves none of those tokens next
extern "C" void stub_expected_end(ParseState &ps) {
  int start = cursor(ps); int k = kind_at(start);
  bool stmt = k == Token::ID || k == Token::LOOP || k == Token::WHILE || k == Token::GOTO || k == Token::IF || k == Token::STOP;
  if (!stmt && k != Token::PROGRAM && k != Token::PROGSEP) return;
  int adv = nondet_int(); ASSUME(adv >= 1 && adv <= PB_W && start + adv <= g_n - 1);
  ps.pos = ps.pos + adv;
  if (stmt || k == Token::PROGRAM || nondet_bool()) ps.a.errors.push_back({1, "m", "e"});
  int kk = kind_at(start + adv);
  ASSUME(kk != Token::ID && kk != Token::LOOP && kk != Token::WHILE && kk != Token::GOTO && kk != Token::IF && kk != Token::STOP && kk != Token::PROGRAM && kk != Token::PROGSEP);
}
extern "C" {
Node *stub_S(ParseState &ps) { return contract(ps, NT_S); }
Node *stub_PORTS(ParseState &ps) { return contract(ps, NT_PORTS); }
Node *stub_OPORTS(ParseState &ps) { return contract(ps, NT_OPORTS); }
Node *stub_ARGS(ParseState &ps) { return contract(ps, NT_ARGS); }
Node *stub_MARGS(ParseState &ps) { return contract(ps, NT_MARGS); }
Node *stub_P(ParseState &ps) { return contract(ps, NT_P); }
Node *stub_MOREP(ParseState &ps) { return contract(ps, NT_MOREP); }
Node *stub_VALUE(ParseState &ps) { return contract(ps, NT_VALUE); }
Node *stub_VARGS(ParseState &ps) { return contract(ps, NT_VARGS); }
Node *stub_MVARGS(ParseState &ps) { return contract(ps, NT_MVARGS); }
}

// ---- symbolic window
// The cursor is at the first token of the window (the functions read nothing before it).  PB_FIRST_KIND >= 0 fixes the kind of that token (one
// query per lookahead: the switch on the lookahead then resolves concretely); PB_FIRST_KIND == -1: any kind outside `first_mask`.
#ifndef PB_FIRST_KIND
#define PB_FIRST_KIND -2
#endif
static unsigned long g_first_mask = 0;
static void sym_window(std::vector<Token> &toks, int &at) {
  int n = nondet_int(); ASSUME(n >= 1 && n <= PB_W); CEX_n = n;
  if (PB_FIRST_KIND > 0) ASSUME(n >= 2);
  // all PB_W slots are written unconditionally (flat container model), so that a fixed first token stays a constant for the symbolic execution
  for (int i = 0; i < PB_W; i++) {
    int k = nondet_int(); ASSUME(k >= 1 && k <= 38);
    if (i > 0 || PB_FIRST_KIND <= 0) { if (i == n - 1) k = 0; }          // exactly one T_EOF, last (interface invariant of the token stream)
    if (i == 0 && PB_FIRST_KIND >= 0) k = PB_FIRST_KIND;
    if (i == 0 && PB_FIRST_KIND == -1) ASSUME(k == 0 || !in_mask(g_first_mask, k));
    Token t; t.t = (Token::Type)k; t.text = "x"; t.file = "m"; t.line = 1 + i;
#ifdef PB_PROVENANCE
    if (nondet_bool()) t.file = "n";      // tokens of two files mixed in one stream (includes, macro bodies defined elsewhere); line i+1 identifies the token
#endif
    toks.u.d[i] = t; CEX_kind[i] = k;
  }
  toks.n = n;
  if (PB_FIRST_KIND == 0) ASSUME(n == 1);
  g_toks = &toks; g_n = n;
  at = 0; CEX_at = at;
  n_log = 0; stub_errors = 0;
}

static inline bool two_token_rows(int nt) { return nt == NT_P; }   // P -> ID := ... | ID : ... are told apart by the second token (PID is inlined into P)
// row of nt selected by the tokens at i (first one or two leading terminals, or FIRST set of a row that starts with a nonterminal); -1 if none
static int select_row(int nt, int i) {
  int la = kind_at(i); int la2 = (i + 1 < g_n) ? kind_at(i + 1) : -2;
  int row = -1, eps = -1;
  for (int r = 0; r < PB_NROWS; r++) {
    bool mine = ROW_NT[r] == nt;
    bool app;
    if (ROW_PRE[r][0] >= 0) app = la == ROW_PRE[r][0] && (ROW_PRE[r][1] < 0 || !two_token_rows(nt) || la2 == ROW_PRE[r][1]);
    else app = in_mask(ROW_FIRST[r], la);
    if (mine && ROW_LEN[r] == 0) eps = r;
    if (mine && ROW_LEN[r] != 0 && app) row = r;
  }
  return row >= 0 ? row : eps;
}

// does what X consumed between i and end (own terminals + logged callee spans) spell row r ?  also reports the side conditions of COMPLETE
static bool spells(int r, int i, int end, bool &callees_on_first, bool &terminals_ok_prefix) {
  int pos = i, li = 0; bool ok = true; callees_on_first = true;
  for (int s = 0; s < PB_MAXRHS; s++) if (s < ROW_LEN[r]) {
    int sym = ROW_SYM[r][s];
    if (sym >= 0) { ok = ok && pos < g_n && kind_at(pos < g_n ? pos : 0) == sym; pos++; }
    else {
      int nt = -sym - 1;
      ok = ok && li < n_log && li < PB_MAXLOG;
      if (ok) { ok = LOG_NT[li] == nt && LOG_START[li] == pos; if (!NT_NULLABLE[nt] && !in_mask(NT_FIRST[nt], kind_at(pos < g_n ? pos : 0))) callees_on_first = false; pos = LOG_END[li]; }
      li++;
    }
  }
  terminals_ok_prefix = ok;
  return ok && li == n_log && pos == end;
}

typedef Node *(*GF)(ParseState &);
static void obligations(int nt, GF real) {
  g_first_mask = NT_FIRST[nt];
  std::vector<Token> toks; int at; sym_window(toks, at);
  AST a; a.parsed_correctly = false; a.root = NULL;
  std::vector<Token>::iterator it = toks.begin() + at;
  ParseState ps = {a, it};
  int e0 = (int)a.errors.size();
  CEX_nt = nt;
  Node *res = real(ps);
  int end = it.i; int e1 = (int)a.errors.size(); int own = e1 - e0 - stub_errors;
  // SAFE
  ASSERT(end >= at && end <= g_n - 1, "C02: the cursor is monotone and never passes the end-of-file token");
  ASSERT(own >= 0 && n_log <= PB_MAXLOG, "C02: (harness) error and call accounting");
  if (in_mask(NT_FIRST[nt], kind_at(at))) ASSERT(end > at, "C02: a grammar function entered on a token of its FIRST set consumes at least one token (progress, hence termination)");
  if (nt == NT_ARGS) ASSERT(res != NULL, "C02: ARGS never returns a null node (its callers dereference the result)");
  if (nt == NT_VALUE) ASSERT((res == NULL) == !in_mask(NT_FIRST[NT_VALUE], kind_at(at)), "C02: VALUE returns null exactly when entered on a token that starts no value");
  if (NT_NULLABLE[nt] && !in_mask(NT_FIRST[nt], kind_at(at))) ASSERT(end == at && e1 == e0, "C04: a nullable construct entered outside its FIRST set consumes nothing and reports nothing");
  if (!NT_NULLABLE[nt] && !in_mask(NT_FIRST[nt], kind_at(at))) ASSERT(e1 > e0, "C04: a construct entered on a token that cannot start it reports an error");
  if ((nt == NT_P || nt == NT_S || nt == NT_MOREP) && e1 == e0 && end > at) { int k = kind_at(end); ASSERT(k != Token::PROGSEP && k != Token::ID && k != Token::LOOP && k != Token::WHILE && k != Token::GOTO && k != Token::IF && k != Token::STOP && k != Token::PROGRAM, "C04: after an error-free statement sequence the next token is not a separator, a statement start or PROGRAM"); }
  // SOUND / COMPLETE
  int row = select_row(nt, at);
  bool cof = true, tpre = true;
  bool sp = row >= 0 ? spells(row >= 0 ? row : 0, at, end, cof, tpre) : false;
  if (e1 == e0) ASSERT(row >= 0 && sp, "C04: without a new error the tokens consumed spell exactly one production of the construct (selected by the lookahead)");
  unsigned long follow = NT_FOLLOW[nt];
  if (nt == NT_P || nt == NT_MOREP || nt == NT_S) follow &= ~(1UL << Token::PROGSEP);     // greedy: a following ';' belongs to the innermost statement sequence
  if (row >= 0 && sp && stub_errors == 0 && cof && in_mask(follow, kind_at(end))) ASSERT(own == 0, "C04: a correct instance of the construct followed by a token of its FOLLOW set is accepted without error");
#ifdef PB_PROVENANCE
  { bool prov = true;
    for (int k = 0; k < (int)decltype(a.all_allocated_nodes)::FCAP; k++) if (k < (int)a.all_allocated_nodes.size()) {
      Node *nd = a.all_allocated_nodes[k]; int L = nd->line;
      bool okl = L >= 1 && L <= g_n;
      prov = prov && okl && nd->file == toks.__at(okl ? L - 1 : 0).file;
    }
    ASSERT(prov, "C08: every tree node carries the file and the line of one and the same token of the source (break locations are derived from them: no location without a token)"); }
#endif
  a.clear();     // C02: with --memory-leak-check every node allocated outside the registry of the tree shows up as a leak
  ASSERT(0, "WITNESS: end of obligations reachable");
}

extern "C" {
void harness_S() { obligations(NT_S, S); }
void harness_PORTS() { obligations(NT_PORTS, PORTS); }
void harness_OPORTS() { obligations(NT_OPORTS, OPORTS); }
void harness_ARGS() { obligations(NT_ARGS, ARGS); }
void harness_MARGS() { obligations(NT_MARGS, MARGS); }
void harness_P() { obligations(NT_P, P); }
void harness_MOREP() { obligations(NT_MOREP, MOREP); }
void harness_VALUE() { obligations(NT_VALUE, VALUE); }
void harness_VARGS() { obligations(NT_VARGS, VARGS); }
void harness_MVARGS() { obligations(NT_MVARGS, MVARGS); }

// match(t): on the expected token it consumes exactly that token (never T_EOF... it does not move past it); otherwise it records exactly one error and
// skips to the next ';' or the end-of-file token, consuming the ';' but never T_EOF
void harness_match() {
  std::vector<Token> toks; int at; sym_window(toks, at);
  AST a; a.parsed_correctly = false; a.root = NULL;
  std::vector<Token>::iterator it = toks.begin() + at; ParseState ps = {a, it};
  int t = nondet_int(); ASSUME(t >= 0 && t <= 38);
  int e0 = (int)a.errors.size();
  ps.match((Token::Type)t);
  int end = it.i, e1 = (int)a.errors.size();
  ASSERT(end >= at && end <= g_n - 1, "C02: the cursor is monotone and never passes the end-of-file token");
  if (kind_at(at) == t) ASSERT(e1 == e0 && end == (t == Token::T_EOF ? at : at + 1), "C04: matching the expected token consumes exactly that token and reports nothing");
  else ASSERT(e1 == e0 + 1, "C04: a token other than the expected one is reported as exactly one error");
  ASSERT(0, "WITNESS: end of harness_match reachable");
}

// expected_end_or_semicolon(): returns without error exactly when the next token is none of ';', a statement start or PROGRAM; terminates
void harness_expected_end() {
  std::vector<Token> toks; int at; sym_window(toks, at);
  AST a; a.parsed_correctly = false; a.root = NULL;
  std::vector<Token>::iterator it = toks.begin() + at; ParseState ps = {a, it};
  int e0 = (int)a.errors.size();
  int k = kind_at(at);
  expected_end_or_semicolon(ps);
  int end = it.i, e1 = (int)a.errors.size();
  bool stmt = k == Token::ID || k == Token::LOOP || k == Token::WHILE || k == Token::GOTO || k == Token::IF || k == Token::STOP;
  ASSERT(end >= at && end <= g_n - 1, "C02: the cursor is monotone and never passes the end-of-file token");
  if (stmt || k == Token::PROGRAM) ASSERT(e1 > e0, "C04: a statement or program definition that follows a statement without ';' is reported");
  if (!stmt && k != Token::PROGRAM && k != Token::PROGSEP) ASSERT(e1 == e0 && end == at, "C04: any other token ends the statement sequence silently");
  { int kk = kind_at(end); ASSERT(kk != Token::ID && kk != Token::LOOP && kk != Token::WHILE && kk != Token::GOTO && kk != Token::IF && kk != Token::STOP && kk != Token::PROGRAM && kk != Token::PROGSEP, "C04: after the recovery loop the next token is not a separator, a statement start or PROGRAM"); }
  ASSERT(0, "WITNESS: end of harness_expected_end reachable");
}
}

// ---------------------------------------------------------------------------------------------------------------------------------------------
// The top level: the real Theo::parse with scan / extract_macros / apply_macros replaced by stubs returning arbitrary results and S by its contract.
// C04: input left over after the start symbol is an error; C11: the macro pass budget is the documented constant and every scan / extraction /
// expansion error makes the parse incorrect; C15: the file requests are exactly the requested names of the missing-file errors.
static int g_passes, g_scan_err, g_ext_err, g_app_err, g_req_expected;
extern "C" ScanResult stub_scan(std::map<FileName, FileContent> files, FileName main) {
  ScanResult r; g_scan_err = 0; g_req_expected = 0;
  int k = nondet_int(); ASSUME(k >= 0 && k <= 2);
  for (int i = 0; i < 2; i++) if (i < k) {
    int t = nondet_int(); ASSUME(t >= 0 && t <= 10);
    ParseError e; e.t = (ParseError::Type)t; e.msg = "e"; e.file = "m"; e.line = 1; e.file_request = i == 0 ? "a" : "b";
    r.errors.push_back(e); g_scan_err++;
    if (t == ParseError::FILE_NOT_FOUND || t == ParseError::MAIN_FILE_NOT_FOUND) g_req_expected++;
  }
  return r;
}
extern "C" MacroExtractionResult stub_extract(std::vector<Token> tokens) {
  MacroExtractionResult r; g_ext_err = 0;
  if (nondet_bool()) { ParseError e; e.t = ParseError::MACRO_EXTRACT_EXPECT; e.msg = "e"; e.file = "m"; e.line = 1; r.errors.push_back(e); g_ext_err = 1; }
  return r;
}
static std::vector<Token> *g_seq;
extern "C" MacroApplicationResult stub_apply(std::vector<Token> input, std::vector<MacroDefinition> &defs, unsigned int passes) {
  MacroApplicationResult r; g_passes = (int)passes; g_app_err = 0;
  if (nondet_bool()) { ParseError e; e.t = ParseError::MACRO_APPLY_REACHED_MAX_PASSES; e.msg = "e"; e.file = "-"; e.line = -1; r.errors.push_back(e); g_app_err = 1; }
  int at; sym_window(r.transformed_sequence, at);
  return r;
}
extern "C" void harness_parse_top() {
  g_first_mask = 0;
  std::map<FileName, FileContent> files; files["m"] = "x";
  n_log = 0; stub_errors = 0;
  ParseResult r = Theo::parse(files, "m");
  ASSERT(g_passes == 1024, "C11: expansion is run with the documented pass budget (1024)");
  int upstream = g_scan_err + g_ext_err + g_app_err;
  ASSERT((int)r.a.errors.size() >= upstream + stub_errors, "C11: every scanner, extraction and expansion error is forwarded into the parse result");
  ASSERT(r.a.parsed_correctly == (r.a.errors.size() == 0), "C02: the parse is marked correct exactly when no error was recorded");
  if (upstream > 0) ASSERT(!r.a.parsed_correctly, "C11: an unfinished or faulty macro expansion is never passed on as a correct program");
  ASSERT((int)r.missing_files.size() == g_req_expected, "C15: the file requests are exactly the names of the missing-file errors of the scanner");
  // the start symbol consumed [0, end) of the expanded sequence (first log entry); anything left before T_EOF must have been reported
  if (n_log >= 1 && LOG_NT[0] == NT_S && upstream == 0 && stub_errors == 0 && LOG_END[0] < g_n - 1) ASSERT(!r.a.parsed_correctly, "C04: input that remains after the program is reported as an error");
  if (n_log == 1 && upstream == 0 && stub_errors == 0 && LOG_END[0] == g_n - 1) ASSERT(r.a.parsed_correctly, "C04: a program that ends at the end-of-file token is accepted");
  r.a.clear();   // the caller's duty (Theo::compile does it, see glue obligations); with --memory-leak-check any node outside the registry shows up
  ASSERT(0, "WITNESS: end of harness_parse_top reachable");
}
