// Shared by all VM harnesses: symbolic machine state, static well-formedness (WF) of a program with ghost
// region annotations, and the representation invariant Inv that links the activation stack to the code.
// The functions under test are the real ones from /repo/VM/src/vm.cpp; nothing of the VM is re-implemented here
// except the *reference semantics* ref_step(), which is the oracle of C01(a) and is written from instr.hpp's comments.
#pragma once
#include "VM/include/vm.hpp"
using namespace Theo;
extern "C" { int nondet_int(); }
// (a C-level nondet bool may be any byte; take one bit of an int so that the value is a valid C++ bool)
static inline bool nondet_bool() { return (nondet_int() & 1) != 0; }
#define ASSUME(c) __CPROVER_assume(c)
#define ASSERT(c, msg) __CPROVER_assert(c, msg)

#ifndef VM_L
#error "VM_L etc. must be defined"
#endif
#define VM_F (MINISTL_VEC_CAP - 1)   /* live frames in the pre-state: at most VM_F, PREPARE may add one */

// The same harness source is compiled twice: against ministl (symbolic, CBMC) and against libstdc++ (native replay of a
// counterexample: nondet_*() then return the solver's values).  Only these accessors differ.
#ifdef MINISTL
#define V_N(v) ((v).n)
#define V_AT(v, i) ((v).__at(i))
#define V_SETN(v, k, fill) ((v).n = (k))
#else
#include "native_rt.hpp"
#define V_N(v) ((int)(v).size())
#define V_AT(v, i) (__nat_at((v), (i)))
#define V_SETN(v, k, fill) ((v).resize((k), (fill)))
#endif

// ---- counterexample read-out (last assignment in the trace is the chosen value)
extern "C" {
int CEX_n, CEX_ip, CEX_sn, CEX_step, CEX_dn;
int CEX_op[VM_L], CEX_a[VM_L], CEX_b[VM_L], CEX_c[VM_L];
int CEX_fstart[VM_F + 1], CEX_fsize[VM_F + 1], CEX_ftarget[VM_F + 1], CEX_faddr[VM_F + 1], CEX_fdbg[VM_F + 1];
int CEX_data[VM_DW];
int CEX_nloc, CEX_nsite, CEX_locfile[VM_NLOC], CEX_locline[VM_NLOC], CEX_en[VM_NLOC], CEX_site[VM_NSITE], CEX_siteloc[VM_NSITE];
int CEX_reg[VM_L], CEX_callee[VM_L], CEX_argk[VM_L], CEX_rfsize[VM_R], CEX_rentry[VM_R], CEX_rnargs[VM_R], CEX_rsmap[VM_R];
int CEX_op_kind, CEX_arg_file, CEX_arg_line, CEX_arg_val;
}

struct Ghost {
  int reg[VM_L];      // region (routine) of every instruction; 0 = root
  int callee[VM_L];   // for PREPARE/ARG/EXEC: region that is being called
  int argk[VM_L];     // for ARG: position of the argument in its call sequence
  int fsize[VM_R], entry[VM_R], nargs[VM_R], smap[VM_R];
};

static inline bool is_site_op(OpCode o) { return o == OpCode::POTENTIAL_BREAK || o == OpCode::BREAK; }
static inline bool in_seq(OpCode o) { return o == OpCode::ARG || o == OpCode::EXEC; }

// ---- arbitrary program
static void sym_code(VM &vm, int &n) {
  n = nondet_int(); ASSUME(n >= 2 && n <= VM_L);
  CEX_n = n;
  V_SETN(vm.code.code, VM_L, Instruction::Halt());
  for (int i = 0; i < VM_L; i++) {
    Instruction ins; int op = nondet_int(); ASSUME(op >= 0 && op <= 11); ins.op = (OpCode)op;
    int a = nondet_int(), b = nondet_int(), c = nondet_int();
    ins.parameters.test.target = a; ins.parameters.test.op1 = b; ins.parameters.test.op2 = c;
    V_AT(vm.code.code, i) = ins;
    CEX_op[i] = op; CEX_a[i] = a; CEX_b[i] = b; CEX_c[i] = c;
  }
  V_SETN(vm.code.code, n, Instruction::Halt());
}

static void sym_ghost(Ghost &g) {
  for (int i = 0; i < VM_L; i++) {
    g.reg[i] = nondet_int(); ASSUME(g.reg[i] >= 0 && g.reg[i] < VM_R);
    g.callee[i] = nondet_int(); ASSUME(g.callee[i] >= 0 && g.callee[i] < VM_R);
    g.argk[i] = nondet_int(); ASSUME(g.argk[i] >= 0 && g.argk[i] < VM_MAXARG);
    CEX_reg[i] = g.reg[i]; CEX_callee[i] = g.callee[i]; CEX_argk[i] = g.argk[i];
  }
  for (int r = 0; r < VM_R; r++) {
    g.fsize[r] = nondet_int(); ASSUME(g.fsize[r] >= 1 && g.fsize[r] <= VM_MAXFS);
    g.entry[r] = nondet_int(); ASSUME(g.entry[r] >= 1 && g.entry[r] < VM_L);
    g.nargs[r] = nondet_int(); ASSUME(g.nargs[r] >= 0 && g.nargs[r] <= VM_MAXARG && g.nargs[r] <= g.fsize[r]);
    g.smap[r] = nondet_int(); ASSUME(g.smap[r] >= 0 && g.smap[r] < VM_R);
    CEX_rfsize[r] = g.fsize[r]; CEX_rentry[r] = g.entry[r]; CEX_rnargs[r] = g.nargs[r]; CEX_rsmap[r] = g.smap[r];
  }
}

static inline bool reg_ok(int x, int fs) { return x >= 0 && x < fs; }

// Static well-formedness of one instruction (the local rules of C03's statement).  Returns the conjunction.
static bool wf_instr(VM &vm, const Ghost &g, int n, int i) {
  const Instruction &I = V_AT(vm.code.code, i);
  int r = g.reg[i], fs = g.fsize[r];
  bool ok = true;
  bool falls = true;   // control may continue at i+1
  switch (I.op) {
    case OpCode::POTENTIAL_BREAK: case OpCode::BREAK: break;
    case OpCode::HALT: falls = false; break;
    case OpCode::ADD_CONST: ok = reg_ok(I.parameters.add.target, fs) && reg_ok(I.parameters.add.source, fs); break;
    case OpCode::TEST: ok = reg_ok(I.parameters.test.target, fs) && reg_ok(I.parameters.test.op1, fs) && reg_ok(I.parameters.test.op2, fs); break;
    case OpCode::CONST: ok = reg_ok(I.parameters.constant.target, fs) && I.parameters.constant.constant >= 0; break;
    case OpCode::JMP: {
      falls = false;
      long t = (long)i + I.parameters.jmp.offset;
      ok = t >= 1 && t < n;
      if (ok) ok = g.reg[t] == r && !in_seq(V_AT(vm.code.code, t).op);
      break;
    }
    case OpCode::JMPC: {
      long t = (long)i + I.parameters.jmpc.offset;
      ok = reg_ok(I.parameters.jmpc.source, fs) && t >= 1 && t < n;
      if (ok) ok = g.reg[t] == r && !in_seq(V_AT(vm.code.code, t).op);
      break;
    }
    case OpCode::PREPARE_EXEC: {
      if (i == 0) { ok = r == 0 && I.parameters.prepare.count == g.fsize[0] && I.parameters.prepare.index == g.smap[0]; }
      else {
        int c = g.callee[i];
        ok = c >= 1 && I.parameters.prepare.count == g.fsize[c] && I.parameters.prepare.index == g.smap[c] && reg_ok(I.parameters.prepare.target, fs);
        // followed by the first ARG (k = 0) or, without arguments, by EXEC, of the same call
        if (ok && i + 1 < n) {
          const Instruction &N = V_AT(vm.code.code, i + 1);
          ok = g.callee[i + 1] == c && ((g.nargs[c] == 0 && N.op == OpCode::EXEC) || (g.nargs[c] > 0 && N.op == OpCode::ARG && g.argk[i + 1] == 0));
        }
      }
      break;
    }
    case OpCode::ARG: {
      int c = g.callee[i], k = g.argk[i];
      ok = c >= 1 && i >= 2 && k < g.nargs[c] && I.parameters.arg.target == k && reg_ok(I.parameters.arg.target, g.fsize[c]) && reg_ok(I.parameters.arg.source, fs);
      if (ok) {  // predecessor is PREPARE (k == 0) or ARG k-1 of the same call, same region
        const Instruction &Pv = V_AT(vm.code.code, i - 1);
        ok = g.reg[i - 1] == r && g.callee[i - 1] == c && ((k == 0 && Pv.op == OpCode::PREPARE_EXEC) || (k > 0 && Pv.op == OpCode::ARG && g.argk[i - 1] == k - 1));
      }
      if (ok && i + 1 < n) {  // successor is ARG k+1 or EXEC
        const Instruction &N = V_AT(vm.code.code, i + 1);
        ok = g.callee[i + 1] == c && ((k + 1 == g.nargs[c] && N.op == OpCode::EXEC) || (k + 1 < g.nargs[c] && N.op == OpCode::ARG && g.argk[i + 1] == k + 1));
      }
      break;
    }
    case OpCode::EXEC: {
      int c = g.callee[i];
      ok = c >= 1 && i >= 2 && I.parameters.exec.entry == g.entry[c] && g.entry[c] < n;
      if (ok) ok = g.reg[g.entry[c]] == c && !in_seq(V_AT(vm.code.code, g.entry[c]).op);
      if (ok) {
        const Instruction &Pv = V_AT(vm.code.code, i - 1);
        ok = g.reg[i - 1] == r && g.callee[i - 1] == c && ((g.nargs[c] == 0 && Pv.op == OpCode::PREPARE_EXEC) || (g.nargs[c] > 0 && Pv.op == OpCode::ARG && g.argk[i - 1] == g.nargs[c] - 1));
      }
      break;
    }
    case OpCode::RET: falls = false; ok = r != 0 && reg_ok(I.parameters.ret.source, fs); break;
  }
  if (i == 0) ok = ok && I.op == OpCode::PREPARE_EXEC;
  if (i > 0 && I.op == OpCode::PREPARE_EXEC) ok = ok && i + 1 < n;
  if (falls) {
    ok = ok && i + 1 < n;
    if (ok) {
      ok = g.reg[i + 1] == r;
      // an ARG/EXEC is entered only from its own call sequence
      if (!(I.op == OpCode::PREPARE_EXEC && i > 0) && I.op != OpCode::ARG) ok = ok && !in_seq(V_AT(vm.code.code, i + 1).op);
    }
  }
  return ok;
}

static bool wf_program(VM &vm, const Ghost &g, int n) {
  bool ok = true;
  for (int i = 0; i < VM_L; i++) if (i < n) ok = ok && wf_instr(vm, g, n, i);
  return ok;
}

// ---- representation invariant, part 1 (C19): frames contiguous, in call order, data is exactly their union
static bool inv_geom(VM &vm) {
  int sn = V_N(vm.stack);
  if (!(sn >= 0 && sn <= VM_F + 1)) return false;
  bool ok = true;
  long off = 0;
  for (int k = 0; k <= VM_F; k++) if (k < sn) {
    const VM::Activation &a = V_AT(vm.stack, k);
    ok = ok && a.data_start == off && a.seg_size >= 0 && a.seg_size <= VM_MAXFS;
    off += a.seg_size;
  }
  return ok && V_N(vm.data) == off;
}
// ---- representation invariant, part 2 (C03): the stack describes a call chain of the annotated program
static bool inv_type(VM &vm, const Ghost &g, int n) {
  int ip = vm.instruction_pointer, sn = V_N(vm.stack);
  if (!(ip >= 0 && ip < n)) return false;
  if (ip == 0) return sn == 0;
  if (!(sn >= 1 && sn <= VM_F + 1)) return false;
  bool ok = true;
  OpCode cur = V_AT(vm.code.code, ip).op;
  bool insq = in_seq(cur);
  if (insq && sn < 2) return false;
  int r_above = insq ? g.callee[ip] : g.reg[ip];   // region of frame k+1 while looking at frame k
  {
    const VM::Activation &t = V_AT(vm.stack, sn - 1);
    ok = ok && t.seg_size == g.fsize[r_above] && t.debug_info == g.smap[r_above] && t.vm == &vm;
  }
  for (int k = VM_F; k >= 0; k--) if (k < sn - 1) {
    const VM::Activation &up = V_AT(vm.stack, k + 1), &me = V_AT(vm.stack, k);
    int r;
    if (k == sn - 2 && insq) r = g.reg[ip];
    else {
      int ra = up.ret_addr;
      if (!(ra >= 2 && ra < n)) return false;
      if (V_AT(vm.code.code, ra - 1).op != OpCode::EXEC || in_seq(V_AT(vm.code.code, ra).op)) return false;
      if (g.callee[ra - 1] != r_above) return false;   // the EXEC before the return address called the routine above
      r = g.reg[ra];
    }
    ok = ok && me.seg_size == g.fsize[r] && me.debug_info == g.smap[r] && me.vm == &vm && up.ret_target >= 0 && up.ret_target < me.seg_size;
    ok = ok && r_above != 0;  // only the bottom frame belongs to the root routine
    r_above = r;
  }
  ok = ok && r_above == 0;
  return ok;
}
static bool inv_state(VM &vm, const Ghost &g, int n) { return inv_geom(vm) && inv_type(vm, g, n); }

// all stored values are natural numbers (C20)
static bool inv_nat(VM &vm) {
  bool ok = true;
  for (int i = 0; i < VM_DW; i++) if (i < V_N(vm.data)) ok = ok && V_AT(vm.data, i) >= 0;
  return ok;
}

// ---- arbitrary stack/data (shape only; Inv is assumed separately)
static void sym_state(VM &vm, int n) {
  int ip = nondet_int(); ASSUME(ip >= 0 && ip < n); vm.instruction_pointer = ip; CEX_ip = ip;
  int sn = nondet_int(); ASSUME(sn >= 0 && sn <= VM_F); CEX_sn = sn;
  V_SETN(vm.stack, VM_F + 1, VM::Activation(&vm, 0, 0, 0, 0, 0));
  for (int k = 0; k <= VM_F; k++) {
    VM::Activation &a = V_AT(vm.stack, k);
    a.vm = &vm; a.data_start = nondet_int(); a.seg_size = nondet_int(); a.ret_target = nondet_int(); a.ret_addr = nondet_int(); a.debug_info = nondet_int();
    CEX_fstart[k] = a.data_start; CEX_fsize[k] = a.seg_size; CEX_ftarget[k] = a.ret_target; CEX_faddr[k] = a.ret_addr; CEX_fdbg[k] = a.debug_info;
  }
  V_SETN(vm.stack, sn, VM::Activation(&vm, 0, 0, 0, 0, 0));
  int dn = nondet_int(); ASSUME(dn >= 0 && dn <= VM_DW - VM_MAXFS); CEX_dn = dn;
  V_SETN(vm.data, VM_DW, 0);
  for (int i = 0; i < VM_DW; i++) { int v = nondet_int(); V_AT(vm.data, i) = v; CEX_data[i] = v; }
  V_SETN(vm.data, dn, 0);
  bool st = nondet_bool(); vm.stepping_mode_enabled = st; CEX_step = st;
}

// ---- arbitrary breakpoint tables satisfying Inv_tab (inverse tables, sites are PB/BREAK) and Inv_en
struct Sites { int nloc, nsite; int file[VM_NLOC], line[VM_NLOC]; bool en[VM_NLOC]; int site[VM_NSITE], loc[VM_NSITE]; };
static std::string fname(int f) { return f == 0 ? std::string("a") : std::string("b"); }
static void sym_sites(VM &vm, int n, Sites &s) {
  s.nloc = nondet_int(); ASSUME(s.nloc >= 0 && s.nloc <= VM_NLOC); CEX_nloc = s.nloc;
  s.nsite = nondet_int(); ASSUME(s.nsite >= s.nloc && s.nsite <= VM_NSITE); CEX_nsite = s.nsite;
  for (int j = 0; j < VM_NLOC; j++) {
    s.file[j] = nondet_int(); ASSUME(s.file[j] >= 0 && s.file[j] <= 1);
    s.line[j] = nondet_int(); ASSUME(s.line[j] >= 1 && s.line[j] <= 1000);
    s.en[j] = nondet_bool();
    // keys strictly increasing in the order of operator<(BreakPoint): file then line ("a" < "b")
    if (j > 0 && j < s.nloc) ASSUME(s.file[j - 1] < s.file[j] || (s.file[j - 1] == s.file[j] && s.line[j - 1] < s.line[j]));
    CEX_locfile[j] = s.file[j]; CEX_locline[j] = s.line[j]; CEX_en[j] = s.en[j];
  }
  for (int k = 0; k < VM_NSITE; k++) {
    s.site[k] = nondet_int(); ASSUME(s.site[k] >= 1 && s.site[k] < n);
    s.loc[k] = nondet_int(); ASSUME(s.loc[k] >= 0 && (s.loc[k] < s.nloc || s.nloc == 0));
    if (k > 0 && k < s.nsite) ASSUME(s.site[k - 1] < s.site[k]);
    CEX_site[k] = s.site[k]; CEX_siteloc[k] = s.loc[k];
  }
  if (s.nloc == 0) ASSUME(s.nsite == 0);
  // every location owns at least one site
  for (int j = 0; j < VM_NLOC; j++) if (j < s.nloc) { bool has = false; for (int k = 0; k < VM_NSITE; k++) if (k < s.nsite && s.loc[k] == j) has = true; ASSUME(has); }
  // build the real tables
#ifdef MINISTL
  // directly in the container model (slots sorted by construction)
  vm.code.line_info.n = s.nsite;
  for (int k = 0; k < VM_NSITE; k++) { auto &sl = vm.code.line_info.u.d[k]; sl.first = s.site[k]; sl.second.file = fname(s.file[s.loc[k] < VM_NLOC ? s.loc[k] : 0]); sl.second.line = s.line[s.loc[k] < VM_NLOC ? s.loc[k] : 0]; }
  vm.code.potential_breaks.n = s.nloc;
  for (int j = 0; j < VM_NLOC; j++) {
    auto &sl = vm.code.potential_breaks.u.d[j]; sl.first.file = fname(s.file[j]); sl.first.line = s.line[j];
    int c = 0; for (int k = 0; k < VM_NSITE; k++) if (k < s.nsite && s.loc[k] == j) { sl.second.u.d[c] = s.site[k]; c++; }
    sl.second.n = c;
  }
  int e = 0;
  for (int j = 0; j < VM_NLOC; j++) if (j < s.nloc && s.en[j]) { vm.enabled_breakpoints.u.d[e].file = fname(s.file[j]); vm.enabled_breakpoints.u.d[e].line = s.line[j]; e++; }
  vm.enabled_breakpoints.n = e;
#else
  for (int k = 0; k < s.nsite; k++) { BreakPoint bp = {fname(s.file[s.loc[k]]), s.line[s.loc[k]]}; vm.code.line_info[s.site[k]] = bp; vm.code.potential_breaks[bp].push_back(s.site[k]); }
  for (int j = 0; j < s.nloc; j++) if (s.en[j]) vm.enabled_breakpoints.insert(BreakPoint{fname(s.file[j]), s.line[j]});
#endif
}
// sites hold PB/BREAK according to the enabled flags; all other instructions are not PB/BREAK
static bool sites_consistent(VM &vm, int n, const Sites &s) {
  bool ok = true;
  for (int i = 0; i < VM_L; i++) if (i < n) {
    bool is_site = false, en = false;
    for (int k = 0; k < VM_NSITE; k++) if (k < s.nsite && s.site[k] == i) { is_site = true; en = s.en[s.loc[k] < VM_NLOC ? s.loc[k] : 0]; }
    OpCode o = V_AT(vm.code.code, i).op;
    ok = ok && (is_site ? (o == (en ? OpCode::BREAK : OpCode::POTENTIAL_BREAK)) : !is_site_op(o));
  }
  return ok;
}

// the two tables of the machine's program are exactly the ones described by s (uses only the standard container API)
static bool tables_match(VM &vm, const Sites &s) {
  bool ok = (int)vm.code.line_info.size() == s.nsite && (int)vm.code.potential_breaks.size() == s.nloc;
  for (int k = 0; k < VM_NSITE; k++) if (k < s.nsite) {
    auto it = vm.code.line_info.find(s.site[k]);
    int j = s.loc[k] < VM_NLOC ? s.loc[k] : 0;
    ok = ok && it != vm.code.line_info.end();
    if (ok) ok = it->second.line == s.line[j] && it->second.file == fname(s.file[j]);
  }
  for (int j = 0; j < VM_NLOC; j++) if (j < s.nloc) {
    BreakPoint bp = {fname(s.file[j]), s.line[j]};
    auto it = vm.code.potential_breaks.find(bp);
    ok = ok && it != vm.code.potential_breaks.end();
    if (ok) {
      int c = 0;
      for (int k = 0; k < VM_NSITE; k++) if (k < s.nsite && s.loc[k] == j) { ok = ok && c < (int)it->second.size(); if (ok) ok = it->second[c] == s.site[k]; c++; }
      ok = ok && (int)it->second.size() == c;
    }
  }
  return ok;
}

// ---- snapshot of the observable machine for frame conditions / reference comparison
struct Snap {
  int ip, dn, sn; int data[VM_DW];
  int fstart[VM_F + 2], fsize[VM_F + 2], ftarget[VM_F + 2], faddr[VM_F + 2], fdbg[VM_F + 2];
};
static void snap(VM &vm, Snap &s) {
  s.ip = vm.instruction_pointer; s.dn = V_N(vm.data); s.sn = V_N(vm.stack);
  for (int i = 0; i < VM_DW; i++) s.data[i] = V_AT(vm.data, i);
  for (int k = 0; k <= VM_F; k++) { const VM::Activation &a = V_AT(vm.stack, k); s.fstart[k] = a.data_start; s.fsize[k] = a.seg_size; s.ftarget[k] = a.ret_target; s.faddr[k] = a.ret_addr; s.fdbg[k] = a.debug_info; }
}
static bool snap_eq(const Snap &a, const Snap &b) {
  bool ok = a.ip == b.ip && a.dn == b.dn && a.sn == b.sn;
  for (int i = 0; i < VM_DW; i++) if (i < a.dn) ok = ok && a.data[i] == b.data[i];
  for (int k = 0; k <= VM_F; k++) if (k < a.sn) ok = ok && a.fstart[k] == b.fstart[k] && a.fsize[k] == b.fsize[k] && a.ftarget[k] == b.ftarget[k] && a.faddr[k] == b.faddr[k] && a.fdbg[k] == b.fdbg[k];
  return ok;
}

// ---- reference semantics of one instruction, from the comments of VM/include/instr.hpp and the statement of C01/C19/C20:
// values are naturals; x+c saturates at 0 from below; frames are created zeroed by PREPARE and released by RET.
// Returns "stop reported" per C06.  Works on a Snap (pure data), never touches the VM object.
static bool ref_step(const Instruction &I, bool stepping, Snap &s) {
  int top = s.sn - 1;
  int base = top >= 0 ? s.fstart[top] : 0;
  switch (I.op) {
    case OpCode::POTENTIAL_BREAK: s.ip++; return stepping;
    case OpCode::BREAK: s.ip++; return true;
    case OpCode::HALT: return true;
    case OpCode::ADD_CONST: {
      long v = (long)s.data[base + I.parameters.add.source] + (long)I.parameters.add.constant;
      if (v < 0) v = 0;
      s.data[base + I.parameters.add.target] = (int)v;   // compared only when v <= INT_MAX (C01 excludes larger values; C20 checks definedness)
      s.ip++; return false;
    }
    case OpCode::TEST: s.data[base + I.parameters.test.target] = (s.data[base + I.parameters.test.op1] == s.data[base + I.parameters.test.op2]) ? 0 : 1; s.ip++; return false;
    case OpCode::CONST: s.data[base + I.parameters.constant.target] = I.parameters.constant.constant; s.ip++; return false;
    case OpCode::JMP: s.ip += I.parameters.jmp.offset; return false;
    case OpCode::JMPC: if (s.data[base + I.parameters.jmpc.source] == 0) s.ip += I.parameters.jmpc.offset; else s.ip++; return false;
    case OpCode::PREPARE_EXEC: {
      int cnt = I.parameters.prepare.count;
      s.fstart[s.sn] = s.dn; s.fsize[s.sn] = cnt; s.ftarget[s.sn] = I.parameters.prepare.target; s.faddr[s.sn] = -1; s.fdbg[s.sn] = I.parameters.prepare.index;
      for (int k = 0; k < VM_MAXFS; k++) if (k < cnt) s.data[s.dn + k] = 0;
      s.dn += cnt; s.sn++; s.ip++; return false;
    }
    case OpCode::ARG: s.data[s.fstart[top] + I.parameters.arg.target] = s.data[s.fstart[top - 1] + I.parameters.arg.source]; s.ip++; return false;
    case OpCode::EXEC: s.faddr[top] = s.ip + 1; s.ip = I.parameters.exec.entry; return false;
    case OpCode::RET: {
      s.data[s.fstart[top - 1] + s.ftarget[top]] = s.data[s.fstart[top] + I.parameters.ret.source];
      s.ip = s.faddr[top]; s.dn = s.fstart[top]; s.sn--; return false;
    }
  }
  return false;
}
