namespace Theo { struct Token; struct MacroDefinition; struct ParseError; struct Instruction; struct Node; }
namespace std {
template<> struct __cap<Theo::Token> { static constexpr int v = 2; };
template<> struct __cap<Theo::MacroDefinition> { static constexpr int v = 1; };
template<> struct __cap<Theo::ParseError> { static constexpr int v = 2; };
template<> struct __cap<Theo::Instruction> { static constexpr int v = 6; };
template<> struct __cap<int> { static constexpr int v = 3; };
template<> struct __cap<Theo::Node*> { static constexpr int v = 2; };
}
