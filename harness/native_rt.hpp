// Native replay runtime: the harness is compiled against the real libstdc++ and the real /repo sources; nondet_*() return
// the values of a solver counterexample (one integer per line in the file named by VERIF_REPLAY_STREAM).
#pragma once
#include <cstdio>
#include <cstdlib>
#include <cstring>
#include <vector>
#include <string>
static FILE *__nd_f = nullptr; static long __nd_count = 0; static int __nd_failed = 0;
static long __nd_next() {
  if (!__nd_f) { const char *p = getenv("VERIF_REPLAY_STREAM"); __nd_f = p ? fopen(p, "r") : nullptr; if (!__nd_f) { fprintf(stderr, "REPLAY: no stream\n"); exit(3); } }
  long v = 0; if (fscanf(__nd_f, "%ld", &v) != 1) { printf("REPLAY-STREAM-EXHAUSTED after %ld values\n", __nd_count); exit(4); }
  __nd_count++; return v;
}
extern "C" {
int nondet_int() { return (int)__nd_next(); }
unsigned char nondet_uchar() { return (unsigned char)__nd_next(); }
void __CPROVER_assume(bool c) { if (!c) { printf("REPLAY-ASSUME-VIOLATED after %ld nondet values\n", __nd_count); fflush(stdout); exit(5); } }
void __CPROVER_assert(bool c, const char *msg) { if (!c && strncmp(msg, "WITNESS", 7) != 0) { printf("REPLAY-ASSERT-FAILED: %s\n", msg); fflush(stdout); __nd_failed++; } }
}
template <class V> static typename V::value_type &__nat_at(V &v, long i) { typedef typename V::value_type T; alignas(T) static char dummy[sizeof(T)]; if (i >= 0 && (size_t)i < v.size()) return v[i]; return *(T *)dummy; }
#define NATIVE_MAIN(entry) int main() { entry(); printf("REPLAY-DONE failed=%d\n", __nd_failed); return __nd_failed ? 1 : 0; }
