// C20: integer literals in macro headers (PRIORITY n) and insertion indices - real strToInt of Compiler/src/macro.cpp on a symbolic digit string
#include "Compiler/src/macro.cpp"
#include "literals_common.hpp"
std::string Theo::token_string(Theo::Token::Type) { return "t"; }
extern "C" void h_lit_macro() {
  unsigned long value; std::string txt = sym_literal(value);
  std::vector<Theo::Token> toks; Token t; t.t = Token::INT; t.text = txt; t.file = "m"; t.line = 3; toks.push_back(t);
  ExtractionState es = {.incomplete_macros = {}, .encountered_errors = {}, .tok_pos = 1, .tokens = toks, .output = {}};
  int e0 = (int)es.encountered_errors.size();
  int r = strToInt(es, txt);
  int e1 = (int)es.encountered_errors.size();
  ASSERT((e1 > e0) == at_least_int_max(g_digits, g_len), "C20: a priority / index literal is rejected with a range error exactly when it is not below 2^31-1");
  if (e1 > e0) ASSERT(es.encountered_errors[e1 - 1].t == Theo::ParseError::RANGE && es.encountered_errors[e1 - 1].line == 3, "C20: the range error carries the RANGE kind and the location of a token");
  if (e1 == e0) ASSERT(r >= 0 && (unsigned long)r == value, "C20: an accepted priority literal is converted to exactly its value");
  ASSERT(0, "WITNESS: end of h_lit_macro reachable");
}

// C02: the index of an insertion ($N) is converted twice - checked in extract_macros (strToInt), used in get_replacement (strToIntSilent): whenever
// the check lets an insertion through, the index used later designates an existing slot (no out-of-range access when the macro is applied)
extern "C" void h_lit_insertion() {
  unsigned long value; std::string txt = sym_literal(value);
  std::vector<Theo::Token> toks; Token t; t.t = Token::INSERTION; t.text = txt; t.file = "m"; t.line = 3; toks.push_back(t);
  ExtractionState es = {.incomplete_macros = {}, .encountered_errors = {}, .tok_pos = 1, .tokens = toks, .output = {}};
  int slots = nondet_int(); ASSUME(slots >= 0 && slots <= 3);
  int ind = strToInt(es, txt);                       // as in the tail of extract_macros
  bool kept = !(ind < 0 || ind >= slots);
  int used = strToIntSilent(txt);                    // as in get_replacement
  if (kept) ASSERT(used >= 0 && used < slots, "C02: an insertion index accepted by macro extraction designates an existing slot when the macro is applied");
  ASSERT(0, "WITNESS: end of h_lit_insertion reachable");
}
