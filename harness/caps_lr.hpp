// capacities of the container model for the LR harnesses (model bounds, DESIGN.md 2.2); the LR_CAP_* values are passed per job by lib/lrtv.py
//  lr_parse.cpp  : tables of one natively generated parser (states x terminals, states x nonterminals), parse stacks, input
//  first_sets.cpp: a symbolic grammar with 2 nonterminals (+ 2 terminals, epsilon) built through SemanticGrammar<int>::add
// The element types are nested (LRParser<S,T>::Action is private, Grammar::Symbol needs the complete Grammar, whose members already instantiate
// the containers), so they cannot be named before their first use: the specialisations select them by shape.
#ifndef LR_CAP_INT
#define LR_CAP_INT 8        /* vector<int>: parse stacks, input, one row of the jump table */
#endif
#ifndef LR_CAP_STATES
#define LR_CAP_STATES 4     /* rows of the action / jump table */
#endif
#ifndef LR_CAP_WIDTH
#define LR_CAP_WIDTH 3      /* columns of the action table */
#endif
#ifndef LR_CAP_SYMS
#define LR_CAP_SYMS 2       /* symbols per alternative (vector<Symbol>), also symbols of a first() argument */
#endif
#ifndef LR_CAP_ALTS
#define LR_CAP_ALTS 2       /* alternatives per nonterminal */
#endif
#ifndef LR_CAP_FIRSTSET
#define LR_CAP_FIRSTSET 4   /* elements of one FIRST set */
#endif
#ifndef LR_CAP_FIRSTMAP
#define LR_CAP_FIRSTMAP 6   /* keys of first_sets: epsilon, terminals, nonterminals */
#endif
#ifndef LR_CAP_RIGHTMAP
#define LR_CAP_RIGHTMAP 3   /* keys of right_sides / actions */
#endif
namespace std {
template<class T> concept __lr_action = requires(T x) { x.beta; x.left; x.state; x.action; x.t; };
template<class T> concept __lr_symbol = requires(T x) { x.t; x.index; } && !requires(T x) { x.beta; } && sizeof(T) == 8;
template<> struct __cap<int> { static constexpr int v = LR_CAP_INT; };
template<> struct __cap<vector<int>> { static constexpr int v = LR_CAP_STATES; };
template<__lr_action T> struct __cap<T> { static constexpr int v = LR_CAP_WIDTH; };
template<__lr_action T> struct __cap<vector<T>> { static constexpr int v = LR_CAP_STATES; };
template<__lr_symbol T> struct __cap<T> { static constexpr int v = LR_CAP_SYMS; };
template<__lr_symbol T> struct __cap<vector<T>> { static constexpr int v = LR_CAP_ALTS; };
template<> struct __cap<function<int(vector<int>)>> { static constexpr int v = LR_CAP_ALTS; };
template<__lr_symbol T> struct __scap<T> { static constexpr int v = LR_CAP_FIRSTSET; };
template<__lr_symbol K, __lr_symbol E> struct __mcap<K, set<E>> { static constexpr int v = LR_CAP_FIRSTMAP; };
template<__lr_symbol K, class E> struct __mcap<K, vector<E>> { static constexpr int v = LR_CAP_RIGHTMAP; };
}
