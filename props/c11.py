"""C11 - macro expansion always terminates within its pass budget.

Solver obligations (E1, harness/macro_apply.cpp): the REAL pass loop of Theo::apply_macros with the detectors stubbed by contract
(symbolic answers, or adversarial: always a match), budget = 0, 1, 2 (3 in the thorough tier): at most `passes` rewriting steps and
get_replacement calls, no detector consulted after the budget, MACRO_APPLY_REACHED_MAX_PASSES exactly when every pass rewrote, the loop
stops at the first pass without a match, output size bounded, the call returns (all loops within their unwinding bounds, no UB
assertion of the container model).  Assumption check (syntactic, not a solver result): Theo::parse passes THEO_MACRO_PASSES = 1024 and
copies mar.errors into a.errors before it decides parsed_correctly."""
import framework as fw, macroh

ASSUMPTIONS = fw.COMMON_ASSUMPTIONS + [
    'MacroDetector::MacroDetector and MacroDetector::detect are replaced by contract stubs: detect terminates and returns nullopt or a match inside the input before T_EOF (termination and range of the real detector: C12/C13)',
    'the budget is a constant of each job (0, 1, 2, 3, and 2^31, 2^32-1 with a macro set that is finished after one step); a symbolic budget was not decided by CBMC within 20 minutes; the loop body does not depend on the budget other than through the comparison pass < passes',
    'number of definitions, priorities and rejections are constants of each job; bodies, inputs and detector answers are symbolic',
    'tail of Theo::parse: checked syntactically on the LLVM IR (operand 1024 of the only call of apply_macros inside Theo::parse) and on the source text (mar.errors is part of the lists copied into a.errors before parsed_correctly is set); Theo::parse itself is not executed symbolically',
]
EXPLANATION = ('The pass loop is executed for real for every constant budget of the family; the oracle counts rewriting steps from the recorded detector answers and the recorded get_replacement calls. '
               'An unwinding assertion on the pass loop at budget+2 iterations and the log (one pass more than the budget) make an overrun visible instead of cutting it off.')


def run(prop, tier, seed, wd, t0):
    tags = [prop]
    jobs = [macroh.select_job('loop.budget0', (5, 5), passes=0, tags=tags),
            macroh.select_job('loop.budget1', (3, 7), passes=1, tags=tags),
            macroh.select_job('loop.budget1_adversarial', (5, 5), passes=1, adversarial=True, tags=tags)]
    # budgets at the other end of `unsigned`: the expansion needs one rewriting step, the budget is 2^31 / 2^32-1 ("all pass budgets from 1 upward")
    jobs.append(macroh.select_job('loop.budget_2p31_1def', (5,), passes=1, nin=2, tags=tags, pfix=2**31, quiet_after=1))
    jobs.append(macroh.select_job('loop.budget_uintmax_1def', (5,), passes=1, nin=2, tags=tags, pfix=2**32 - 1, quiet_after=1))
    if tier == 'quick':
        jobs.append(macroh.select_job('loop.budget2_1def', (5,), passes=2, nin=1, tags=tags))
        jobs.append(macroh.select_job('loop.budget2_adversarial_1def', (5,), passes=2, nin=2, adversarial=True, tags=tags))
    else:
        jobs.append(macroh.select_job('loop.budget2', (3, 7), passes=2, tags=tags, timeout=1500))
        jobs.append(macroh.select_job('loop.budget2_same_priority', (5, 5), passes=2, tags=tags, timeout=1500))
        jobs.append(macroh.select_job('loop.budget2_adversarial', (5, 5), passes=2, adversarial=True, tags=tags, timeout=1500))
        jobs.append(macroh.select_job('loop.budget3_1def', (5,), passes=3, nin=2, nbody=1, tags=tags, timeout=1700))
        jobs.append(macroh.select_job('loop.budget3_adversarial_1def', (5,), passes=3, nin=2, nbody=1, adversarial=True, tags=tags, timeout=1700))

    def extra(out):
        try:
            r = macroh.parse_tail_check(wd)
        except Exception as ex:
            out.inconclusive.append('tail of Theo::parse could not be checked: %s' % str(ex)[:300]); return {}
        if not r['ok']:
            out.inconclusive.append('assumption check failed: Theo::parse no longer passes THEO_MACRO_PASSES=1024 to apply_macros or no longer forwards mar.errors before parsed_correctly: %s' % r)
        return {'parse_tail_assumption_check': r}
    return fw.run_e1(prop, tier, seed, wd, t0, jobs, ASSUMPTIONS, EXPLANATION, extra=extra)
