"""C13 - generated LR(1) parsers recognise exactly their grammar (translation validation of the table generator + FIRST sets)."""
import os, shutil
import framework as fw, lrtv


def run(prop, tier, seed, wd, t0):
    out = fw.Outcome()
    cov = lrtv.c13_obligations(prop, tier, seed, wd, out)
    cov['disagreements_checked'] = out.disagreements
    return fw.finish(prop, tier, seed, 'translation_validation', out, t0, coverage_extra=cov, assumptions=fw.COMMON_ASSUMPTIONS + lrtv.C13_ASSUMPTIONS, explanation=lrtv.C13_EXPLANATION)


def replay(r):
    """re-run a stored counterexample: the real generator and the real driver (native build of /repo) on the witness input, next to the Python derivation-table reference"""
    wd = fw.workdir('replay')
    try:
        rep = lrtv.replay_grammar(wd, r)
    finally:
        shutil.rmtree(wd, ignore_errors=True)
    import json
    print(json.dumps(rep, indent=1, default=str))
    print('REPRODUCED' if rep.get('reproduced') else 'NOT REPRODUCED')
    return 1 if rep.get('reproduced') else 0
