"""C02 - compilation is total: every input yields a result, never a crash or a hang (per-stage obligations)."""
import os
import framework as fw, c04

def run(prop, tier, seed, wd, t0):
    jobs, info = c04.parser_jobs(prop, tier, wd, [prop])
    stages = ['parser (layer B, 12 obligations): no container precondition violated, no null dereference, cursor never passes T_EOF, progress (termination)']
    for modname, fn, what in [('scanh', 'c02_jobs', 'Theo::scan with script lexer'), ('extracth', 'c02_jobs', 'Theo::extract_macros'), ('genh', 'c02_jobs', 'generator on error-free trees')]:
        try:
            mod = __import__(modname)
            jobs += getattr(mod, fn)(prop, tier, wd)
            stages.append(what)
        except ImportError:
            pass
    try:
        import literals
        jobs += [j for j in literals.jobs(tier, prop) if 'insertion' in j.name]
        stages.append('insertion indices: checked and used index agree (macro.cpp strToInt / strToIntSilent)')
    except ImportError:
        pass
    def extra(out):
        return {'stages_covered': stages}
    return fw.run_e1(prop, tier, seed, wd, t0, jobs, fw.COMMON_ASSUMPTIONS + [
        'per-stage decomposition with interface invariants (token stream ends in exactly one T_EOF; parser contracts); the composition is an argument, not a solver result',
        'scanner automaton totality (every byte string is tokenised, no infinite loop in the matching loop) is part of C14',
        'the scan stage (Theo::scan with a script lexer: include stack, buffers released, result shape) is executed by the C15 check (harness/scan_h.cpp, assertions tagged C02 there); a failure there is printed as a violation of C15',
        'the LR table generator on symbolic user patterns, flex buffer management and allocation failure are outside (DESIGN.md 8)'],
        'Every stage of compile() that could be encoded is executed symbolically with all library preconditions (back()/pop_back() on empty, index out of range, end() dereference, null '
        'dereference) and pointer checks as assertions, unwinding assertions for termination, and the result-shape predicate of its interface.', extra=extra)
