"""C01 - compiled programs compute the LOOP/WHILE/GOTO reference semantics."""
import framework as fw, vm

def run(prop, tier, seed, wd, t0):
    jobs = [vm.step_ref(tier, [prop])]
    def extra(out):
        cov = {}
        try:
            import ctv
            cov.update(ctv.semantics_obligations(prop, tier, seed, wd, out) or {})
        except ImportError:
            pass
        try:
            import genh      # lowering of assignment (quick, thorough) and of LOOP / WHILE (thorough) by the real generator functions from arbitrary generator states
            if hasattr(genh, 'lowering_obligations'):
                cov.update(genh.lowering_obligations(prop, tier, seed, wd, out) or {})
        except ImportError:
            pass
        return cov
    return fw.run_e1(prop, tier, seed, wd, t0, jobs, fw.COMMON_ASSUMPTIONS + [
        'values stay below 2^31-1 (as the property states)',
        'the end-to-end statement is cut into links (instruction lemmas, translation validation of compiled shapes, scanner/include/macro links C14/C15/C09); their composition is an argument in DESIGN.md, not a solver result'],
        '(a) instruction lemmas, layer A: for every opcode and all operand values the post-state of the real VM::executeSingle() equals the reference semantics '
        'written from instr.hpp (target := max(src+c,0), TEST, relative jumps, PREPARE appends a zeroed frame, ARG copies caller->callee, EXEC stores the return '
        'address, RET copies OUT to the caller target, resumes and releases the frame). (c) see the translation-validation samples.', extra=extra)
