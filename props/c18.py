"""C18 - compilation and execution are deterministic and share no state."""
import os, re, subprocess, json, hashlib
import framework as fw, e1, vm

TUS = ['Compiler/src/ast.cpp', 'Compiler/src/parse.cpp', 'Compiler/src/gen.cpp', 'Compiler/src/compiler.cpp', 'Compiler/src/scan.cpp', 'Compiler/src/macro.cpp',
       'Compiler/src/ParserGenerator/grammar.cpp', 'Compiler/src/ParserGenerator/lrdea.cpp', 'VM/src/vm.cpp', 'VM/src/program.cpp', 'VM/src/instr.cpp']
# writable globals of the library at the pinned commit (both are name tables that are only read after their dynamic initialisation)
EXPECTED_GLOBALS = {'token_map': 'Compiler/src/scan.cpp', 'op_to_str': 'VM/src/program.cpp'}


def writable_globals(wd):
    """non-constant globals (incl. function-local statics, which appear as globals) defined by the TUs of the library, from the LLVM IR"""
    found = {}
    for tu in TUS:
        out = os.path.join(wd, 'g_' + re.sub(r'\W', '_', tu) + '.ll')
        e1.sh([e1.CLANG] + e1.BASE_CXX + [os.path.join(fw.REPO, tu), '-o', out])
        for l in open(out):
            m = re.match(r'^@("[^"]+"|[\w.$]+) = (?:dso_local |internal |linkonce_odr |weak_odr |hidden |local_unnamed_addr |unnamed_addr |thread_local(?:\([a-z]+\))? )*(global|constant) ', l)
            if m and m.group(2) == 'global':
                name = m.group(1).strip('"')
                if name.startswith('llvm.') or name.startswith('_ZGV'): continue
                found.setdefault(name, tu)
    return found


def scanner_globals(wd):
    """the generated scanner must be reentrant: no writable file-scope object in lex.yy.c, %option reentrant in lexer.l"""
    out = os.path.join(wd, 'lexyy.ll')
    p = subprocess.run(['clang++-14', '-std=c++20', '-x', 'c++', '-w', '-I' + fw.REPO, '-I' + os.path.join(fw.REPO, 'Compiler/include'), '-S', '-emit-llvm', '-O0', os.path.join(fw.REPO, 'Compiler/src/lex.yy.c'), '-o', out], stdout=subprocess.PIPE, stderr=subprocess.PIPE, text=True)
    if p.returncode != 0: return None, 'lex.yy.c does not compile: ' + p.stderr[-300:]
    bad = []
    for l in open(out):
        m = re.match(r'^@("[^"]+"|[\w.$]+) = (?:dso_local |internal |linkonce_odr |hidden |local_unnamed_addr |unnamed_addr )*(global|constant) ', l)
        if m and m.group(2) == 'global' and not m.group(1).startswith(('_ZSt', '"_ZSt', '_ZN9__gnu_cxx', '_ZNSt', '.str', '__dso_handle')) and 'std::' not in m.group(1): bad.append(m.group(1))
    opt = re.search(r'^%option[^\n]*\breentrant\b', open(os.path.join(fw.REPO, 'Compiler/src/lexer.l')).read(), re.M) is not None
    return {'writable_globals_in_lex_yy_c': bad, 'option_reentrant_in_lexer_l': opt}, None


def native_determinism(wd, tsan):
    exe = os.path.join(wd, 'determinism' + ('_tsan' if tsan else ''))
    R = fw.REPO
    srcs = [os.path.join(fw.VERIF, 'native', 'determinism.cpp')] + [os.path.join(R, 'Compiler/src', f) for f in ('ast.cpp', 'parse.cpp', 'gen.cpp', 'compiler.cpp', 'scan.cpp', 'macro.cpp', 'ParserGenerator/grammar.cpp', 'ParserGenerator/lrdea.cpp')] + \
           ['-x', 'c++', os.path.join(R, 'Compiler/src/lex.yy.c'), '-x', 'none'] + [os.path.join(R, 'VM/src', f) for f in ('vm.cpp', 'program.cpp', 'instr.cpp')]
    cc = ['g++', '-std=c++20', '-O1', '-g', '-w', '-pthread', '-fsanitize=thread'] if tsan else ['g++', '-std=c++20', '-O1', '-w', '-pthread']
    p = subprocess.run(cc + ['-I' + R, '-I' + os.path.join(R, 'Compiler/include')] + srcs + ['-o', exe], stdout=subprocess.PIPE, stderr=subprocess.PIPE, text=True)
    if p.returncode != 0: return {'built': False, 'log': p.stderr[-400:]}
    q = subprocess.run([exe], stdout=subprocess.PIPE, stderr=subprocess.PIPE, text=True, timeout=300, env=dict(os.environ, TSAN_OPTIONS='halt_on_error=0'))
    return {'built': True, 'rc': q.returncode, 'identical': 'IDENTICAL' in q.stdout, 'race_reports': q.stderr.count('WARNING: ThreadSanitizer'), 'out': q.stdout[-200:], 'err': q.stderr[-600:]}


def run(prop, tier, seed, wd, t0):
    jobs = [vm.two_vms(tier, [prop]), vm.globals_vm(tier, [prop])]
    d = vm.cfg(tier)
    jobs[1].unwindset = {'_ZN4Theo7Program11disassembleERSt7ostream.0': d['VM_L'] + 1}
    def extra(out):
        cov = {}
        g = writable_globals(wd)
        cov['writable_globals'] = g
        new = {k: v for k, v in g.items() if k not in EXPECTED_GLOBALS and not k.startswith('_ZSt') and not k.startswith('_ZNSt')}
        sc, err = scanner_globals(wd)
        cov['scanner'] = sc if sc else err
        nat = native_determinism(wd, False); cov['native_determinism'] = {k: v for k, v in nat.items() if k != 'err'}
        ts = native_determinism(wd, True); cov['native_two_threads_tsan'] = {k: v for k, v in ts.items() if k != 'out'}
        cov['traces_validated_against_impl'] = 2
        out.obligations += 2
        candidates = []
        if new: candidates.append('new writable global(s) in the library: %s' % json.dumps(new))
        if sc and (sc['writable_globals_in_lex_yy_c'] or not sc['option_reentrant_in_lexer_l']): candidates.append('the generated scanner is not reentrant: %s' % json.dumps(sc))
        confirmed = []
        if nat.get('built') and not nat.get('identical'): confirmed.append('repeated / interleaved compilation of the same input gave different results: ' + nat.get('out', ''))
        if ts.get('built') and (ts.get('race_reports') or not ts.get('identical')): confirmed.append('two compilations on two threads: %d data race report(s), identical=%s' % (ts.get('race_reports', 0), ts.get('identical')))
        if not candidates: out.discharged += 1
        if not confirmed: out.discharged += 1
        if not nat.get('built') or not ts.get('built'): out.inconclusive.append('native determinism driver did not build: %s' % (nat.get('log') or ts.get('log')))
        for c in confirmed:
            os.makedirs(fw.REPLAYS, exist_ok=True)
            rp = os.path.join(fw.REPLAYS, '%s-%s.json' % (prop, hashlib.md5(c.encode()).hexdigest()[:10]))
            json.dump({'module': 'c18', 'property': prop, 'what': c, 'static_candidates': candidates}, open(rp, 'w'), indent=1)
            out.violations.append({'property': prop, 'job': 'c18.native', 'assertion': c, 'replay': rp, 'confirmed': True, 'cex': {}})
        if candidates and not confirmed:
            # a frame-condition hit alone is a candidate, not an alarm (DESIGN.md C18): no difference and no race could be reproduced
            out.inconclusive.append('candidate shared state without reproduced difference: ' + '; '.join(candidates))
        return cov
    return fw.run_e1(prop, tier, seed, wd, t0, jobs, fw.COMMON_ASSUMPTIONS + [
        'thread schedules are not explored by the solver: the claim for threads is the non-interference argument (no writable shared object + all state reachable only from per-call objects); a native two-thread run under ThreadSanitizer is the confirmation step',
        'races inside libstdc++, malloc and the flex runtime are outside'],
        'Solver part: (1) two VM instances in arbitrary states - any call on one leaves every field of the other unchanged; (2) the functions that read the only writable globals of the library '
        '(name tables) do not modify them. Static part, recomputed from the IR of every run: the inventory of writable globals (function-local statics included) is exactly the expected one, the generated '
        'scanner has no writable file-scope object and lexer.l still asks for a reentrant scanner. A new global is only a candidate; it becomes a violation when the native run-twice / two-thread (TSan) driver reproduces a difference or a race.', extra=extra)


def replay(r):
    wd = fw.workdir('replay')
    try:
        a = native_determinism(wd, False); b = native_determinism(wd, True)
    finally:
        import shutil; shutil.rmtree(wd, ignore_errors=True)
    bad = (a.get('built') and not a.get('identical')) or (b.get('built') and (b.get('race_reports') or not b.get('identical')))
    print(json.dumps({'run_twice': a, 'two_threads_tsan': b}, indent=1)[:1500]); print('REPRODUCED' if bad else 'NOT REPRODUCED')
    return 1 if bad else 0
