"""C15 - include resolution terminates, detects cycles and reports what is missing; with the Theo::scan parts of C14 (include splice,
file/line labels, exactly one final T_EOF) and C02 (scan is total, every scanner is destroyed).

Code under test: the real Compiler/src/scan.cpp (Theo::scan, create_scanner, cleanup_scanner, exists_scanner), executed symbolically (E1).
The flex scanner is environment (C14/E2): harness/scan_h.cpp defines the seven flex entry points as a SCRIPT LEXER and compares scan() with
a reference expander written from the property.  Obligations:
  A   layer A, any stack:  contracts of exists_scanner / create_scanner / cleanup_scanner from an arbitrary scanner stack; "pairwise distinct
      names stay pairwise distinct under a push that follows a negative exists_scanner test" (the ranking argument: depth <= number of files)
  S   bounded runs of scan(), the include GRAPH left to the solver: per-file kind skeleton fixed, include targets, presence bits and main
      name symbolic (and small everything-symbolic instances)
  L   layer C (DESIGN.md 2.5): a family of concrete include layouts, only the line numbers symbolic
  N   native: the real scan() with the real flex scanner, and Theo::parse's file requests, against the python reference expander on
      generated include graphs (encoder validation; a reproduced difference is a violation); replay of every solver counterexample
  T   text checks: Theo::parse's request filter, the Scanner& / push_back discipline of the scan loop
"""
import concurrent.futures, hashlib, json, os, random, re, shutil, subprocess, sys, threading, time

import framework as fw, e1

H = os.path.join(fw.VERIF, 'harness', 'scan_h.cpp')
STUBS = {'_ZNKSt6stringltERKS_': 'stub_str_lt', '_ZNKSt6string4__eqERKS_': 'stub_str_eq', '_ZStplPKcRKSt6string': 'stub_cat_cs', '_ZStplRKSt6stringPKc': 'stub_cat_sc'}
UB_PAT = (r'^(_ZN4Theo|_ZNSt|_ZNKSt|_ZSt|_Z14create_scanner|_Z15cleanup_scanner|_Z14exists_scanner|_Z5yylexPN4Theo5Token|_Z14yy_scan_string|stub_str_|'
          r'__CPROVER__start\.memory-leak)')
FUNCS = ['Theo::scan', 'create_scanner', 'cleanup_scanner', 'exists_scanner']
TAGS = ['C15', 'C14', 'C02']

# ------------------------------------------------------------------------------------------------ enums of the repository
def repo_enum(path, name):
    txt = re.sub(r'//[^\n]*', '', open(os.path.join(fw.REPO, path)).read())
    m = re.search(r'enum\s+' + name + r'\s*\{([^}]*)\}', txt)
    if not m: raise Exception('enum %s not found in %s' % (name, path))
    out = {}; v = 0
    for it in m.group(1).split(','):
        it = it.strip()
        if not it: continue
        mm = re.match(r'(\w+)\s*(?:=\s*(\d+))?$', it)
        if mm.group(2) is not None: v = int(mm.group(2))
        out[mm.group(1)] = v; v += 1
    return out

SPELL = {'NV_ID': '@', 'INT': '7', 'PAREN_CLOSE': ')', 'PAREN_OPEN': '(', 'ARGSEP': ',', 'PROGSEP': ';', 'LABELDEC': ':', 'ASSIGN': ':=', 'NEQ_ZERO': '!= 0', 'EQ': '=',
         'DO': 'do', 'LOOP': 'loop', 'WHILE': 'while', 'GOTO': 'goto', 'IF': 'if', 'THEN': 'then', 'STOP': 'stop', 'END': 'end', 'PROGRAM': 'program', 'IN': 'in', 'OUT': 'out',
         'DEFINE': 'define', 'AS': 'as', 'PRIORITY': 'priority', 'END_DEFINE': 'enddef', 'PROG_TEMP': '<P>', 'VALUE_TEMP': '<V>', 'ID_TEMP': '<ID>', 'INT_TEMP': '<INT>',
         'ARGS_TEMP': '<A>', 'INSERTION': '$1', 'TEMP_VAL': '#1', 'RUN': 'run', 'WITH': 'with'}


class Enums:
    def __init__(s):
        s.tok = repo_enum('Compiler/include/token.hpp', 'Type')
        s.err = repo_enum('Compiler/include/parse_error.hpp', 'Type')
        s.tokname = {v: k for k, v in s.tok.items()}
        for k in ('T_EOF', 'ID', 'INCLUDE', 'FNAME', 'UNKNOWN'):
            if k not in s.tok: raise Exception('token kind %s missing' % k)
        for k in ('MAIN_FILE_NOT_FOUND', 'EXPECTED_FILENAME', 'FILE_NOT_FOUND', 'RECURSIVE_INCLUDE'):
            if k not in s.err: raise Exception('error kind %s missing' % k)


# ------------------------------------------------------------------------------------------------ scripts, rendering, reference expander
# a script entry: ['T', token kind number, line] | ['I', line] | ['F', name, line]
def spelling(E, ent, fi, k):
    if ent[0] == 'I': return 'include'
    if ent[0] == 'F': return '"%s"' % ent[1]
    nm = E.tokname.get(ent[1], 'ID')
    return SPELL.get(nm, 't%d%d' % (fi, k))


def render(E, scripts):
    """scripts: name -> entries with (monotone) line numbers -> name -> text, and the token view of every entry (kind, text, line)"""
    texts = {}; view = {}
    for fi, name in enumerate(sorted(scripts)):
        cur = 1; out = ''; first = True; v = []
        for k, ent in enumerate(scripts[name]):
            line = max(ent[-1], cur)
            if line > cur: out += '\n' * (line - cur); cur = line; first = True
            sp = spelling(E, ent, fi, k)
            out += ('' if first else ' ') + sp; first = False
            kind = E.tok['INCLUDE'] if ent[0] == 'I' else E.tok['FNAME'] if ent[0] == 'F' else (ent[1] if E.tokname.get(ent[1], 'ID') in SPELL else E.tok['ID'])
            v.append({'k': ent[0], 'name': ent[1] if ent[0] == 'F' else None, 'tk': kind, 'text': sp, 'line': line})
        texts[name] = out + '\n' if out and len(out) % 2 == 0 else out   # with and without a final newline
        view[name] = v
    return texts, view


def ref_expand(E, view, present, main):
    """the reference: main file's tokens, every include directive replaced in place by the tokens of the named file"""
    toks = []; errs = []; reqs = []; stack = []; visits = 0; iters = 0; maxdepth = 0
    if main in present: stack.append([main, 0]); visits = 1; maxdepth = 1
    else: errs.append(['MAIN_FILE_NOT_FOUND', None, None, None, main]); reqs.append(main)
    while stack:
        iters += 1
        if iters > 200000: raise Exception('reference expander does not terminate')
        f, p = stack[-1]; sc = view[f]
        if p >= len(sc): stack.pop(); continue
        e = sc[p]
        if e['k'] != 'I': toks.append([e['tk'], e['text'], f, e['line']]); stack[-1][1] = p + 1; continue
        if p + 1 >= len(sc) or sc[p + 1]['k'] != 'F':
            errs.append(['EXPECTED_FILENAME', f, e['line'], sc[p + 1]['line'] if p + 1 < len(sc) else e['line'], '']); stack[-1][1] = p + (2 if p + 1 < len(sc) else 1); continue
        t = sc[p + 1]['name']; stack[-1][1] = p + 2
        if t not in present: errs.append(['FILE_NOT_FOUND', f, e['line'], sc[p + 1]['line'], t]); reqs.append(t)
        elif any(x[0] == t for x in stack): errs.append(['RECURSIVE_INCLUDE', f, e['line'], sc[p + 1]['line'], ''])
        else: stack.append([t, 0]); visits += 1; maxdepth = max(maxdepth, len(stack))
    eof = [E.tok['T_EOF'], 'EOF', toks[-1][2], toks[-1][3]] if toks else [E.tok['T_EOF'], 'EOF', '-', -1]
    return {'tokens': toks + [eof], 'errors': errs, 'requests': reqs, 'visits': visits, 'iters': iters, 'maxdepth': maxdepth}


def compare(E, exp, got):
    """differences between the reference and what the native scan() returned (list of strings; empty = equal)"""
    d = []
    if got.get('skipped'): return None
    if got.get('crash'): return ['native run failed (crash, sanitizer or leak report, or no termination): %s' % got.get('why', '')[:300]]
    if got['tokens'] != exp['tokens']: d.append('token stream differs: expected %s got %s' % (json.dumps(exp['tokens'])[:400], json.dumps(got['tokens'])[:400]))
    ge = got['errors']; ee = exp['errors']
    if [x[0] for x in ge] != [E.err[x[0]] for x in ee] or [x[3] for x in ge] != [x[4] for x in ee]:
        d.append('errors differ (kind, request): expected %s got %s' % ([(x[0], x[4]) for x in ee], [(x[0], x[3]) for x in ge]))
    else:
        for g, x in zip(ge, ee):
            if x[0] != 'MAIN_FILE_NOT_FOUND' and not (g[1] == x[1] and x[2] <= g[2] <= x[3]): d.append('error location: expected %s got %s' % (x, g))
    # the selection Theo::parse makes
    req = [x[3] for x in ge if x[0] in (E.err['FILE_NOT_FOUND'], E.err['MAIN_FILE_NOT_FOUND'])]
    if req != exp['requests']: d.append('file requests differ: expected %s got %s' % (exp['requests'], req))
    return d


# ------------------------------------------------------------------------------------------------ native tools
class Native:
    def __init__(s, wd):
        s.wd = wd; s.exe = {}; s.err = {}; s.lock = threading.Lock()

    def build(s, mode):
        with s.lock:
            if mode in s.exe or mode in s.err: return s.exe.get(mode)
            R = fw.REPO; exe = os.path.join(s.wd, 'scan_dump_' + mode)
            srcs = [os.path.join(fw.VERIF, 'native', 'scan_dump.cpp'), os.path.join(R, 'Compiler/src/scan.cpp')]
            flags = []
            if mode == 'parse':
                flags = ['-DWITH_PARSE']
                srcs += [os.path.join(R, 'Compiler/src', f) for f in ('ast.cpp', 'parse.cpp', 'macro.cpp', 'ParserGenerator/grammar.cpp', 'ParserGenerator/lrdea.cpp')]
            srcs += ['-x', 'c++', os.path.join(R, 'Compiler/src/lex.yy.c'), '-x', 'none']
            p = subprocess.run(['g++', '-std=c++20', '-O1', '-g', '-fsanitize=address,undefined', '-fno-sanitize-recover=undefined', '-D_GLIBCXX_ASSERTIONS', '-w',
                                '-I' + R, '-I' + os.path.join(R, 'Compiler/include')] + flags + srcs + ['-o', exe], stdout=subprocess.PIPE, stderr=subprocess.PIPE, text=True)
            if p.returncode != 0: s.err[mode] = p.stderr[-1200:]; return None
            s.exe[mode] = exe
            return exe

    def _once(s, exe, mode, cases, tag, timeout):
        hx = lambda t: t.encode('latin-1', 'replace').hex() if t else '-'
        cf = os.path.join(s.wd, 'cases_%s_%s.txt' % (mode, tag))
        with open(cf, 'w') as f:
            for texts, main in cases:
                f.write('CASE %s %d\n' % (hx(main), len(texts)))
                for k in sorted(texts): f.write('%s %s\n' % (hx(k), hx(texts[k])))
        env = dict(os.environ, ASAN_OPTIONS='detect_leaks=1:abort_on_error=0', UBSAN_OPTIONS='print_stacktrace=0')
        outf = cf + '.out'
        with open(outf, 'w') as fo:
            p = subprocess.Popen([exe, mode, cf], stdout=fo, stderr=subprocess.PIPE, text=True, env=env)
            try:
                _, err = p.communicate(timeout=timeout); rc = p.returncode
            except subprocess.TimeoutExpired:
                p.kill(); p.communicate(); err = 'TIMEOUT after %ds (does not terminate)' % timeout; rc = -1
        res = []
        for l in open(outf).read().split('\n'):
            if l.startswith('{'):
                try: res.append(json.loads(l))
                except Exception: break
        return res, rc, err

    @staticmethod
    def _brief(err):
        ls = [l.strip() for l in (err or '').split('\n') if re.search(r'ERROR|SUMMARY|runtime error|Assertion|TIMEOUT', l)]
        return ' / '.join(ls[:2])[:400] if ls else (err or '')[-300:]

    def run(s, mode, cases, tag, max_failures=5):
        """cases: list of (texts, main) -> list of results: the driver's JSON, {'crash': .., 'why': ..} (crash, sanitizer report, leak, hang) or {'skipped': True}"""
        exe = s.build(mode)
        if exe is None: return [{'crash': True, 'why': 'native build failed: ' + s.err.get(mode, '')}] * len(cases)
        out = []; start = 0; failures = 0; part = 0; CH = 100
        while start < len(cases):
            if failures >= max_failures:
                out += [{'skipped': True}] * (len(cases) - start); break
            rest = cases[start:start + CH]
            # (a chunk of 100 graphs takes about a second for scan and a few seconds for parse; a run that does not terminate costs one timeout)
            res, rc, err = s._once(exe, mode, rest, '%s_%d' % (tag, part), 10 if len(rest) == 1 else (45 if mode == 'scan' else 120)); part += 1
            if len(res) == len(rest) and rc == 0: out += res; start += len(rest); continue
            if len(res) == len(rest):
                # every case answered but the process failed at exit (leak report): find one case that fails on its own
                for i in range(min(len(rest), 6)):
                    r1, rc1, err1 = s._once(exe, mode, [rest[i]], '%s_s%d' % (tag, i), 10)
                    if rc1 != 0 or len(r1) != 1:
                        res[i] = {'crash': True, 'why': 'rc=%s %s' % (rc1, s._brief(err1))}; break
                out += res; start += len(rest); failures += 1; continue
            out += res + [{'crash': True, 'why': 'rc=%s %s' % (rc, s._brief(err))}]
            start += len(res) + 1; failures += 1
        return out


# ------------------------------------------------------------------------------------------------ include layouts
def names(NF): return [chr(ord('a') + i) for i in range(NF)] + ['y', 'z', '']


def layout_scripts(lay, NF, lines=None, rnd=None):
    """layout {'files': [(present, [entries])], 'main': id}; entries ('T', kind) | ('I',) | ('F', id)  ->  scripts with lines"""
    nm = names(NF); scripts = {}; present = set()
    for f in range(NF):
        pres, ents = lay['files'][f] if f < len(lay['files']) else (0, [])
        if pres: present.add(nm[f])
        line = 1; sc = []
        for k, e in enumerate(ents):
            if lines is not None: line = lines[f][k]
            elif rnd is not None and k > 0: line += rnd.choice([0, 0, 1, 1, 2])
            if e[0] == 'T': sc.append(['T', e[1], line])
            elif e[0] == 'I': sc.append(['I', line])
            else: sc.append(['F', nm[e[1]], line])
        scripts[nm[f]] = sc
    return scripts, present, nm[lay['main']]


def handmade_layouts(E):
    ID = E.tok['ID']; T = ('T', ID); I = ('I',)
    def F(x): return ('F', x)
    def K(n): return ('T', E.tok[n])
    Y, Z, EMP = 4, 5, 6   # absent names for NF = 4
    L = []
    def add(name, files, main=0): L.append({'name': name, 'files': files, 'main': main})
    add('empty_main', [(1, [])]); add('one_token', [(1, [T])]); add('three_tokens', [(1, [T, K('INT'), K('PROGSEP')])])
    add('absent_main_y', [(1, [T])], Y); add('absent_main_z', [(0, [])], Z); add('absent_main_named_b', [(1, [T]), (0, [T])], 1)
    add('include_at_eof', [(1, [T, I])]); add('include_alone', [(1, [I])]); add('include_token', [(1, [I, T, T])]); add('include_include', [(1, [I, I, F(1)]), (1, [T])])
    add('stray_name', [(1, [F(1), T]), (1, [T])]); add('self_include', [(1, [T, I, F(0), T])]); add('missing_target', [(1, [I, F(Y), T])]); add('empty_name', [(1, [I, F(EMP), T])])
    add('missing_named_b', [(1, [T, I, F(1)]), (0, [T])]); add('two_missing', [(1, [I, F(Y), I, F(Z)])])
    add('inc_begin', [(1, [I, F(1), T]), (1, [T, T])]); add('inc_mid', [(1, [T, I, F(1), T]), (1, [K('NV_ID')])]); add('inc_end', [(1, [T, I, F(1)]), (1, [T])])
    add('inc_empty_file', [(1, [T, I, F(1), T]), (1, [])]); add('mutual', [(1, [T, I, F(1), T]), (1, [T, I, F(0), T])]); add('child_self', [(1, [I, F(1)]), (1, [I, F(1), T])])
    add('twice_in_a_row', [(1, [I, F(1), I, F(1)]), (1, [T])]); add('twice_nested', [(1, [I, F(1), I, F(1)]), (1, [I, F(2)]), (1, [T])])
    add('diamond', [(1, [I, F(1), I, F(2)]), (1, [I, F(3)]), (1, [I, F(3), T]), (1, [T])]); add('chain4', [(1, [T, I, F(1)]), (1, [T, I, F(2)]), (1, [T, I, F(3)]), (1, [T])])
    add('cycle3', [(1, [T, I, F(1), T]), (1, [I, F(2), T]), (1, [T, I, F(0), I])]); add('cycle4', [(1, [I, F(1)]), (1, [I, F(2)]), (1, [I, F(3)]), (1, [I, F(0), T])])
    add('cycle_to_mid', [(1, [I, F(1), T]), (1, [I, F(2)]), (1, [I, F(1), T])]); add('main_is_c', [(1, [T]), (1, [I, F(0)]), (1, [I, F(1), I, F(0)])], 2)
    add('child_missing_and_malformed', [(1, [I, F(1), T]), (1, [I, F(Y), I])]); add('malformed_then_ok', [(1, [I, T, I, F(1)]), (1, [T])])
    add('keywords', [(1, [K('PROGRAM'), K('DO'), I, F(1)]), (1, [K('END'), K('ASSIGN')])]); add('sibling_after_cycle', [(1, [I, F(1), I, F(2)]), (1, [I, F(0)]), (1, [T])])
    return L


def random_layouts(E, rnd, n, NF, NE, V, tokcap, errcap):
    ID = E.tok['ID']; out = []
    kinds = [ID] * 6 + [E.tok[k] for k in ('INT', 'NV_ID', 'PROGSEP', 'END', 'ASSIGN')]
    tries = 0
    while len(out) < n and tries < n * 200:
        tries += 1
        nf = rnd.choice([1, 2, 2, 3, 3, 3, NF, NF]); nf = min(nf, NF)
        files = []
        for f in range(NF):
            ents = []
            ln = rnd.randint(0, NE) if f < nf else 0
            while len(ents) < ln:
                r = rnd.random()
                if r < 0.45 and len(ents) + 2 <= ln: ents += [('I',), ('F', rnd.choice(list(range(nf)) * 3 + [NF, NF + 1, NF + 2]))]
                elif r < 0.55: ents.append(('I',))
                elif r < 0.6: ents.append(('F', rnd.randrange(NF + 3)))
                else: ents.append(('T', rnd.choice(kinds)))
            files.append((1 if (f < nf and rnd.random() < 0.85) else 0, ents))
        lay = {'name': 'rnd%d' % len(out), 'files': files, 'main': rnd.choice([0] * 6 + list(range(nf)) + [NF, NF + 1])}
        sc, present, main = layout_scripts(lay, NF)
        _, view = render(E, sc)
        r = ref_expand(E, view, present, main)
        if r['visits'] > V or len(r['tokens']) > tokcap or len(r['errors']) > errcap or r['iters'] < 2: continue
        out.append(lay)
    return out


# ------------------------------------------------------------------------------------------------ solver queries
class Cfg:
    """one translation of the harness: NF files, NE entries per file, at most V file visits"""
    def __init__(s, NF, NE, V): s.NF = NF; s.NE = NE; s.V = V; s.cfile = None; s.error = None; s.loop = None; s.scan_fn = None
    def key(s): return (s.NF, s.NE, s.V)
    def defines(s): return ['SC_NF=%d' % s.NF, 'SC_NE=%d' % s.NE, 'SC_V=%d' % s.V, 'MINISTL_STR_CAP=12', 'MINISTL_VEC_CAP=4', 'MINISTL_MAP_CAP=4']
    def tokcap(s): return s.V * s.NE - 2 * (s.V - 1) + 1
    def errcap(s): return 2 * s.V + 1


def fix_layout(cfile):
    """ir2c prints the blocks of a function in LLVM order; loop-simplify's unique latch block (`*backedge*`) of a loop with several `continue`s
    then precedes its predecessors, so that every `continue` is a backward goto of its own and CBMC 6.11 reports a failed unwinding assertion
    for any bound (minimal reproduction: t1.c in the final report).  Moving the latch blocks behind the other blocks of the function leaves
    exactly one backward goto per loop.  Pure reordering of labelled blocks that all end in goto/return."""
    L = open(cfile).read().split('\n'); out = []; i = 0; moved = 0
    while i < len(L):
        if re.match(r'^\S.*\) \{$', L[i]):
            j = i + 1
            while j < len(L) and L[j] != '}': j += 1
            body = L[i + 1:j]
            labs = [k for k, l in enumerate(body) if re.match(r'^bb_\w+: ;$', l)]
            if labs and any('backedge' in body[k] for k in labs):
                pre = body[:labs[0]]; blocks = [body[a:b] for a, b in zip(labs, labs[1:] + [len(body)])]
                for b in blocks:
                    last = [x for x in b if x.strip()][-1]
                    if not re.search(r'(goto \w+;|return[^;]*;|\})\s*$', last): raise e1.BuildError('block does not end in a terminator: ' + last)
                keep = [b for b in blocks if 'backedge' not in b[0]]; late = [b for b in blocks if 'backedge' in b[0]]
                moved += len(late); body = pre + [x for b in keep + late for x in b]
            out += [L[i]] + body + ['}']; i = j + 1
        else:
            out.append(L[i]); i += 1
    open(cfile, 'w').write('\n'.join(out))
    return moved


def build_cfg(cfg, wd):
    try:
        nm = 'scan_%d_%d_%d' % cfg.key()
        cfg.cfile = e1.build(wd, nm, H, [], roots=['h_scan', 'h_scan_all', 'h_helpers'], stubs=STUBS, defines=cfg.defines(), caps='caps_scan.hpp')
        fix_layout(cfg.cfile)
        txt = open(cfg.cfile).read()
        m = re.search(r'^\w[\w \*]* (_Z14exists_scanner\w*)\(', txt, re.M)
        cfg.loop = m.group(1) + '.0' if m else None
        m = re.search(r'^\w[\w \*]* (_ZN4Theo4scanE\w*)\(', txt, re.M)
        cfg.scan_fn = m.group(1) if m else None
        if cfg.loop is None or cfg.scan_fn is None: cfg.error = 'exists_scanner / Theo::scan not found in the translation (renamed or signature changed)'

    except Exception as ex:
        cfg.error = 'build failed: ' + str(ex)[-1200:]


S = (-1, -1, -1)   # symbolic entry


def shape_values(cfg, files, main, ID):
    """files: [(present | -1, len | -1, [entries (kind, arg, okind)])] -> the item list read by shape_param()"""
    vals = []
    for f in range(cfg.NF):
        pres, ln, ents = files[f] if f < len(files) else (0, 0, [])
        vals += [pres, ln]
        for p in range(cfg.NE):
            vals += list(ents[p] if p < len(ents) else (S if ln < 0 else (0, 0, ID)))
    return vals + [main]


def layout_shape(cfg, lay, ID):
    files = []
    for f in range(cfg.NF):
        pres, ents = lay['files'][f] if f < len(lay['files']) else (0, [])
        files.append((pres, len(ents), [(0, 0, e[1]) if e[0] == 'T' else (1, 0, ID) if e[0] == 'I' else (2, e[1], ID) for e in ents]))
    return shape_values(cfg, files, lay['main'], ID)


def make_job(cfg, wd, name, entry, vals, unwind, timeout, what, bounds, meta):
    sp = os.path.join(wd, 'shape_%s.c' % re.sub(r'\W', '_', name))
    open(sp, 'w').write('static const int T[%d] = {%s};\nint shape_param(int i) { return T[i]; }\n' % (len(vals), ', '.join(map(str, vals))))
    j = fw.Job('scan.' + name, H, entry, tus=[], defines=cfg.defines(), caps='caps_scan.hpp', unwind=unwind, tags=TAGS, ub_pat=UB_PAT, timeout=timeout, native=False,
               what=what, bounds=bounds, functions=FUNCS, extra=['--memory-leak-check', '--object-bits', '12', '--slice-formula', sp])
    j.cfg = cfg; j.meta = dict(meta, vals=list(vals))
    return j


def run_queries(jobs, workers):
    def one(j):
        if j.cfg.error or j.cfg.cfile is None:
            j.error = j.cfg.error or 'build failed'; return j
        # (e1.cbmc names its output after the C file: give every query its own name for the shared translation)
        j.cfile = os.path.join(os.path.dirname(j.cfg.cfile), re.sub(r'\W', '_', j.name) + '.c')
        if not os.path.exists(j.cfile): os.link(j.cfg.cfile, j.cfile)
        # the loops of the code under test get their bounds; constant-trip loops of the harness that LLVM left alone end by themselves
        us = {j.cfg.loop: j.cfg.NF + 2, j.cfg.scan_fn + '.0': j.unwind, j.cfg.scan_fn + '.1': j.unwind}
        j.result = e1.cbmc(j.cfile, j.entry, unwind=max(j.unwind, j.cfg.tokcap() + 3, j.cfg.errcap() + 3, j.cfg.V + 4), unwindset=us, timeout=j.timeout, mem_gb=j.mem_gb, extra=j.extra)
        return j
    with concurrent.futures.ThreadPoolExecutor(max_workers=workers) as ex:
        list(ex.map(one, jobs))


def solver_jobs(E, tier, seed, wd):
    ID = E.tok['ID']; I = (1, 0, ID); T = (0, 0, ID)
    def Fs(): return (2, -1, ID)      # quoted name, target left to the solver (any supplied file, two absent names, the empty name)
    tmo = 280 if tier == 'quick' else 1700
    cfgs = {}
    def cfg(NF, NE, V):
        if (NF, NE, V) not in cfgs: cfgs[(NF, NE, V)] = Cfg(NF, NE, V)
        return cfgs[(NF, NE, V)]
    specs = []   # (name, cfg, entry, files, main, unwind, what)
    # --- layer A
    c0 = cfg(3, 1, 1)
    specs.append(('helpers', c0, 'h_helpers', [(-1, -1, [])] * 3, -1, 6, 'ARBITRARY scanner stack (depth <= 3, any names of <= 2 characters, not necessarily distinct), arbitrary name: exists_scanner is exact and leaves the stack unchanged; '
                  'create_scanner labels scanner, ScannerInfo and buffer with the requested name/content and starts at line 1; a push after a negative test keeps names pairwise distinct; cleanup_scanner releases scanner, buffer and ScannerInfo'))
    # --- S: the include graph is the solver's
    c1 = cfg(3, 2, 3)
    specs.append(('all_3_2', c1, 'h_scan_all', [(-1, -1, [])] * 3, -1, 8, 'EVERYTHING symbolic: 3 files, scripts of <= 2 entries (any of: ordinary token of any kind, include, quoted name naming any of the 3 files, 2 absent names or the empty name), '
                  '<= 3 file visits, presence bits, main name (incl. absent) - in particular every include graph with out-degree <= 1 over <= 3 files: self include, 2- and 3-cycles, chains, missing targets'))
    c2 = cfg(2, 4, 3)
    specs.append(('twice2', c2, 'h_scan', [(-1, 4, [I, Fs(), I, Fs()]), (-1, 1, [T])], -1, 8, 'a file with two include directives in a row over a one-token file: targets, presence bits and main name symbolic (same file twice in sequence, self include, mixed with missing files)'))
    c3 = cfg(2, 3, 2)
    specs.append(('malformed2', c3, 'h_scan', [(1, -1, [S, S, S]), (-1, 1, [T])], 0, 6, 'main file with a fully symbolic script of <= 3 entries (ordinary tokens of any kind, include, quoted names in any order, include at the end, include followed by anything) over a one-token file of symbolic presence'))
    c4 = cfg(2, 2, 2)
    specs.append(('all_2_2', c4, 'h_scan_all', [(-1, -1, [])] * 2, -1, 6, 'EVERYTHING symbolic: 2 files, scripts of <= 2 entries, presence bits, main name'))
    if tier == 'thorough':
        c5 = cfg(2, 4, 2)
        specs.append(('all_2_4', c5, 'h_scan_all', [(-1, -1, [])] * 2, -1, 10, 'EVERYTHING symbolic: 2 files, scripts of <= 4 entries, <= 2 file visits, presence bits, main name'))
        c6 = cfg(3, 3, 3)
        specs.append(('graph3_tokens', c6, 'h_scan', [(-1, 3, [T, I, Fs()]), (-1, 3, [I, Fs(), T]), (-1, 3, [T, I, Fs()])], -1, 10, 'three files with a token before/after their include directive: targets, presence, main symbolic (splice position and labels across symbolic graphs)'))
        c7 = cfg(4, 2, 4)
        specs.append(('graph4', c7, 'h_scan', [(-1, 2, [I, Fs()])] * 4, -1, 9, 'four files, each one include directive: every include graph with out-degree 1 over <= 4 files, presence and main symbolic'))
        c8 = cfg(3, 4, 3)
        specs.append(('twice3', c8, 'h_scan', [(1, 4, [I, Fs(), I, Fs()]), (-1, 2, [I, Fs()]), (-1, 1, [T])], 0, 8, 'main with two include directives over a file with one include and a one-token file, all targets and presence bits symbolic, <= 3 file visits'))
        c9 = cfg(3, 4, 5)
        specs.append(('twice3_v5', c9, 'h_scan', [(1, 4, [I, Fs(), I, Fs()]), (-1, 2, [I, Fs()]), (-1, 1, [T])], 0, 12, 'as twice3 with <= 5 file visits: every expansion of that family (a file included twice whose own include is expanded twice)'))
    jobs = []
    for (name, c, entry, files, main, unw, what) in specs:
        vals = shape_values(c, files, main, ID)
        nsym = sum(1 for v in vals if v < 0)
        jobs.append(make_job(c, wd, name, entry, vals, unw, tmo, what, '%d files, <= %d entries per file, <= %d file visits, loop bound %d, %d of %d input items symbolic + all line numbers' % (c.NF, c.NE, c.V, unw - 1, nsym, len(vals)),
                             {'kind': 'helpers' if entry == 'h_helpers' else 'S', 'NF': c.NF, 'NE': c.NE}))
    # --- L: concrete include layouts (layer C)
    cl = cfg(4, 4, 6)
    rnd = random.Random(seed * 7919 + 15)
    lays = handmade_layouts(E)
    nrand = 8 if tier == 'quick' else 150
    lays += random_layouts(E, rnd, nrand, cl.NF, cl.NE, cl.V, cl.tokcap(), cl.errcap())
    skipped = []
    for lay in lays:
        sc, present, main = layout_scripts(lay, cl.NF)
        _, view = render(E, sc)
        r = ref_expand(E, view, present, main)
        if r['visits'] > cl.V or len(r['tokens']) > cl.tokcap() or len(r['errors']) > cl.errcap() or any(len(f[1]) > cl.NE for f in lay['files']):
            skipped.append(lay['name']); continue
        jobs.append(make_job(cl, wd, 'layout.' + lay['name'], 'h_scan', layout_shape(cl, lay, ID), r['iters'] + 2, tmo,
                             'include layout %s (main %s): %s' % (lay['name'], main, json.dumps({k: [(e[0] + (str(e[1]) if e[0] == 'F' else '')) for e in v] for k, v in sc.items() if v})),
                             'one concrete include layout over %d files, all line numbers symbolic (1..10^6, non-decreasing per file); %d loop iterations' % (cl.NF, r['iters']), {'kind': 'L', 'NF': cl.NF, 'NE': cl.NE, 'layout': lay}))
    return jobs, list(cfgs.values()), lays, skipped


# ------------------------------------------------------------------------------------------------ replay of solver counterexamples
def cex_input(job, desc):
    """input of a counterexample: the items the query fixed (shape values) + the symbolic ones from the trace (assignments to the S_* tables of the
    harness; with formula slicing only the assignments the failed assertion depends on are in the trace, everything else is irrelevant and defaulted)"""
    trace = None
    for pid, pr in job.result.props.items():
        if pr['description'] == desc and pr['status'] == 'FAILURE': trace = pr.get('trace')
    if trace is None or 'vals' not in job.meta: return None
    NF, NE = job.meta['NF'], job.meta['NE']; vals = job.meta['vals']
    tab = {}
    for st in trace:
        if st.get('stepType') != 'assignment' or not st.get('lhs'): continue
        m = re.match(r'_ZL\d+S_(present|len|kind|arg|line|okind|main)((?:\.a\[\d+l?\])*)$', st['lhs'])
        if not m: continue
        idx = tuple(int(x) for x in re.findall(r'\[(\d+)l?\]', m.group(2)))
        v = e1._val(st.get('value', {}))
        if isinstance(v, bool): v = int(v)
        if isinstance(v, int): tab[(m.group(1),) + idx] = v
    cex = {'CEX_present': [], 'CEX_len': [], 'CEX_kind': [], 'CEX_arg': [], 'CEX_line': [], 'CEX_okind': []}
    q = 0
    def item(q, key, dflt): return vals[q] if vals[q] >= 0 else tab.get(key, dflt)
    for f in range(NF):
        cex['CEX_present'].append(item(q, ('present', f), 0) & 1); cex['CEX_len'].append(item(q + 1, ('len', f), 0)); q += 2
        for p in range(NE):
            cex['CEX_kind'].append(item(q, ('kind', f, p), 0)); cex['CEX_arg'].append(item(q + 1, ('arg', f, p), 0)); cex['CEX_okind'].append(item(q + 2, ('okind', f, p), 1)); q += 3
            cex['CEX_line'].append(tab.get(('line', f, p), 1))
    cex['CEX_main'] = item(q, ('main',), 0)
    return cex


def cex_scripts(E, cex, NF, NE):
    nm = names(NF)
    if not cex: return None
    pres = cex['CEX_present']; ln = cex['CEX_len']; kind = cex['CEX_kind']; arg = cex['CEX_arg']; line = cex['CEX_line']; ok = cex['CEX_okind']; main = cex['CEX_main']
    def at(a, i): return a[i] if i < len(a) else 0
    scripts = {}; present = set()
    for f in range(NF):
        if at(pres, f): present.add(nm[f])
        sc = []; last = 1; prev = None
        for p in range(min(max(at(ln, f), 0), NE)):
            i = f * NE + p
            l = max(at(line, i), 1)
            if prev is None: cur = min(l, 3)                       # compress: keep the order and equalities of the lines, gaps of at most 3
            else: cur = last + min(max(l - prev, 0), 3)
            prev = l; last = cur
            k = at(kind, i)
            if k == 1: sc.append(['I', cur])
            elif k == 2: sc.append(['F', nm[at(arg, i)] if 0 <= at(arg, i) < len(nm) else 'y', cur])
            else: sc.append(['T', at(ok, i) if at(ok, i) in E.tokname else E.tok['ID'], cur])
        scripts[nm[f]] = sc
    mainname = nm[main] if 0 <= main < len(nm) else 'z'
    return scripts, sorted(present), mainname


def native_check(E, nat, scripts, present, main, tag, with_parse=False):
    texts, view = render(E, scripts)
    texts = {k: v for k, v in texts.items() if k in present}
    exp = ref_expand(E, view, set(present), main)
    got = nat.run('scan', [(texts, main)], tag)[0]
    diffs = compare(E, exp, got) or []
    if with_parse and not diffs:
        gp = nat.run('parse', [(texts, main)], tag)[0]
        if not gp.get('crash') and gp.get('missing') != exp['requests']: diffs.append('Theo::parse file requests differ: expected %s got %s' % (exp['requests'], gp.get('missing')))
    return texts, exp, got, diffs


def write_replay(prop, tag, data):
    os.makedirs(fw.REPLAYS, exist_ok=True)
    path = os.path.join(fw.REPLAYS, '%s-%s.json' % (prop, tag))
    json.dump(dict(data, module='c15', property=prop), open(path, 'w'), indent=1)
    return path


def replay(r):
    """python3 check.py --replay <file>: rebuild the native scan()/parse() of the working tree, run the stored include graph, compare with the reference"""
    E = Enums()
    wd = fw.workdir('C15replay')
    try:
        nat = Native(wd)
        texts, exp, got, diffs = native_check(E, nat, r['scripts'], r['present'], r['main'], 'replay', with_parse=True)
    finally:
        shutil.rmtree(wd, ignore_errors=True)
    print('files    : %s   main: %r' % (json.dumps(texts), r['main']))
    print('expected : %s' % json.dumps({k: exp[k] for k in ('tokens', 'errors', 'requests')}))
    print('got      : %s' % json.dumps(got)[:1500])
    for d in diffs: print('DIFF     : ' + d)
    print('REPRODUCED' if diffs else 'NOT REPRODUCED')
    return 1 if diffs else 0


# ------------------------------------------------------------------------------------------------ text checks
def text_checks():
    res = {}
    def strip(t): return re.sub(r'\s+', '', re.sub(r'//[^\n]*|/\*.*?\*/', '', t, flags=re.S))
    try:
        p = strip(open(os.path.join(fw.REPO, 'Compiler/src/parse.cpp')).read())
        q = r'(?:Theo::)?ParseError::(?:Type::)?'
        a = q + 'FILE_NOT_FOUND'; b = q + 'MAIN_FILE_NOT_FOUND'
        lam = (r'std::for_each\(sr\.errors\.begin\(\),sr\.errors\.end\(\),\[&file_requests\]\(const(?:Theo::)?ParseError&pe\)(?:->void)?\{if\((?:pe\.t==%s\|\|pe\.t==%s|pe\.t==%s\|\|pe\.t==%s)\)'
               r'file_requests\.push_back\(pe\.file_request\);\}\);') % (a, b, b, a)
        ok = re.search(lam, p) is not None and re.search(r'(?:Theo::)?ScanResultsr=(?:Theo::)?scan\(files,main\);', p) is not None and re.search(r'return\{file_requests,a\};', p) is not None \
            and len(re.findall(r'file_requests', p)) == 4
        res['parse_request_filter'] = {'ok': ok, 'what': 'Theo::parse collects pe.file_request of exactly the FILE_NOT_FOUND and MAIN_FILE_NOT_FOUND errors of Theo::scan(files, main), in order, and returns that list unchanged'}
    except Exception as ex:
        res['parse_request_filter'] = {'ok': False, 'what': 'parse.cpp not readable: %s' % ex}
    try:
        s = strip(open(os.path.join(fw.REPO, 'Compiler/src/scan.cpp')).read())
        m = re.search(r'while\(!lex_stack\.empty\(\)\)\{(.*)\}if\(res\.empty\(\)\)', s)
        body = m.group(1) if m else ''
        pushes = re.findall(r'lex_stack\.push_back\([^;]*\);(.{0,9})', body)
        ok = bool(m) and len(pushes) >= 1 and all(x.startswith('continue;') for x in pushes) and body.startswith('Scanner&s=lex_stack.back();')
        res['scanner_reference'] = {'ok': ok, 'what': 'inside the scan loop every lex_stack.push_back is immediately followed by continue, i.e. the reference `Scanner &s = lex_stack.back()` is dead when the vector may reallocate (the container model keeps references valid)'}
    except Exception as ex:
        res['scanner_reference'] = {'ok': False, 'what': 'scan.cpp not readable: %s' % ex}
    return res


# ------------------------------------------------------------------------------------------------ run
ASSUMPTIONS = fw.COMMON_ASSUMPTIONS + [
    'the flex scanner is environment (its tables are the subject of C14): yylex_init, yy_scan_string, yyset_lineno, yyset_extra, yylex, yy_delete_buffer, yylex_destroy are replaced by a script lexer '
    '(harness/scan_h.cpp) with this contract: a scanner reads the token script of the file whose content it was given; a file opened twice yields the same script; the token label is yyextra->filename (TOK macro); '
    'the line counter of a fresh yy_scan_string buffer is indeterminate until yyset_lineno; yylex returns 0 at the end of the file and on every later call; yylex_destroy releases the current buffer; FNAME texts are quoted (length >= 2); '
    'yylex never delivers T_EOF or UNKNOWN (lexer.l has a catch-all NV_ID rule). The contract is validated on every run against the real flex scanner (native comparison, see traces_validated_against_impl)',
    'reference expander = the property statement plus the behaviour of the code where the statement is silent: an include not followed by a quoted name is reported and the token read in its place is dropped; '
    'a quoted name that follows no include stays a token of kind FNAME (so "no FNAME survives" holds for inputs whose quoted names are all include operands - asserted in that form); errors are located in the including file between the line of the include and of the token after it',
    'file names have one character (or are empty), token texts at most 3; diagnostic texts are not modelled (flagged truncated, any comparison of them is a model-bound failure)',
    'container model refined for this harness only: push_back of vector<Token>/vector<ParseError> writes through constant element addresses; string ==, < are word-wise; "literal"+string is not modelled (same assertions, same semantics otherwise)',
    'the generated C is post-processed by props/c15.py:fix_layout (latch block of the scan loop moved behind its predecessors; CBMC 6.11 cannot unwind the printed order)',
    '`Scanner &s = lex_stack.back()` is held across `lex_stack.push_back(...)` only until the following `continue`; the container model keeps references valid (no reallocation); checked textually on every run (assumption_checks.scanner_reference)',
    'Theo::parse is not executed symbolically: its request filter is checked textually (assumption_checks.parse_request_filter) and natively on the generated include graphs',
    'termination for include graphs of ANY size is argued, not solved: names on lex_stack stay pairwise distinct (layer A contracts + ghost assertion in every bounded run) and are keys of `files`, hence depth <= |files|; every iteration consumes a token of a finite file or closes a file. '
    'Within the bounds termination is the unwinding assertion of the scan loop at the bound computed from the scripts',
]
EXPLANATION = ('E1 on the real scan.cpp with a script lexer in place of flex and a reference include expander as oracle. (A) layer A contracts of exists_scanner/create_scanner/cleanup_scanner from an arbitrary scanner stack. '
               '(S) bounded runs in which the include GRAPH is decided by the solver: the per-file skeleton (where tokens / include directives stand) is fixed per query, every include target (supplied file, absent name, empty name), every presence bit, '
               'the main name and all line numbers are symbolic; two instances leave everything symbolic. (L) layer C: concrete include layouts (hand-written family covering every clause of the property + seeded random ones) with symbolic line numbers, up to 4 files / 6 file visits. '
               'Assertions per run: identical token sequence incl. file/line labels, exactly one final T_EOF with the location of the last token (or "-"/-1), no INCLUDE / include-operand FNAME survives, identical error sequence (kind, requested name, location), '
               'RECURSIVE_INCLUDE iff the target is being included, FILE_NOT_FOUND iff absent, EXPECTED_FILENAME iff no quoted name follows, MAIN_FILE_NOT_FOUND iff main absent, file requests == absent targets + absent main, no file opened while open, nesting <= number of files, '
               'every scanner/buffer/ScannerInfo released (counters + CBMC memory-leak check), no violated container precondition or pointer check in scan.cpp. (N) the same reference in python against the native scan()/parse() with the real flex scanner on generated include graphs.')


def run(prop, tier, seed, wd, t0):
    out = fw.Outcome()
    try:
        E = Enums()
    except Exception as ex:
        out.inconclusive.append('token/error enums of the repository could not be read: %s' % ex)
        return fw.finish(prop, tier, seed, 'model_checking', out, t0, assumptions=ASSUMPTIONS, explanation=EXPLANATION)
    nat = Native(wd)
    bg = threading.Thread(target=lambda: (nat.build('scan'), nat.build('parse'))); bg.start()
    jobs, cfgs, lays, skipped = solver_jobs(E, tier, seed, wd)
    with concurrent.futures.ThreadPoolExecutor(max_workers=4) as ex: list(ex.map(lambda c: build_cfg(c, wd), cfgs))
    # long queries first
    jobs.sort(key=lambda j: 0 if j.meta['kind'] != 'L' else 1)
    run_queries(jobs, workers=int(os.environ.get('C15_WORKERS', '10')))
    fw.classify(prop, jobs, wd, out)
    bg.join()

    # ---- counterexamples: replay through the public API of the native build; only a reproduced difference is a violation
    byname = {j.name: j for j in jobs}
    keep = []; cache = {}; budget = 8; unreplayed = 0
    # one replay per distinct counterexample input; solver-decided graph queries first, then layouts
    order = sorted(out.violations, key=lambda v: (0 if byname.get(v['job']) is not None and byname[v['job']].meta['kind'] == 'S' else 1, v['job']))
    for v in order:
        j = byname.get(v['job'])
        cs = cex_scripts(E, cex_input(j, v['assertion']), j.meta['NF'], j.meta['NE']) if j is not None and j.meta['kind'] != 'helpers' else None
        if cs is None:
            out.disagreements += 1
            out.inconclusive.append('%s: counterexample for "%s" has no public-API replay (local state of a layer-A obligation); see %s' % (v['job'], v['assertion'], v['replay']))
            continue
        scripts, present, main = cs
        key = json.dumps([scripts, present, main], sort_keys=True)
        tag = hashlib.md5(key.encode()).hexdigest()[:10]
        if key not in cache:
            if budget <= 0: unreplayed += 1; continue
            budget -= 1
            texts, exp, got, diffs = native_check(E, nat, scripts, present, main, 'cex' + tag, with_parse=True)
            path = write_replay(prop, tag, {'job': v['job'], 'assertion': v['assertion'], 'scripts': scripts, 'present': present, 'main': main, 'files': texts, 'expected': exp, 'got': got, 'differences': diffs, 'origin': 'solver counterexample'})
            cache[key] = (diffs, path, [])
        diffs, path, asserts = cache[key]
        asserts.append(v['assertion'])
        if diffs:
            if len(asserts) == 1: keep.append({'property': prop, 'job': v['job'], 'assertion': v['assertion'], 'replay': path, 'confirmed': True, 'native': diffs[0][:300], 'all': asserts})
        else:
            out.disagreements += 1
            out.inconclusive.append('%s: counterexample for "%s" did not reproduce through the native scan() (encoding disagreement or a difference that the public API does not show; replay %s)' % (v['job'], v['assertion'], path))
    def rank(a): return (0 if a.startswith('C15') else 1 if a.startswith('C14') else 2 if a.startswith('C02: every') else 3 if a.startswith('C02') else 4, a)
    for k in keep:
        lead = sorted(k['all'], key=rank)[0]
        k['assertion'] = '%s%s | native: %s' % (lead, (' (+%d more failed assertions on this input)' % (len(k['all']) - 1)) if len(k['all']) > 1 else '', k['native'])
    if unreplayed:
        msg = '%d further failed assertions (other counterexample inputs) were not replayed natively: replay budget of 8 inputs per run' % unreplayed
        if keep: out.notes.append(msg)
        else: out.inconclusive.append(msg)
    out.violations = keep

    # ---- native comparison on generated include graphs (every run)
    rnd = random.Random(seed * 104729 + 3)
    NFn = 4
    graphs = [l for l in lays]
    graphs += random_layouts(E, rnd, 200 if tier == 'quick' else 3000, NFn, 6, 40, 400, 100)
    cases = []; metas = []
    for lay in graphs:
        sc, present, main = layout_scripts(lay, NFn, rnd=rnd)
        texts, view = render(E, sc)
        texts = {k: v for k, v in texts.items() if k in present}
        cases.append((texts, main)); metas.append((lay, sc, sorted(present), main, ref_expand(E, view, present, main)))
    got_s = nat.run('scan', cases, 'val')
    only_ids = [i for i, m in enumerate(metas) if all(e[0] != 'T' or e[1] == E.tok['ID'] for v in m[1].values() for e in v)][:120 if tier == 'quick' else 600]   # Theo::parse per graph costs ~0.2 s (it builds the LR tables of the standard macros)
    got_p = nat.run('parse', [cases[i] for i in only_ids], 'valp')
    parse_of = dict(zip(only_ids, got_p))
    validated = 0; parse_validated = 0; native_samples = []; not_run = 0
    for i, (lay, sc, present, main, exp) in enumerate(metas):
        diffs = compare(E, exp, got_s[i])
        if diffs is None: not_run += 1; continue
        gp = parse_of.get(i)
        if gp is not None and not diffs and not gp.get('skipped'):
            if gp.get('crash'): out.notes.append('Theo::parse failed on graph %s (outside this property unless scan() differs): %s' % (lay['name'], gp.get('why', '')[:200]))
            elif gp.get('missing') != exp['requests']: diffs.append('Theo::parse file requests differ: expected %s got %s' % (exp['requests'], gp.get('missing')))
            else: parse_validated += 1
        if diffs:
            tag = hashlib.md5(json.dumps([cases[i][0], main], sort_keys=True).encode()).hexdigest()[:10]
            path = write_replay(prop, tag, {'job': 'native.' + lay['name'], 'assertion': 'C15: native scan()/parse() equals the reference include expansion', 'scripts': sc, 'present': present, 'main': main, 'files': cases[i][0],
                                            'expected': exp, 'got': got_s[i], 'differences': diffs, 'origin': 'generated include graph'})
            if len([v for v in out.violations if v['job'].startswith('native.')]) < 5:
                out.violations.append({'property': prop, 'job': 'native.' + lay['name'], 'assertion': 'C15: native scan()/parse() equals the reference include expansion | ' + diffs[0][:200], 'replay': path, 'confirmed': True})
        else:
            validated += 1
            if len(native_samples) < 3 and exp['errors']: native_samples.append({'files': cases[i][0], 'main': main, 'tokens': exp['tokens'], 'errors': exp['errors'], 'requests': exp['requests']})
    for m in ('scan', 'parse'):
        if m in nat.err: out.inconclusive.append('native build (%s) of the repository failed: %s' % (m, nat.err[m][-300:]))

    # ---- text checks
    tc = text_checks()
    for k, v in tc.items():
        if not v['ok']: out.inconclusive.append('assumption check %s does not hold on this tree (%s): the part of the claim that rests on it is not established by this run' % (k, v['what']))
    for nme in skipped: out.notes.append('layout %s exceeds the bounds of the layer-C translation and was skipped' % nme)

    kinds = {}
    for j in jobs: kinds[j.meta['kind']] = kinds.get(j.meta['kind'], 0) + 1
    # samples: the solver-decided graph queries first
    smp = [s for s in out.samples if not s['obligation'].startswith('scan.layout.')][:6] + [s for s in out.samples if s['obligation'].startswith('scan.layout.')][:3]
    out.samples = smp + [{'native_graph': s} for s in native_samples]
    if not_run: out.notes.append('%d generated include graphs were not run natively (native comparison stops after 5 failing graphs)' % not_run)
    cov = {'traces_validated_against_impl': validated, 'native_graphs': len(cases) - not_run, 'native_parse_request_lists_validated': parse_validated,
           'queries_by_kind': {'layer_A_contracts': kinds.get('helpers', 0), 'graph_symbolic_runs': kinds.get('S', 0), 'concrete_layouts_symbolic_lines': kinds.get('L', 0)},
           'assumption_checks': tc, 'notes': out.notes[:20],
           'rule': 'one evaluation = one CBMC query over the translation regenerated from /repo (layer-A contracts; bounded runs with a symbolic include graph; concrete include layouts with symbolic lines); non-trivial = its end-of-harness witness is reachable. '
                   'traces_validated_against_impl = generated include graphs on which the native scan() (real flex scanner) returned exactly the tokens, errors and requests of the python reference expander'}
    return fw.finish(prop, tier, seed, 'model_checking', out, t0, coverage_extra=cov, assumptions=ASSUMPTIONS, explanation=EXPLANATION)
