"""C07 - stepping and variable inspection are faithful to the source."""
import framework as fw, ctv

def run(prop, tier, seed, wd, t0):
    out = fw.Outcome()
    cov = ctv.run_family(prop, tier, seed, wd, out, ('h_ctv',))
    try:
        import sim
        cov.update(sim.obligations(prop, tier, seed, wd, out) or {})
    except ImportError:
        pass
    return fw.finish(prop, tier, seed, 'translation_validation', out, t0, coverage_extra=dict(cov, disagreements_checked=out.disagreements), assumptions=fw.COMMON_ASSUMPTIONS + [
        'shape-indexed: the structure of each program (statement kinds, which name stands where) is enumerated, every literal is a symbolic 31-bit value',
        'the compiler (scanner, macros, parser, generator) runs natively on the printed source of the shape; its output is judged, its code is not executed symbolically here',
        'reference: lib/theolang.py (desugared goto language with line events) - written from the property statement, never looks at /repo',
        'getActivationVariables() is read through the stack map and activation geometry it uses (checked separately in the VM layer-A harnesses)'],
        explanation='Translation validation per program shape in canonical one-statement-per-line layout: the real VM runs the natively compiled program in stepping mode, symbolically in all '
        'literal values; every stop must be on the line of the corresponding reference line event (simple statement, LOOP/WHILE header once per entry, END once per exit, program END before return, '
        'label on its statement line, nothing from the hidden macro file) and every user variable of every activation must have its reference value at every stop.')
