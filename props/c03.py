"""C03 - emitted bytecode is well-formed, so the VM never leaves its own memory."""
import framework as fw, vm

MEM = r'^(_ZN4Theo|_ZNSt|_ZNKSt|_ZSt)\S*\.(pointer_dereference|pointer_arithmetic|array_bounds|pointer|assertion)'

def run(prop, tier, seed, wd, t0):
    jobs = [vm.step_safe(tier, [prop], MEM)]
    def extra(out):
        cov = {}
        try:
            import ctv
            cov.update(ctv.wf_obligations(prop, tier, seed, wd, out) or {})
        except ImportError:
            pass
        try:
            import genh      # (ii) for every source, not only the shape family: the generator's functions emit well-formed sequences (harness/gen_rules.cpp)
            cov.update(genh.wf_emit_obligations(prop, tier, seed, wd, out) or {})
        except ImportError:
            pass
        return cov
    return fw.run_e1(prop, tier, seed, wd, t0, jobs, fw.COMMON_ASSUMPTIONS + [
        'part (i): WF(program, ghost annotation) is assumed; part (ii) checks that compiler output satisfies the same WF predicate'],
        '(i) Layer A: WF(program) & Inv(state) => one real VM::executeSingle() violates no container precondition and no pointer/bounds check, '
        'keeps ip inside the code and re-establishes Inv (the activation stack types against the routine annotation). WF is the local type system of the '
        'statement of C03 (register operands < frame size of the PREPARE that created the frame, jumps stay in their routine, PREPARE/ARG*/EXEC sequences '
        'agree with the callee). (ii) compiled programs of the shape family are checked against the same WF predicate (existential query, see the wf samples), and the real generator functions '
        '(dispatchValue/dispatchCallArgs, dispatchProgram/popSymbols, dispatchGoto/If/Mark/backpatch, the register allocator, gen()) are executed symbolically from arbitrary generator states: what they '
        'emit is a well-formed call sequence / frame / stack map / jump for names, operands and table contents of any value (counts fixed per obligation, listed in the evidence).', extra=extra)
