"""C03 - emitted bytecode is well-formed, so the VM never leaves its own memory."""
import framework as fw, vm

MEM = r'^(_ZN4Theo|_ZNSt|_ZNKSt|_ZSt)\S*\.(pointer_dereference|pointer_arithmetic|array_bounds|pointer|assertion)'

def run(prop, tier, seed, wd, t0):
    jobs = [vm.step_safe(tier, [prop], MEM)]
    try:
        import ctv
        extra = lambda out: ctv.wf_obligations(prop, tier, seed, wd, out)
    except ImportError:
        extra = None
    return fw.run_e1(prop, tier, seed, wd, t0, jobs, fw.COMMON_ASSUMPTIONS + [
        'part (i): WF(program, ghost annotation) is assumed; part (ii) checks that compiler output satisfies the same WF predicate'],
        '(i) Layer A: WF(program) & Inv(state) => one real VM::executeSingle() violates no container precondition and no pointer/bounds check, '
        'keeps ip inside the code and re-establishes Inv (the activation stack types against the routine annotation). WF is the local type system of the '
        'statement of C03 (register operands < frame size of the PREPARE that created the frame, jumps stay in their routine, PREPARE/ARG*/EXEC sequences '
        'agree with the callee). (ii) see the wf samples: compiled programs are checked against the same WF predicate.', extra=extra)
