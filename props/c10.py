"""C10 - macro temporaries are hygienic.

Solver obligations (E1, harness/macro_apply.cpp): the real get_replacement builds the names (std::to_string / string concatenation of the
container model): two instantiations with symbolic (n, file, defining line, pass) - equal inputs equal names, different pass different
names, same step different n different names, every name starts with '#' and contains ':' and '('; the instantiation obligation pins the
exact naming scheme; the selection harness of C09/C11 shows that every rewriting step gets its own pass number (one rewrite per pass).
Side check (automaton reachability, exact): no string the scanner labels ID contains ':', '#' or '('."""
import framework as fw, macroh

ASSUMPTIONS = fw.COMMON_ASSUMPTIONS + [
    'MacroDetector::MacroDetector and MacroDetector::detect are replaced by contract stubs (C12/C13 own the real ones); get_replacement, the pass loop and the pass numbers are the real code',
    'a temporary is written #<decimal without leading zero> (scanner rule \\#{int}, C14); n <= 99, file names of 1-2 arbitrary non-NUL bytes, defining line <= 999, pass <= 1023 = THEO_MACRO_PASSES-1',
    'that the identifier language of the scanner excludes : # ( is computed on the DFA compiled from lexer.l (exact for any length; not a solver query); C14 proves that DFA bisimilar to the flex tables in lex.yy.c',
    'noted, not claimed either way: body tokens that come from two files give the same #n different names per file (the name uses the file of the #n token and the line of the first body token)',
]
EXPLANATION = ('The name <#n>:<file>:<line of first body token>_(M<pass>) is produced by the real get_replacement under the symbolic execution; distinctness across expansion steps follows from the trailing _(M<pass>) '
               '(solver: any n, file, line) together with "one rewriting step per pass number" (selection harness: the k-th get_replacement call of a run carries pass k and there is exactly one per step); '
               'distinctness from user variables follows from the characters # : ( which the ID rule of the scanner cannot produce.')


def run(prop, tier, seed, wd, t0):
    tags = [prop]
    jobs = [macroh.temp_job(tier, tags), macroh.inst_job(tier, tags)]
    if tier == 'quick':
        jobs.append(macroh.select_job('sel.p3_7', (3, 7), tags=tags))
        jobs.append(macroh.hygiene_job(tier, tags))
    else:
        jobs.append(macroh.hygiene_job(tier, tags))
        jobs.append(macroh.select_job('sel.p3_7', (3, 7), nin=3, nbody=2, tags=tags, timeout=1500))
        jobs.append(macroh.select_job('sel.p5_5', (5, 5), nin=3, nbody=2, tags=tags, timeout=1500))
        jobs.append(macroh.select_job('loop.two_passes', (3, 7), passes=2, tags=tags, timeout=1500))
        jobs.append(macroh.select_job('loop.three_passes_1def', (5,), passes=3, nin=2, nbody=1, tags=tags, timeout=1500))

    def extra(out):
        try:
            r = macroh.id_language_check()
        except Exception as ex:
            out.inconclusive.append('identifier language check failed: %s' % str(ex)[:300]); return {}
        if not r['ok']:
            out.inconclusive.append('the scanner accepts an identifier containing one of : # ( - generated names are no longer outside the identifier language: %s' % r)
        return {'identifier_language_check': r}
    return fw.run_e1(prop, tier, seed, wd, t0, jobs, ASSUMPTIONS, EXPLANATION, extra=extra)
