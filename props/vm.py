"""VM-side obligations (layer A: one real call from an arbitrary invariant state).  Serves C01(a), C03(i), C05, C06, C17, C19, C20."""
import os
from framework import Job, VERIF

H = os.path.join(VERIF, 'harness', 'vm_step.cpp')
TUS = ['VM/src/vm.cpp', 'VM/src/program.cpp', 'VM/src/instr.cpp']
# representation of the VM classes at the pinned commit: the layer-A harnesses build arbitrary states of exactly these fields
LAYOUT = {
    'class.Theo::VM': ['i8', 'i32', '%"struct.Theo::Program"', '%"struct.std::vector"', '%"struct.std::vector"', '%"struct.std::set"'],
    'class.Theo::VM::Activation': ['%"class.Theo::VM"*', 'i32', 'i32', 'i32', 'i32', 'i32'],
    'struct.Theo::Program': ['%"struct.std::vector"', '%"struct.std::vector"', '%"struct.std::map"', '%"struct.std::map"'],
    'struct.Theo::Instruction': ['i32', '%union.anon'],
    'struct.Theo::BreakPoint': ['%"struct.std::string"', 'i32'],
}
REPO_FUNCS = r'^(_ZN4Theo|_ZNSt|_ZSt)'   # assertions located in code of /repo or in the container model it calls


def cfg(tier):
    if tier == 'thorough':
        d = dict(VM_L=12, VM_DW=16, VM_R=4, VM_MAXFS=4, VM_MAXARG=3, VM_NLOC=3, VM_NSITE=4, VM_FUEL=6, MINISTL_VEC_CAP=5, MINISTL_STR_CAP=12, MINISTL_MAP_CAP=3)
    else:
        d = dict(VM_L=8, VM_DW=10, VM_R=3, VM_MAXFS=3, VM_MAXARG=2, VM_NLOC=2, VM_NSITE=3, VM_FUEL=2, MINISTL_VEC_CAP=4, MINISTL_STR_CAP=12, MINISTL_MAP_CAP=3)
    return d


def bounds_text(d):
    return ('code <= %(VM_L)d instructions (all 12 opcodes, all 32-bit operands), <= %(VM_R)d routines, frame size <= %(VM_MAXFS)d, '
            '<= %(VM_MAXARG)d arguments, data <= %(VM_DW)d words, live activations <= ' % d) + str(d['MINISTL_VEC_CAP'] - 1) + \
           (', <= %(VM_NLOC)d breakpoint locations with <= %(VM_NSITE)d sites; one call from an arbitrary state satisfying WF+Inv' % d)


def job(tier, entry, tags, what, functions, ub_pat=None, timeout=None):
    d = cfg(tier)
    # constant-trip loops (harness, container model) are unrolled by LLVM; CBMC unwinds only the loops of the code under test
    unwind = max(d['VM_MAXFS'], d['VM_NSITE'], d['VM_NLOC'], d['VM_FUEL']) + 2
    j = Job('vm.' + entry, H, entry, tus=TUS, defines=['%s=%s' % kv for kv in d.items()], caps='caps_vm.hpp', unwind=unwind,
               tags=tags, ub_pat=ub_pat, timeout=timeout or (1800 if tier == 'thorough' else 600), what=what, bounds=bounds_text(d) + '; unwind %d' % unwind,
               functions=functions)
    j.layout = LAYOUT
    return j


def step_safe(tier, tags, ub_pat):
    return job(tier, 'h_step_safe', tags, 'WF(program) & Inv(state) => VM::executeSingle() stays in bounds, re-establishes Inv, keeps data == live frames, keeps values natural',
               ['Theo::VM::executeSingle'], ub_pat)


def step_ref(tier, tags):
    return job(tier, 'h_step_ref', tags, 'post-state of VM::executeSingle() == reference semantics of the instruction; stop reported by the rule; code, tables and settings untouched; getCurrentBreak() after a stop',
               ['Theo::VM::executeSingle', 'Theo::VM::getCurrentBreak'])


def fresh(tier, tags):
    return job(tier, 'h_fresh', tags, 'VM::VM(program) starts empty and reports no current location', ['Theo::VM::VM', 'Theo::VM::getCurrentBreak'])


def debug_op(tier, tags):
    return job(tier, 'h_debug_op', tags, 'one of setBreakPoint/clearBreakpoints/setSteppingMode/isSteppingModeEnabled/getCurrentBreak/isDone with symbolic arguments: machine state untouched, only site opcodes toggle, enabled set follows the specification',
               ['Theo::VM::setBreakPoint', 'Theo::VM::clearBreakpoints', 'Theo::VM::setSteppingMode', 'Theo::VM::isSteppingModeEnabled', 'Theo::VM::getCurrentBreak', 'Theo::VM::isDone', 'Theo::VM::getEnabledBreakPoints', 'Theo::operator<(BreakPoint)'])


def twin_step(tier, tags):
    return job(tier, 'h_twin_step', tags, '2-safety: two machines equal on (ip,data,stack) and on code modulo PB/BREAK at sites, any stepping flags: equal again after executeSingle()', ['Theo::VM::executeSingle'])


def reset(tier, tags):
    return job(tier, 'h_reset', tags, 'VM::reset() from an arbitrary invariant state == VM(original program), field by field', ['Theo::VM::reset', 'Theo::VM::clearBreakpoints', 'Theo::VM::VM', 'Theo::VM::getCurrentBreak'])


def execute(tier, tags):
    return job(tier, 'h_execute', tags, 'VM::execute() stops exactly where the first stop rule fires (shadow run of executeSingle with the rule as oracle); at HALT it changes nothing',
               ['Theo::VM::execute', 'Theo::VM::executeSingle'])


def two_vms(tier, tags):
    return job(tier, 'h_two_vms', tags, 'two machines: executeSingle/reset/setBreakPoint/clearBreakpoints/setSteppingMode on one leaves every field of the other unchanged',
               ['Theo::VM::executeSingle', 'Theo::VM::reset', 'Theo::VM::setBreakPoint', 'Theo::VM::clearBreakpoints', 'Theo::VM::setSteppingMode'])


def globals_vm(tier, tags):
    # always with the quick sizes: the statement (the name table is only read) does not depend on the program size, and string building over 12
    # instructions gave no verdict in 1800 s in the thorough configuration
    j = job('quick', 'h_globals_vm', tags, 'Program::disassemble / getAvailableBreakpoints read the global opcode name table without modifying it', ['Theo::Program::disassemble', 'Theo::Program::getAvailableBreakpoints'])
    j.native = False
    return j
