"""C19 - VM memory is proportional to the live activations."""
import framework as fw, vm

def run(prop, tier, seed, wd, t0):
    jobs = [vm.step_safe(tier, [prop], None), vm.reset(tier, [prop])]
    return fw.run_e1(prop, tier, seed, wd, t0, jobs, fw.COMMON_ASSUMPTIONS + [
        'the program satisfies the static well-formedness WF of C03 (established for compiler output by the C03 checks)',
        'inductive step; base case: the constructed machine has no data and no activations (asserted under C17, h_fresh)'],
        'Layer A: from an arbitrary machine state satisfying WF(program) and Inv(state) one real VM::executeSingle() is executed symbolically; '
        'asserted afterwards: data.size() == sum of seg_size of the live activations and each frame starts where the previous one ends. Inv is '
        're-established by every step (asserted as well), hence the property holds at every instruction boundary of executions of any length, '
        'within the array bounds listed per sample.')
