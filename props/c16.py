"""C16 - programs cannot recurse: LOOP programs always halt, the call stack is bounded."""
import framework as fw, ctv

def run(prop, tier, seed, wd, t0):
    out = fw.Outcome()
    cov = ctv.run_family(prop, tier, seed, wd, out, ('h_ctv', 'h_wf'))
    try:
        import sim
        cov.update(sim.obligations(prop, tier, seed, wd, out) or {})
    except ImportError:
        pass
    try:
        import genh
        cov.update(genh.obligations(prop, tier, seed, wd, out) or {})
    except ImportError:
        pass
    return fw.finish(prop, tier, seed, 'translation_validation', out, t0, coverage_extra=dict(cov, disagreements_checked=out.disagreements), assumptions=fw.COMMON_ASSUMPTIONS + [
        'shape-indexed translation validation (see C07); call-graph acyclicity is established per compiled program by a solver-found routine annotation in which every EXEC targets a routine lying entirely before the call',
        'stack depth <= number of definitions + 1 then follows from the VM invariant of C03 (one activation per routine on any call chain)'],
        explanation='Per shape: (1) the solver finds an annotation of the compiled program (regions, frame sizes, entries) that satisfies WF and the call-order condition - its existence means the '
        'call graph is acyclic; (2) the real VM, run symbolically on the compiled program, never has more activations than definitions + 1 and halts after exactly the number of instructions fixed by '
        'the reference execution, whose LOOP iteration counts are taken from a hidden counter initialised at loop entry (assigning the bound variable in the body does not change them).')
