"""C20 - machine arithmetic is defined, values stay natural numbers; literals that do not fit are rejected."""
import framework as fw, vm

def run(prop, tier, seed, wd, t0):
    jobs = [vm.step_safe(tier, [prop], r'^_ZN4Theo\S*\.overflow|^_ZN4Theo\S*undefined-shift|^_ZN4Theo\S*\.division')]
    try:
        import literals
        jobs += literals.jobs(tier, prop)
    except ImportError:
        pass
    return fw.run_e1(prop, tier, seed, wd, t0, jobs, fw.COMMON_ASSUMPTIONS + [
        'VM part: program satisfies WF (CONST operands >= 0, established by the literal check of the generator); pre-state values are natural numbers',
        'signed arithmetic of the source is visible as nsw operations in the -O0 IR and checked by --signed-overflow-check on exactly those operations'],
        'Layer A on VM::executeSingle(): for all 32-bit operand values and all 12 opcodes no signed overflow / undefined shift occurs in the step and every '
        'stored word is in [0, 2^31-1] afterwards (Inv_nat is inductive). Literal conversion: see the literal obligations in samples.')
