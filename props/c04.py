"""C04 - the compiler accepts exactly the programs of the language (parser: layer B against the LL(1) reference tables; static rules: generator obligations)."""
import os
import framework as fw, parseb

H = os.path.join(fw.VERIF, 'harness', 'parse_b.cpp')
NTS = ['S', 'PORTS', 'OPORTS', 'ARGS', 'MARGS', 'P', 'MOREP', 'VALUE', 'VARGS', 'MVARGS']
STUBS = {'_Z%d%sR10ParseState' % (len(n), n): 'stub_' + n for n in NTS}
STUBS['_Z25expected_end_or_semicolonR10ParseState'] = 'stub_expected_end'
STUBS['_ZN4Theo4scanESt3mapISt6stringS1_ES1_'] = 'stub_scan'
STUBS['_ZN4Theo14extract_macrosESt6vectorINS_5TokenEE'] = 'stub_extract'
STUBS['_ZN4Theo12apply_macrosESt6vectorINS_5TokenEERS0_INS_15MacroDefinitionEEj'] = 'stub_apply'


def parser_jobs(prop, tier, wd, tags):
    hdr = os.path.join(wd, 'pb_data.hpp')
    info = parseb.header(hdr, os.path.join(fw.VERIF, 'spec', 'grammar.ll1'))
    w = 10 if tier == 'quick' else 12
    defines = ['PB_DATA="%s"' % hdr, 'PB_W=%d' % w, 'MINISTL_STR_CAP=12', 'MINISTL_VEC_CAP=8', 'MINISTL_MAP_CAP=3', 'MINISTL_OPAQUE_CONCAT=1']
    jobs = []
    plan = []
    for n in NTS:
        for k in info['first'][n]: plan.append(('harness_' + n, k))
        plan.append(('harness_' + n, None))
    plan += [('harness_match', '*'), ('harness_expected_end', '*'), ('harness_parse_top', '*')]
    for e, first in plan:
        fk = [] if first == '*' else ['PB_FIRST_KIND=%d' % (parseb.TOKENS.index(first) if first else -1)]
        dd = defines
        if e == 'harness_parse_top':      # the key __standards__ has 13 characters; the top-level loop reads one token per round, a shorter window keeps the quick query short
            wt = 4 if tier == 'quick' else w
            dd = [x.replace('MINISTL_STR_CAP=12', 'MINISTL_STR_CAP=16').replace('PB_W=%d' % w, 'PB_W=%d' % wt) for x in defines]
        nm = e.replace('harness_', '')
        jobs.append(fw.Job('parse.%s.%s' % (nm, first if first not in (None, '*') else ('other' if first is None else 'any')), H, e, tus=['Compiler/src/ast.cpp'], defines=dd + fk, caps='caps_parse.hpp', unwind=w + 2,
                           unwindset={'_ZL10select_rowii.0': info['rows'] + 1}, tags=tags, stubs=STUBS, native=False, extra=['--object-bits', '12'] + (['--memory-leak-check'] if 'C02' in tags and e not in ('harness_match', 'harness_expected_end') else []),   # (match / expected_end allocate nothing themselves, only their stubs do)
                          
                           ub_pat=r'^(_Z\d|_ZN10ParseState|_ZN4Theo|_ZNSt|_ZNKSt|_ZSt)\S*\.(assertion|pointer_dereference|array_bounds)|memory-leak' if 'C02' in tags else None,
                           timeout=600 if tier == 'quick' else 1500,
                           what='real %s of parse.cpp entered on %s, every callee replaced by its contract stub, symbolic window of <= %d tokens: SOUND / COMPLETE against the LL(1) row selected by the lookahead, SAFE (cursor, progress, nullness)' % (nm, ('token ' + first) if first not in (None, '*') else ('any token outside its FIRST set' if first is None else 'any token'), w),
                           bounds=('expanded sequence of <= %d tokens (top-level recovery loop: bounded, unwinding assertion); unwind %d' % (wt, w + 2)) if e == 'harness_parse_top' else 'token window <= %d tokens (the function under test reads nothing outside it); token streams of any length; unwind %d' % (w, w + 2),
                           functions=['parse.cpp:' + nm.replace('expected_end', 'expected_end_or_semicolon').replace('match', 'ParseState::match')],
                           build_key=('parse', tuple(fk), e == 'harness_parse_top')))
    return jobs, info


def run(prop, tier, seed, wd, t0):
    jobs, info = parser_jobs(prop, tier, wd, [prop])
    try:
        import literals
        lj = [j for j in literals.jobs(tier, prop) if 'h_lit_dec' in j.name or 'h_lit_value' in j.name]
        for j in lj: j.tags = [prop, 'C20']
        jobs += lj     # static rule: every integer literal is below 2^31-1 (also in the id+int / id-int sugar)
    except ImportError:
        pass
    cmp_ = parseb.compare_with_comment(os.path.join(fw.VERIF, 'spec', 'grammar.ll1'), os.path.join(fw.REPO, 'Compiler/src/parse.cpp'))
    def extra(out):
        cov = {'grammar_productions': info['productions'], 'grammar_comment_vs_spec': cmp_}
        try:
            import genh
            cov.update(genh.static_rule_obligations(prop, tier, seed, wd, out) or {})
        except ImportError:
            pass
        return cov
    return fw.run_e1(prop, tier, seed, wd, t0, jobs, fw.COMMON_ASSUMPTIONS + [
        'reference: LL(1) tables computed from the fixed grammar /verif/spec/grammar.ll1 (PID inlined into P; the dangling-separator ambiguity is resolved greedily as the language is defined); the header comment of parse.cpp is compared with it and differences are listed in the evidence (at the pinned commit the comment omits "!= 0" in the WHILE rule)',
        'composition (standard theorem, not a solver result): a recursive-descent parser each of whose functions satisfies SOUND, COMPLETE and the callee contracts accepts exactly L(G); termination from the progress contract',
        'the token stream ends in exactly one T_EOF (established by scan/extract_macros/apply_macros, see C15/C09)',
        'static rules (unknown program, argument count, unknown label, literal range) are obligations on the generator, listed separately'],
        'Layer B: each real grammar function of parse.cpp is executed symbolically on a symbolic token window with a symbolic cursor, with every callee (also the recursive one) replaced by a nondeterministic '
        'contract stub. Asserted: without a new error the consumed tokens and callee spans spell the production selected by the lookahead (sound); a correct instance followed by a FOLLOW token is accepted (complete); '
        'cursor monotone, never past T_EOF, progress; result nullness as callers rely on. Because nothing outside the window is read, the obligations hold for token streams of any length.', extra=extra)
