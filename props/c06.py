"""C06 - the debugger stops exactly where it was asked to."""
import framework as fw, vm

def run(prop, tier, seed, wd, t0):
    jobs = [vm.step_ref(tier, [prop]), vm.debug_op(tier, [prop]), vm.fresh(tier, [prop]), vm.execute(tier, [prop])]
    return fw.run_e1(prop, tier, seed, wd, t0, jobs, fw.COMMON_ASSUMPTIONS + [
        'ghost model: set E of enabled locations; Inv_en: enabled_breakpoints == E and a site holds BREAK iff its location is in E'],
        'Layer A per method: executeSingle() reports a stop exactly for BREAK, for POTENTIAL_BREAK while stepping, and for HALT, and getCurrentBreak() then returns the '
        "site's file and line; setBreakPoint succeeds exactly for listed locations and updates E as specified, clearBreakpoints empties it, all preserve Inv_en; "
        'execute() stops at the first position where the rule fires (shadow run of executeSingle with the rule as oracle, bounded fuel); a constructed machine reports none.')
