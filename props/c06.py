"""C06 - the debugger stops exactly where it was asked to."""
import framework as fw, vm

def run(prop, tier, seed, wd, t0):
    jobs = [vm.step_ref(tier, [prop]), vm.debug_op(tier, [prop]), vm.fresh(tier, [prop]), vm.reset(tier, [prop])]
    def extra(out):
        import ctv
        return ctv.run_family(prop, tier, seed, wd, out, ('h_ctv_exec',), tags=[prop])
    return fw.run_e1(prop, tier, seed, wd, t0, jobs, fw.COMMON_ASSUMPTIONS + [
        'ghost model: set E of enabled locations; Inv_en: enabled_breakpoints == E and a site holds BREAK iff its location is in E'],
        'Layer A per method: executeSingle() reports a stop exactly for BREAK, for POTENTIAL_BREAK while stepping, and for HALT, and getCurrentBreak() then returns the '
        "site's file and line; setBreakPoint succeeds exactly for listed locations and updates E as specified, clearBreakpoints empties it, all preserve Inv_en; "
        'a constructed machine reports none. execute(): on natively compiled program shapes (symbolic literals) the stepping run driven only by execute()/isDone() returns once per '
        'breakpoint site on the path, each time reporting the site\'s file and line, and ends at the end of the program (the layer-A shadow-run formulation of execute() timed out at 600 s and was replaced by this one).', extra=extra)
