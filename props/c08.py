"""C08 - breakpoint tables are consistent and name real source lines.

Layer A (solver, covers generator runs of any length): every operation of the generator that touches the code vector, one of the
two tables or the current file/line is run ONCE, for real, from an ARBITRARY symbolic GenState satisfying Inv_tab, and Inv_tab plus
the operation's exact effect is asserted afterwards (harness/gen_tables.cpp).  The frame of the induction - nothing else in
gen.cpp writes these fields - is checked syntactically on the source text on every run.
Native cross-check (part of every run): tricky layouts are compiled through the public API of a native build of the working tree
and the dumped tables are checked for Inv_tab and for "every location is a line of a supplied file carrying program text".
"""
import hashlib, json, os, re, shutil, sys, threading
import framework as fw, e1

H = os.path.join(fw.VERIF, 'harness', 'gen_tables.cpp')
TUS = ['VM/src/instr.cpp', 'VM/src/program.cpp']
GEN_AST = '_Z7gen_astR8GenState'          # gen_ast(GenState&): replaced by the observer stub_gen_ast in the base-case build
# library preconditions violated inside the functions under test (or the container model they call) are in scope: the induction
# step is only sound if the call is defined from every invariant state
UB_PAT = r'^(_ZN8GenState|_ZNSt|_ZNKSt|_ZSt)\S*\.assertion\.\d+ ministl: .*\((UB|throws)\)'
# representation the state construction of the harness was written for
LAYOUT = {
    'struct.Theo::Program': ['%"struct.std::vector"', '%"struct.std::vector"', '%"struct.std::map"', '%"struct.std::map"'],
    'struct.Theo::BreakPoint': ['%"struct.std::string"', 'i32'],
    'struct.Theo::Instruction': ['i32', '%union.anon'],
}
CBMC_EXTRA = ['--no-array-field-sensitivity']   # strings as whole arrays: symex 7x faster on this harness, same verdicts


def cfg(tier, entry=None):
    if tier == 'thorough':
        return dict(GEN_L=8, GEN_NSITE=4, GEN_NLOC=3)
    # advanceLine() contains two call sites of breakpoint(): its query is the most expensive one (177 s at 6/4/3 on an idle machine),
    # the quick tier runs it with one site and one location less (every case of its specification stays reachable: C08(EXISTS) assertions)
    return dict(GEN_L=5, GEN_NSITE=3, GEN_NLOC=2) if entry == 'h_advance_line' else dict(GEN_L=6, GEN_NSITE=4, GEN_NLOC=3)


def bounds_text(d):
    return ('pre-state: code <= %(GEN_L)d instructions (any opcode, any operands), <= %(GEN_NSITE)d breakpoint sites, <= %(GEN_NLOC)d locations, file names '
            'from {a, b, c} (argument of advanceLine also __standards__), any 32-bit line numbers, current position arbitrary; one call from an arbitrary state satisfying Inv_tab' % d)


def jobs_for(prop, tier):
    to = 1800 if tier == 'thorough' else 600

    def J(entry, what, functions, ub=UB_PAT, defines=None, stubs=None, bounds=None, layout=True):
        d = cfg(tier, entry)
        unwind = max(d['GEN_NSITE'], d['GEN_NLOC']) + 3
        defines = defines or ['%s=%s' % kv for kv in d.items()] + ['MINISTL_VEC_CAP=1', 'MINISTL_MAP_CAP=1', 'MINISTL_STR_CAP=16']
        j = fw.Job('gen.' + entry, H, entry, tus=TUS, defines=defines, caps='caps_gen.hpp', unwind=unwind, tags=[prop], ub_pat=ub, timeout=to,
                   stubs=stubs, native=False, what=what, bounds=(bounds or bounds_text(d)) + '; unwind %d' % unwind, functions=functions, extra=CBMC_EXTRA)
        if layout:
            j.layout = LAYOUT
        return j
    jobs = [
        J('h_advance_line', 'Inv_tab => advanceLine(line, file): a site is emitted iff file != __standards__ and (file, line) != current position; it is labelled (file, line) '
          'and becomes the current position; for __standards__ nothing changes; getMarkPos() right afterwards is that site; Inv_tab preserved',
          ['GenState::advanceLine', 'GenState::breakpoint', 'GenState::getMarkPos', 'GenState::emit', 'Theo::operator<(BreakPoint)']),
        J('h_breakpoint', 'Inv_tab => breakpoint(): exactly one POTENTIAL_BREAK appended, exactly that site registered in both tables at (fs.name, fs.line), older sites unchanged, Inv_tab preserved',
          ['GenState::breakpoint', 'GenState::emit', 'GenState::getNextPos', 'Theo::operator<(BreakPoint)']),
        J('h_remove_top', 'Inv_tab => removeTopPotBreak(): if the top instruction is a POTENTIAL_BREAK exactly it and exactly its site are removed (other sites of the line stay), else nothing changes; Inv_tab preserved',
          ['GenState::removeTopPotBreak', 'Theo::operator<(BreakPoint)']),
        J('h_emit', 'Inv_tab => emit(any instruction but POTENTIAL_BREAK): instruction appended, tables and position untouched, Inv_tab preserved', ['GenState::emit']),
        J('h_mark_pos', 'Inv_tab => getMarkPos() == index of the top instruction if that is a POTENTIAL_BREAK, else the next position; nothing changes', ['GenState::getMarkPos', 'GenState::getNextPos']),
        J('h_factories', 'no Instruction factory other than PotentialBreak() yields opcode POTENTIAL_BREAK (premise of the emit obligation)', ['Theo::Instruction::*'], bounds='all operand values', layout=False),
        # base case: Theo::gen() with gen_ast() replaced by an observer that asserts Inv_tab on the state it is handed ("#root_file_context" needs 19 bytes)
        J('h_base', 'base case: the GenState that Theo::gen() constructs and hands to the traversal has empty tables, one PREPARE_EXEC, and satisfies Inv_tab',
          ['Theo::gen', 'GenState::emit', 'GenState::pushSymbols', 'GenState::popSymbols', 'GenState::backpatch'], ub=None,
          defines=['GEN_L=4', 'GEN_NSITE=2', 'GEN_NLOC=2', 'MINISTL_VEC_CAP=2', 'MINISTL_MAP_CAP=2', 'MINISTL_STR_CAP=20', 'GEN_NODES=2', 'GEN_REGS=2'],
          stubs={GEN_AST: 'stub_gen_ast'}, bounds='the single initial state (no symbolic input besides AST::parsed_correctly)'),
    ]
    return jobs


# ------------------------------------------------------------------------------------------------ frame of the induction (syntactic)
def _body(src, header_re):
    """(start, end) of the brace-balanced body that follows the first match of header_re"""
    m = re.search(header_re, src)
    if not m:
        return None
    i = src.index('{', m.end() - 1)
    depth = 0
    for k in range(i, len(src)):
        if src[k] == '{': depth += 1
        elif src[k] == '}':
            depth -= 1
            if depth == 0:
                return (m.start(), k + 1)
    return None


def frame_check(repo):
    """Inv_tab is proved inductive for breakpoint/removeTopPotBreak/advanceLine/emit; this checks on the text of gen.cpp that no
    other code writes code[].op, the code vector's length, the two tables or the current position.  Returns (facts, problems)."""
    path = os.path.join(repo, 'Compiler/src/gen.cpp')
    raw = open(path).read()
    src = re.sub(r'//[^\n]*', lambda m: ' ' * len(m.group(0)), raw)
    src = re.sub(r'/\*.*?\*/', lambda m: re.sub(r'[^\n]', ' ', m.group(0)), src, flags=re.S)
    spans = {
        'breakpoint': _body(src, r'void\s+breakpoint\s*\(\s*\)\s*\{'),
        'removeTopPotBreak': _body(src, r'void\s+removeTopPotBreak\s*\(\s*\)\s*\{'),
        'advanceLine': _body(src, r'void\s+advanceLine\s*\([^)]*\)\s*\{'),
        'emit': _body(src, r'void\s+emit\s*\(\s*Instruction\s+\w+\s*\)\s*\{'),
        'emitBackpatched': _body(src, r'void\s+emitBackpatched\s*\(\s*Instruction\s+\w+\s*\)\s*\{'),
        'gen': _body(src, r'CodegenResult\s+Theo::gen\s*\([^)]*\)\s*\{'),
    }
    problems = []; facts = []
    for k, v in spans.items():
        if v is None:
            problems.append('function %s not found in gen.cpp' % k)
    if problems:
        return facts, problems

    def inside(pos, names):
        return any(spans[n][0] <= pos < spans[n][1] for n in names)

    def line_of(pos):
        return src.count('\n', 0, pos) + 1

    def only_in(rx, names, what, allow=None):
        hits = [m for m in re.finditer(rx, src)]
        bad = [m for m in hits if not inside(m.start(), names) and not (allow and allow(m))]
        where = ('all inside %s' % '/'.join(names) if names else 'none') + (' or the allowed form (comparison / initializer of gen())' if allow else '')
        facts.append('%s: %d occurrence(s), %s' % (what, len(hits), where) if not bad else '%s: %d occurrence(s), %d not allowed' % (what, len(hits), len(bad)))
        for m in bad:
            problems.append('%s outside %s at gen.cpp:%d: %s' % (what, '/'.join(names), line_of(m.start()), src[m.start():m.start() + 60].split('\n')[0]))
        return hits
    h = only_in(r'PotentialBreak\s*\(', ['breakpoint'], 'PotentialBreak() (the only source of POTENTIAL_BREAK instructions)')
    if len(h) != 1:
        problems.append('expected exactly one PotentialBreak() in gen.cpp, found %d' % len(h))
    only_in(r'\bOpCode::POTENTIAL_BREAK\b', [], 'mention of OpCode::POTENTIAL_BREAK (allowed in comparisons only)',
            allow=lambda m: re.search(r'[=!]=\s*$', src[max(0, m.start() - 6):m.start()]) is not None)
    only_in(r'(\.|->)op\s*=(?!=)', [], 'assignment to an opcode field')
    only_in(r'\b(line_info|potential_breaks)\b', ['breakpoint', 'removeTopPotBreak'], 'use of line_info / potential_breaks',
            allow=lambda m: inside(m.start(), ['gen']) and re.match(r'\.\s*(line_info|potential_breaks)\s*=\s*\{\s*\}', src[m.start() - 1:m.start() + 40]) is not None)
    only_in(r'\bcode\s*\.\s*(push_back|pop_back|clear|erase|insert|resize|emplace_back|assign|swap)\b', ['emit', 'removeTopPotBreak'], 'change of the length of out.code')
    only_in(r'\bfs\s*(\.\s*(name|line)\s*)?=(?!=)', ['advanceLine'], 'assignment to the current file/line',
            allow=lambda m: inside(m.start(), ['gen']) and src[m.start() - 1] == '.')
    only_in(r'\bout\s*=(?!=)', [], 'assignment to GenState::out', allow=lambda m: inside(m.start(), ['gen']) and src[m.start() - 1] == '.')
    # every emit()/emitBackpatched() call passes a factory result other than PotentialBreak() (or forwards the parameter inside emitBackpatched)
    calls = list(re.finditer(r'\b(emit|emitBackpatched)\s*\(\s*([A-Za-z_:]+)', src))
    ncall = 0
    for m in calls:
        if inside(m.start(), ['emit']) and m.group(1) == 'emit' and spans['emit'][0] == m.start() - len('void '):
            continue
        arg = m.group(2)
        if arg == 'Instruction' and re.match(r'\s+\w+\s*\)\s*\{', src[m.end():m.end() + 20]):
            continue    # the definitions themselves: emit(Instruction i) {
        ncall += 1
        if arg == 'Instruction::PotentialBreak':
            if not inside(m.start(), ['breakpoint']):
                problems.append('emit(PotentialBreak()) outside breakpoint() at gen.cpp:%d' % line_of(m.start()))
        elif arg.startswith('Instruction::'):
            pass
        elif arg == 'i' and inside(m.start(), ['emitBackpatched']):
            pass
        else:
            problems.append('emit() of something that is not an Instruction factory result at gen.cpp:%d: %s' % (line_of(m.start()), src[m.start():m.start() + 50].split('\n')[0]))
    facts.append('%d emit()/emitBackpatched() calls, each passes Instruction::<factory>(...) (PotentialBreak only inside breakpoint())' % ncall)
    return facts, problems


# ------------------------------------------------------------------------------------------------ native cross-check
LAYOUTS = {
    'several_statements_per_line': {'m': 'x := 1; y := 2; z := x;\nw := z; LOOP w DO x := x + 1 END\n'},
    'file_included_twice': {'m': 'INCLUDE "d"\nINCLUDE "d"\nx := RUN f WITH 2 END;\ny := RUN f WITH x END\n', 'd': 'PROGRAM f IN a DO\n  x0 := a + 1\nEND\n'},
    # the header of b re-enters line 1 of m, which already owns the site emitted after the include of l2
    'header_shares_line_with_includes': {'m': 'PROGRAM a IN x DO INCLUDE "l2" END INCLUDE "l3" PROGRAM b IN y DO x0 := 2 END\nz := RUN a WITH 1 END; u := RUN c WITH z END\n',
                                         'l2': 'x0 := 1', 'l3': 'PROGRAM c IN p DO\n  x0 := p\nEND\n'},
    'standard_macros': {'m': 'y := 3;\nx := y + 1; x := x - 1\n'},
    'user_macro_from_include': {'m': 'INCLUDE "mac"\nx := 2;\ny := TWICE x; z := TWICE y\n',
                                'mac': 'PROGRAM dbl IN a DO\n  x0 := a;\n  LOOP a DO x0 := x0 + 1 END\nEND\nDEFINE PRIO 10 TWICE <V> AS RUN dbl WITH $0 END END DEFINE\n'},
    'marks_and_jumps_on_one_line': {'m': 'x := 3; l: if x = 0 then goto e; x := x - 1; goto l; e: y := 1\n'},
    'construct_spread_over_files': {'m': 'x := 2;\nWHILE x != 0 DO INCLUDE "body" END;\ny := x\n', 'body': 'x := x - 1;\nz := z + 1'},
    'two_headers_one_line': {'m': 'PROGRAM p IN a DO x0 := a END PROGRAM q IN a DO x0 := a + 1 END\nx := RUN p WITH 1 END; y := RUN q WITH x END\n'},
}
PB = 0   # OpCode::POTENTIAL_BREAK


def tables_problems(dump, files):
    """Inv_tab (a)-(d) on a dumped Program + every location names a line of a supplied file that carries text"""
    bad = []
    code = dump['code']
    li = {}
    for idx, f, l in dump['line_info']:
        if idx in li: bad.append('line_info lists site %d twice' % idx)
        li[idx] = (f, l)
    pb = {}
    for f, l, v in dump['potential_breaks']:
        if (f, l) in pb: bad.append('potential_breaks lists %s:%d twice' % (f, l))
        pb[(f, l)] = v
    for idx, loc in li.items():
        if not (0 <= idx < len(code)): bad.append('(a) site %d outside the code' % idx); continue
        if code[idx][0] != PB: bad.append('(a) site %d is not a POTENTIAL_BREAK (opcode %d)' % (idx, code[idx][0]))
        if loc not in pb: bad.append('(a) site %d -> %s:%d but potential_breaks has no such location' % (idx, loc[0], loc[1]))
        elif pb[loc].count(idx) != 1: bad.append('(a) site %d listed %d times under %s:%d' % (idx, pb[loc].count(idx), loc[0], loc[1]))
    for loc, v in pb.items():
        if not v: bad.append('(b) location %s:%d has no site' % loc)
        for idx in v:
            if li.get(idx) != loc: bad.append('(b) %s:%d lists site %d but line_info[%d] = %s' % (loc[0], loc[1], idx, idx, li.get(idx)))
        f, l = loc
        if f == '__standards__': bad.append('(d) location in the hidden file __standards__: line %d' % l)
        elif f not in files: bad.append('location %s:%d names a file that was not supplied' % loc)
        else:
            lines = files[f].split('\n')
            if not (1 <= l <= len(lines)) or not re.sub(r'//.*', '', lines[l - 1]).strip():
                bad.append('location %s:%d is not a line carrying program text' % loc)
    for i, ins in enumerate(code):
        if ins[0] == PB and i not in li: bad.append('(c) POTENTIAL_BREAK at %d is not listed in line_info' % i)
        if ins[0] == 1: bad.append('BREAK instruction at %d in freshly generated code' % i)
    return bad


def native_layouts(prop, wd, out):
    import ctv
    ok = 0; details = []
    for name, files in LAYOUTS.items():
        try:
            dump = ctv.native_compile(wd, files, 'm', tag='c08_' + name)
        except Exception as ex:
            out.inconclusive.append('native layout %s: %s' % (name, str(ex)[-300:])); continue
        if dump.get('crash') or not dump.get('ok'):
            out.inconclusive.append('native layout %s was not compiled successfully: %s' % (name, json.dumps({k: dump.get(k) for k in ('rc', 'errors', 'stderr')})[:300])); continue
        bad = tables_problems(dump, files)
        out.obligations += 1
        details.append({'layout': name, 'sites': len(dump['line_info']), 'locations': len(dump['potential_breaks']), 'problems': bad})
        if not bad:
            ok += 1; out.discharged += 1; continue
        os.makedirs(fw.REPLAYS, exist_ok=True)
        rpath = os.path.join(fw.REPLAYS, '%s-%s.json' % (prop, hashlib.md5(name.encode()).hexdigest()[:10]))
        json.dump({'module': 'c08', 'property': prop, 'kind': 'layout', 'layout': name, 'files': files, 'main': 'm', 'problems': bad}, open(rpath, 'w'), indent=1)
        out.violations.append({'property': prop, 'job': 'native.' + name, 'assertion': 'tables of the natively compiled layout satisfy Inv_tab: ' + bad[0], 'replay': rpath, 'confirmed': True, 'cex': {}})
    return ok, details


def retag_layer_a_replays(prop, out):
    """counterexamples of the GenState harness are local states without a native twin of the harness: make their replay files
    re-decidable through this module (check.py --replay dispatches on 'module')"""
    for v in out.violations:
        if v.get('confirmed') is not None: continue
        try:
            r = json.load(open(v['replay']))
            if 'nondet_stream' in r:
                r['solver_nondet_stream'] = r.pop('nondet_stream')
            r.update({'module': 'c08', 'kind': 'layerA'})
            json.dump(r, open(v['replay'], 'w'), indent=1)
        except Exception:
            pass


def replay(r):
    """check.py --replay <file>: layouts are recompiled through the public API of a native build of the working tree and rechecked;
    layer-A counterexamples (local generator states) are re-decided by the solver on the current sources."""
    wd = fw.workdir('replayC08')
    try:
        if r.get('kind') == 'layerA':
            jobs = [j for j in jobs_for(r.get('property', 'C08'), 'quick') if j.entry == r['entry']]
            if not jobs:
                print('NOT REPRODUCED (obligation %s no longer exists)' % r.get('entry')); return 0
            j = jobs[0]; j.defines = r.get('defines', j.defines); j.build_key = ('replay',)
            fw.run_jobs('C08', [j], wd)
            if j.result is None or j.result.status != 'done':
                print('NOT REPRODUCED (no verdict: %s)' % (j.error or (j.result.status if j.result else '?'))); return 0
            st = [p['status'] for p in j.result.props.values() if p['description'] == r['assertion']]
            hit = 'FAILURE' in st
            print(json.dumps({'obligation': j.name, 'assertion': r['assertion'], 'solver_status': st, 'state': r.get('cex')}, indent=1)[:3000])
            print('REPRODUCED' if hit else 'NOT REPRODUCED'); return 1 if hit else 0
        import ctv
        dump = ctv.native_compile(wd, r['files'], r.get('main', 'm'), tag='replay')
        if dump.get('crash') or not dump.get('ok'):
            print(json.dumps({k: dump.get(k) for k in ('rc', 'errors', 'stderr')})); print('NOT REPRODUCED (not compiled)'); return 0
        bad = tables_problems(dump, r['files'])
        print(json.dumps({'line_info': dump['line_info'], 'potential_breaks': dump['potential_breaks'], 'problems': bad}, indent=1))
        print('REPRODUCED' if bad else 'NOT REPRODUCED'); return 1 if bad else 0
    finally:
        shutil.rmtree(wd, ignore_errors=True)


def run(prop, tier, seed, wd, t0):
    jobs = jobs_for(prop, tier)
    # provenance of locations: every tree node the real statement / program parser builds carries the (file, line) of one token (tokens of two files mixed)
    try:
        import c04
        pj, _ = c04.parser_jobs(prop, tier, wd, [prop])
        for j in pj:
            if j.name.startswith(('parse.P.', 'parse.S.PROGRAM', 'parse.VALUE.', 'parse.ARGS.')) and not j.name.endswith('.other'):
                j.name += '.provenance'; j.defines = list(j.defines) + ['PB_PROVENANCE=1']; j.build_key = tuple(j.build_key) + ('prov',)
                j.what = 'real %s of parse.cpp, callees as contract stubs, tokens of two files mixed: every node built carries file and line of one token' % j.name.split('.')[1]
                j.layout = None
                jobs.append(j)
    except ImportError:
        pass
    # the native build of /repo (about 40 s) runs next to the solver jobs
    nat = {}
    def build_native():
        try:
            import ctv
            nat['exe'] = ctv.native_tool(wd)
        except Exception as ex:
            nat['error'] = str(ex)[-600:]
    th = threading.Thread(target=build_native); th.start()
    facts, fproblems = frame_check(fw.REPO)

    def extra(out):
        retag_layer_a_replays(prop, out)
        for p in fproblems:
            out.inconclusive.append('frame of the induction not confirmed on the text of gen.cpp (the one-step obligations then do not cover every writer of the tables): ' + p)
        th.join()
        cov = {'frame_check': facts, 'invariant': 'Inv_tab = (a) line_info sites are POTENTIAL_BREAK instructions listed exactly once under their location, (b) every listed location is non-empty and its sites map back to it, '
               '(c) every POTENTIAL_BREAK is listed, (d) no location in __standards__, (e) current file is not __standards__, (f) code[0] exists and is no POTENTIAL_BREAK'}
        if 'error' in nat:
            out.inconclusive.append('native build of the working tree failed, layouts not cross-checked: ' + nat['error'])
            return cov
        ok, details = native_layouts(prop, wd, out)
        cov.update({'traces_validated_against_impl': len(details), 'native_layouts': details})
        return cov
    return fw.run_e1(prop, tier, seed, wd, t0, jobs, fw.COMMON_ASSUMPTIONS + [
        'induction over the generator run: Inv_tab holds in the state gen() starts from (h_base) and is preserved by every operation that writes code[].op, the length of the code, '
        'line_info, potential_breaks or the current file/line; that breakpoint(), removeTopPotBreak(), advanceLine() and emit() are the ONLY such writers in gen.cpp, that POTENTIAL_BREAK '
        'is emitted only in breakpoint(), and that emit() is otherwise called with Instruction factory results, is checked on the source text on every run (coverage.frame_check); '
        'backpatch() and gen() write operands of existing instructions only (covered by the same text check: no assignment to an opcode field)',
        'file names are drawn from a, b, c and __standards__: the functions under test only copy and compare names, the names cover first/middle/last insertion positions of a new location',
        'every location is the (file, line) of an AST node handed to advanceLine() (shown: the label of an emitted site is exactly the argument); that the parser copies node labels from token '
        'positions is property C01(d)/C14, here it is cross-checked on the natively compiled layouts (each location must be a text-carrying line of a supplied file)',
        '"a location can be enabled iff stepping can report it" = inverse tables (this property) + C06 (setBreakPoint consults potential_breaks, getCurrentBreak consults line_info)',
        'CBMC runs with --no-array-field-sensitivity (arrays of the container model are kept whole instead of being split into one symbol per element; affects speed only)'],
        'Layer A, one real call from an arbitrary invariant state, for each writer of the breakpoint bookkeeping in GenState (gen.cpp): breakpoint() adds exactly one site at the current position to both tables; '
        'removeTopPotBreak() removes exactly the top site and keeps the other sites of its line (the defect fixed in f2fd53a erased the whole entry); advanceLine() emits a site iff the node is not from '
        '__standards__ and its (file, line) differs from the current position, labels it with exactly the node\'s file and line, and leaves everything untouched for __standards__; getMarkPos() designates the '
        'site just emitted; emit() of any other instruction touches no table; the state gen() starts from satisfies the invariant. Inv_tab is asserted after every call, hence holds after runs of any length '
        'and in the returned Program (tables exact inverses, sites == POTENTIAL_BREAK instructions, never __standards__). A whole-generator query with symbolic node labels was tried and dropped: CBMC gives no '
        'verdict within 300 s even for a one-statement tree; instead %d tricky layouts are compiled by the native build on every run and their tables checked for Inv_tab and for naming text-carrying lines of supplied files.' % len(LAYOUTS),
        extra=extra)
