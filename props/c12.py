"""C12 - ambiguous macro patterns are rejected, deterministic ones are accepted (translation validation per pattern)."""
import json, shutil
import framework as fw, lrtv


def run(prop, tier, seed, wd, t0):
    out = fw.Outcome()
    cov = lrtv.c12_obligations(prop, tier, seed, wd, out)
    cov['disagreements_checked'] = out.disagreements
    # the usable filter of apply_macros (a rejected macro is reported once, never consulted, and does not block or hide any other macro): the real
    # apply_macros with detectors stubbed by contract, one job per rejection pattern over the definition positions (harness/macro_apply.cpp)
    try:
        import macroh
        confs = [((5, 5), (1, 0)), ((5, 5), (0, 1)), ((5, 5), (1, 1))]
        if tier != 'quick': confs += [((5, 9, 5), (1, 1, 0)), ((5, 9, 5), (0, 1, 1)), ((5, 5, 5), (1, 0, 1)), ((5, 5, 5), (1, 1, 1))]
        mj = [macroh.select_job('filter.rejected_%s' % ''.join(map(str, cf)), pr, conf=cf, tags=[prop], timeout=600 if tier == 'quick' else 1500) for pr, cf in confs]
        fw.run_jobs(prop, mj, wd)
        fw.classify(prop, mj, wd, out)
        cov['usable_filter_jobs'] = [j.name for j in mj]
    except ImportError:
        pass
    return fw.finish(prop, tier, seed, 'translation_validation', out, t0, coverage_extra=cov, assumptions=fw.COMMON_ASSUMPTIONS + lrtv.C12_ASSUMPTIONS, explanation=lrtv.C12_EXPLANATION)


def replay(r):
    """re-run a stored counterexample natively: the real MacroDetector on the pattern (and witness input), and the pattern as a DEFINE through the public API"""
    wd = fw.workdir('replay')
    try:
        rep = lrtv.replay_pattern(wd, r)
    finally:
        shutil.rmtree(wd, ignore_errors=True)
    print(json.dumps(rep, indent=1, default=str))
    print('REPRODUCED' if rep.get('reproduced') else 'NOT REPRODUCED')
    return 1 if rep.get('reproduced') else 0
