"""C12 - ambiguous macro patterns are rejected, deterministic ones are accepted (translation validation per pattern)."""
import json, shutil
import framework as fw, lrtv


def run(prop, tier, seed, wd, t0):
    out = fw.Outcome()
    cov = lrtv.c12_obligations(prop, tier, seed, wd, out)
    cov['disagreements_checked'] = out.disagreements
    return fw.finish(prop, tier, seed, 'translation_validation', out, t0, coverage_extra=cov, assumptions=fw.COMMON_ASSUMPTIONS + lrtv.C12_ASSUMPTIONS, explanation=lrtv.C12_EXPLANATION)


def replay(r):
    """re-run a stored counterexample natively: the real MacroDetector on the pattern (and witness input), and the pattern as a DEFINE through the public API"""
    wd = fw.workdir('replay')
    try:
        rep = lrtv.replay_pattern(wd, r)
    finally:
        shutil.rmtree(wd, ignore_errors=True)
    print(json.dumps(rep, indent=1, default=str))
    print('REPRODUCED' if rep.get('reproduced') else 'NOT REPRODUCED')
    return 1 if rep.get('reproduced') else 0
