"""C09 - macro expansion is faithful substitution: highest priority, leftmost, longest.

Solver obligations (E1, harness/macro_apply.cpp, job builders in lib/macroh.py):
  * selection: the REAL Theo::apply_macros (get_detectors, usable filter, priority bins, pass loop, min_element comparator, real
    get_replacement behind a recorder, erase/insert) with MacroDetector's constructor and detect() replaced by contract stubs; an
    oracle replays the recorded detector answers through the specification (family of jobs = order patterns of the priorities);
  * instantiation: real get_replacement against the substitution specification;
  * literal constraints: one real step of D / MD / A (push_rule, push_replacement) from an arbitrary invariant state, real
    check_constraint, real extract_macros end to end on concrete-kind shapes.
Matching of patterns against token streams (the LR detector) is C12/C13.
Native cross-check on every run: pairs of macro definitions compiled and run in both orders of definition through the public API."""
import json, os
import framework as fw, macroh

ASSUMPTIONS = fw.COMMON_ASSUMPTIONS + [
    'MacroDetector::MacroDetector and MacroDetector::detect are replaced by contract stubs: the constructor stores the definition; detect returns nullopt or any (location >= 0, length >= 1, location+length <= size-1, one token sequence per pattern position) - that real detectors satisfy this contract is C12/C13',
    'number of definitions, their priorities and which of them the table generator rejects are constants of each job; the family of jobs enumerates the order patterns of the priorities over the definition positions (std::map only compares keys); bodies, slot positions, inputs, detector answers are symbolic',
    'vectors of large elements, the priority-bin map and Token/ParseError vectors use the representations of harness/caps_macro.hpp (same interface and assertions as ministl, elements in separate objects / stores at constant positions) because CBMC does not decide symbolic-index access to KB-sized elements of the flat model',
    'libc strtol is modelled on decimal texts of <= 3 digits (stub_strtol); Theo::token_string (flex TU) is a stub that only feeds diagnostics',
    'extract_macros end to end runs on shapes with concrete token kinds (recursive descent resolved by constant propagation); arbitrary kinds and lengths are covered by the one-step obligations over D/MD/A with the continuation recorded',
]
EXPLANATION = ('Layer B/C over the real macro code. Selection: for each priority pattern the solver chooses bodies, inputs and every answer of every detector call; the oracle recomputes from the recorded '
               'answers which detectors must be consulted (descending priority, whole bin), which match must win (leftmost, then longest, ties free) and what the token sequence must be after each pass, '
               'and compares with what apply_macros did (arguments/result of the real get_replacement are recorded). Instantiation and literal constraints are separate obligations on the real functions.')


def replay(r):
    """re-run a stored pair of definitions in both orders through the native build: 1 if the results still differ"""
    import shutil
    wd = fw.workdir('C09replay')
    try:
        macroh.PAIRS[:] = [tuple(r['pair_text'])]
        res = macroh.native_order_check(wd)[0]
    finally:
        shutil.rmtree(wd, ignore_errors=True)
    print(json.dumps(res, indent=1))
    print('NOT REPRODUCED' if res['same'] else 'REPRODUCED')
    return 0 if res['same'] else 1


def jobs_for(prop, tier):
    tags = [prop]; jobs = []
    if tier == 'quick':
        for pr in macroh.PATTERNS2:
            jobs.append(macroh.select_job('sel.p%s' % '_'.join(map(str, pr)), pr, tags=tags))
        jobs.append(macroh.select_job('sel.rejected_first', (5, 5), conf=(1, 0), tags=tags))
    else:
        for pr in macroh.PATTERNS2[:2]:
            jobs.append(macroh.select_job('sel.p%s' % '_'.join(map(str, pr)), pr, nin=3, nbody=2, nmatch=2, tags=tags, timeout=1500))
        jobs.append(macroh.select_job('sel.p7_3', (7, 3), tags=tags, timeout=1500))
        for pr in macroh.PATTERNS3:
            jobs.append(macroh.select_job('sel.p%s' % '_'.join(map(str, pr)), pr, nin=3, nbody=2, nmatch=1, tags=tags, timeout=1500))
        jobs.append(macroh.select_job('sel.extreme', (-2147483648, 2147483647, -1), nin=2, nbody=1, tags=tags, timeout=1500))
        for cf in ((1, 0), (0, 1)):
            jobs.append(macroh.select_job('sel.rejected_%d%d' % cf, (5, 5), conf=cf, tags=tags, timeout=1500))
        jobs.append(macroh.select_job('sel.rejected_mid', (5, 9, 5), conf=(0, 1, 0), nin=2, nbody=1, tags=tags, timeout=1500))
        jobs.append(macroh.select_job('sel.none', (), tags=tags))
        jobs.append(macroh.select_job('sel.two_passes', (3, 7), passes=2, tags=tags, timeout=1500))
    jobs.append(macroh.inst_job(tier, tags))
    jobs += macroh.constraint_jobs(tier, tags)
    return jobs


def run(prop, tier, seed, wd, t0):
    jobs = jobs_for(prop, tier)

    def extra(out):
        res = macroh.native_order_check(wd)
        bad = [p for p in res if not p['same']]
        for p in bad:
            os.makedirs(fw.REPLAYS, exist_ok=True)
            rpath = os.path.join(fw.REPLAYS, '%s-order-pair%d.json' % (prop, p['pair']))
            json.dump({'property': prop, 'module': 'c09', 'pair_text': list(macroh.PAIRS[p['pair']]), 'runs': p['runs']}, open(rpath, 'w'), indent=1)
            out.violations.append({'property': prop, 'job': 'native.order_pair%d' % p['pair'], 'assertion': 'C09: the result of compiling and running a program does not depend on the order of its macro definitions',
                                   'replay': rpath, 'confirmed': True, 'cex': {}})
        return {'traces_validated_against_impl': 2 * len(res) + len(out.violations) + len(out.known) + out.disagreements,
                'native_order_independence': [{'pair': list(macroh.PAIRS[p['pair']]), 'same_in_both_orders': p['same'], 'final': p['runs'][0]['final'], 'ok': p['runs'][0]['ok']} for p in res],
                'priority_patterns': sorted(set(j.name for j in jobs if '.sel.' in j.name))}
    return fw.run_e1(prop, tier, seed, wd, t0, jobs, ASSUMPTIONS, EXPLANATION, extra=extra)
