"""C05 - debugging is transparent."""
import framework as fw, vm

def run(prop, tier, seed, wd, t0):
    jobs = [vm.debug_op(tier, [prop]), vm.twin_step(tier, [prop]), vm.step_ref(tier, [prop])]
    return fw.run_e1(prop, tier, seed, wd, t0, jobs, fw.COMMON_ASSUMPTIONS + [
        'composition (not a solver result): Lemma D (a debugger request changes only PB<->BREAK at listed sites and debugger settings) and Lemma S (a step does not '
        'depend on site arming or the stepping flag, and never edits code/tables/settings) give by induction over the history that the sequence of non-break '
        'instructions and all data are those of the uninterrupted run'],
        'Lemma D: one call of setBreakPoint/clearBreakpoints/setSteppingMode/getters with symbolic arguments from an arbitrary invariant state leaves ip, data and '
        'activations unchanged and edits no instruction other than the opcode of a listed site. Lemma S (2-safety, two machines in one query): equal (ip,data,stack), '
        'code equal modulo PB/BREAK at sites, arbitrary stepping flags => equal (ip,data,stack) after executeSingle() on both.')
