"""C17 - reset() gives back a fresh machine and the program end is absorbing."""
import framework as fw, vm

def run(prop, tier, seed, wd, t0):
    jobs = [vm.reset(tier, [prop]), vm.step_ref(tier, [prop]), vm.fresh(tier, [prop])]
    def extra(out):
        import ctv
        c1 = ctv.run_family(prop, tier, seed, wd, out, ('h_ctv_hist',), tags=[prop, 'C01', 'C07', 'C16', 'C06'])
        c2 = ctv.run_family(prop, tier, seed, wd, out, ('h_ctv_exec',), tags=[prop])
        return {'programs': c1['programs'], 'shapes': c1['shapes']}
    return fw.run_e1(prop, tier, seed, wd, t0, jobs, fw.COMMON_ASSUMPTIONS + [
        'pre-state of reset(): arbitrary state satisfying WF, Inv, Inv_tab (tables inverse, sites hold PB/BREAK) and Inv_en (site armed iff its location is enabled)',
        'observational indistinguishability after reset follows from field-wise equality with VM(original program): the object has no other state'],
        'Layer A: reset() from an arbitrary invariant state equals, field by field, a machine constructed on the original program (all sites passive); '
        'executeSingle() at HALT returns true and changes nothing; the constructed machine is empty. History obligations (independent of the representation of the VM): on natively '
        'compiled program shapes with symbolic literals, k steps + reset() + complete stepping run must give exactly the stops and values of the reference, and once the end is reached further execute/executeSingle calls change nothing.', extra=extra)
