#!/usr/bin/env python3
"""Reference side of the translation-validation layer (C-tv): a tiny AST for LOOP/WHILE/GOTO programs, a printer to
canonical source text (one statement per line), a compiler to *reference code* (the desugared goto language of the
property statements of C01/C07/C16) and a reference interpreter.  Nothing in here looks at /repo.

AST
  prog  = {'defs': [ {'name','params':[..],'out':name|None,'body':[stmt..]} ...], 'main': [stmt..]}
  stmt  = ('set', x, lit) | ('copy', x, y) | ('add', x, y, lit) | ('sub', x, y, lit) | ('call', x, f, [arg..])
        | ('loop', x, [stmt..]) | ('while', x, [stmt..]) | ('label', name, stmt) | ('goto', name)
        | ('ifgoto', x, lit, name) | ('stop',)
  arg   = ('var', x) | ('lit', lit) | ('call', f, [arg..])
  lit   = index of a literal; literal k is printed as the sentinel value SENT+k and is a symbolic value in the solver

Reference code (one routine = one list), instruction = (op, a, b, c):
  LINE file line | SETC x k | COPY x y | ADDC x y k | SUBC x y k | JZ x tgt | JMP tgt | IFEQ x k tgt | DEC x
  CALL x f [argvars] | RET v | STOP | HALT
LOOP x DO B END is desugared with a hidden per-activation counter: c := x; L: JZ c E; B; DEC c; JMP L; E:
"""
SENT = 1000


class Printer:
    def __init__(s, prog, litvals=None, include_defs=False, compact=False):
        s.lines = {'m': []}; s.prog = prog; s.lit = litvals; s.include = include_defs; s.compact = compact

    def litstr(s, k):
        return str(SENT + k if s.lit is None else s.lit[k])

    def arg(s, a):
        if a[0] == 'var': return a[1]
        if a[0] == 'lit': return s.litstr(a[1])
        return 'RUN %s WITH %s END' % (a[1], ', '.join(s.arg(x) for x in a[2]))

    def stmts(s, f, body, ind):
        """emit statements separated by ';' (the separator goes at the end of the line of the previous statement)"""
        for i, st in enumerate(body):
            last = i == len(body) - 1
            s.stmt(f, st, ind, '' if last else ';')

    def stmt(s, f, st, ind, sep):
        L = s.lines[f]; pad = '  ' * ind
        k = st[0]
        st_line = len(L) + 1
        if k == 'set': L.append('%s%s := %s%s' % (pad, st[1], s.litstr(st[2]), sep))
        elif k == 'copy': L.append('%s%s := %s%s' % (pad, st[1], st[2], sep))
        elif k == 'add': L.append('%s%s := %s + %s%s' % (pad, st[1], st[2], s.litstr(st[3]), sep))
        elif k == 'sub': L.append('%s%s := %s - %s%s' % (pad, st[1], st[2], s.litstr(st[3]), sep))
        elif k == 'call': L.append('%s%s := RUN %s WITH %s END%s' % (pad, st[1], st[2], ', '.join(s.arg(a) for a in st[3]), sep))
        elif k in ('loop', 'while'):
            L.append('%s%s %s %sDO' % (pad, 'LOOP' if k == 'loop' else 'WHILE', st[1], '' if k == 'loop' else '!= 0 '))
            s.stmts(f, st[2], ind + 1)
            L.append('%sEND%s' % (pad, sep))
        elif k == 'label':
            # the label shares the line of its statement
            n0 = len(L); s.stmt(f, st[2], ind, sep); L[n0] = pad + st[1] + ': ' + L[n0].lstrip()
        elif k == 'goto': L.append('%sGOTO %s%s' % (pad, st[1], sep))
        elif k == 'ifgoto': L.append('%sIF %s = %s THEN GOTO %s%s' % (pad, st[1], s.litstr(st[2]), st[3], sep))
        elif k == 'stop': L.append('%sSTOP%s' % (pad, sep))
        else: raise Exception(k)

    def text(s):
        f = 'm'
        if s.include and s.prog['defs']:
            s.lines['i'] = []
            s.lines['m'].append('INCLUDE "i"')
            f = 'i'
        for d in s.prog['defs']:
            L = s.lines[f]
            hdr = 'PROGRAM %s' % d['name']
            if d['params']: hdr += ' IN ' + ', '.join(d['params'])
            if d['out'] is not None:
                if not d['params']: raise Exception('OUT needs IN in the grammar')
                hdr += ' OUT ' + d['out']
            L.append(hdr + ' DO')
            s.stmts(f, d['body'], 1)
            L.append('END')
        s.stmts('m', s.prog['main'], 0)
        if s.compact:
            return {k: ' '.join(x.strip() for x in v) + '\n' for k, v in s.lines.items()}
        return {k: '\n'.join(v) + '\n' for k, v in s.lines.items()}


def line_table(prog, include_defs=False):
    """statement -> (file, line) in the canonical layout produced by Printer (same traversal)"""
    pos = {}; cnt = {'m': 0, 'i': 0}
    def walk(f, body):
        for st in body:
            one(f, st)
    def one(f, st):
        k = st[0]
        if k in ('loop', 'while'):
            cnt[f] += 1; pos[id(st)] = (f, cnt[f]); walk(f, st[2]); cnt[f] += 1; pos[(id(st), 'end')] = (f, cnt[f])
        elif k == 'label':
            one(f, st[2]); pos[id(st)] = pos[id(st[2])]
        else:
            cnt[f] += 1; pos[id(st)] = (f, cnt[f])
    f = 'm'
    if include_defs and prog['defs']:
        cnt['m'] += 1; f = 'i'
    for di, d in enumerate(prog['defs']):
        cnt[f] += 1; pos[('hdr', di)] = (f, cnt[f]); walk(f, d['body']); cnt[f] += 1; pos[('end', di)] = (f, cnt[f])
    walk('m', prog['main'])
    return pos


class RefCompiler:
    """AST -> reference code per routine.  Variables are numbered per routine; hidden ones (loop counters, temporaries
    for nested calls) get names starting with '%'."""
    def __init__(s, prog, include_defs=False, compact=False):
        s.prog = prog; s.pos = line_table(prog, include_defs); s.routines = []; s.names = {}
        # compact layout (whole program on line 1): the only breakpoint site is the first statement of a program without definitions
        s.compact = compact; s.compact_line_done = bool(prog['defs'])
        s.defs_seen = {}
        for di, d in enumerate(prog['defs']):
            s.routine(d['name'], d['params'], d['out'] if d['out'] is not None else 'x0', d['body'], ('end', di))
            s.defs_seen[d['name']] = len(s.routines) - 1      # a later definition of the same name replaces the earlier one for later calls
        s.routine('#root', [], None, prog['main'], None)

    def routine(s, name, params, out, body, endkey):
        s.code = []; s.vars = []; s.labels = {}; s.fix = []; s.hidden = 0
        for p in params: s.var(p)       # parameters occupy the first variables (equal names share one variable)
        s.nparams = len(params)
        s.block(body)
        if endkey is not None:
            f, l = s.pos[endkey]
            if not s.compact: s.code.append(('LINE', f, l, 0))
            s.code.append(('RET', s.var(out), 0, 0))
        else:
            s.code.append(('HALT', 0, 0, 0))
        for i, lab in s.fix:
            op, a, b, c = s.code[i]
            if lab not in s.labels: raise Exception('unknown label ' + lab)
            if op == 'JMP': s.code[i] = (op, s.labels[lab], b, c)
            elif op == 'IFEQ': s.code[i] = (op, a, b, s.labels[lab])
        s.routines.append({'name': name, 'code': s.code, 'vars': s.vars, 'nparams': len(params), 'params': [s.vars.index(p) for p in params]})

    def var(s, x):
        if x not in s.vars: s.vars.append(x)
        return s.vars.index(x)

    def hid(s):
        s.hidden += 1; return s.var('%%h%d' % s.hidden)

    def argvar(s, a):
        """evaluate an argument into a fresh hidden variable (call-by-value, left to right)"""
        t = s.hid()
        if a[0] == 'var': s.code.append(('COPY', t, s.var(a[1]), 0))
        elif a[0] == 'lit': s.code.append(('SETC', t, a[1], 0))
        else:
            avs = [s.argvar(x) for x in a[2]]
            s.code.append(('CALL', t, a[1], tuple(avs)))
        return t

    def block(s, body):
        for st in body: s.stmt(st)

    def stmt(s, st):
        k = st[0]
        if k == 'label':
            # the label designates the line event of its statement
            s.labels[st[1]] = len(s.code); s.stmt(st[2]); return
        f, l = s.pos[id(st)]
        if not s.compact: s.code.append(('LINE', f, l, 0))
        elif not s.compact_line_done: s.code.append(('LINE', 'm', 1, 0)); s.compact_line_done = True
        if k == 'set': s.code.append(('SETC', s.var(st[1]), st[2], 0))
        elif k == 'copy': s.code.append(('COPY', s.var(st[1]), s.var(st[2]), 0))
        elif k == 'add': s.code.append(('ADDC', s.var(st[1]), s.var(st[2]), st[3]))
        elif k == 'sub': s.code.append(('SUBC', s.var(st[1]), s.var(st[2]), st[3]))
        elif k == 'call':
            avs = [s.argvar(a) for a in st[3]]
            s.code.append(('CALL', s.var(st[1]), st[2], tuple(avs)))
        elif k == 'loop':
            c = s.hid(); s.code.append(('COPY', c, s.var(st[1]), 0))
            top = len(s.code); s.code.append(('JZ', c, None, 0))
            s.block(st[2])
            s.code.append(('DEC', c, 0, 0)); s.code.append(('JMP', top, 0, 0))
            s.code[top] = ('JZ', c, len(s.code), 0)
            f2, l2 = s.pos[(id(st), 'end')]
            if not s.compact: s.code.append(('LINE', f2, l2, 0))
        elif k == 'while':
            top = len(s.code); s.code.append(('JZ', s.var(st[1]), None, 0))
            s.block(st[2])
            s.code.append(('JMP', top, 0, 0))
            s.code[top] = ('JZ', s.var(st[1]), len(s.code), 0)
            f2, l2 = s.pos[(id(st), 'end')]
            if not s.compact: s.code.append(('LINE', f2, l2, 0))
        elif k == 'goto':
            s.fix.append((len(s.code), st[1])); s.code.append(('JMP', None, 0, 0))
        elif k == 'ifgoto':
            s.fix.append((len(s.code), st[3])); s.code.append(('IFEQ', s.var(st[1]), st[2], None))
        elif k == 'stop': s.code.append(('STOP', 0, 0, 0))
        else: raise Exception(k)


def resolve_calls(rc):
    """bind every CALL to the routine index of the latest definition of that name that is complete before the call"""
    # routines are in definition order; a call in routine r may only name a definition d < r (complete earlier in the text)
    out = []
    for ri, r in enumerate(rc.routines):
        code = []
        for (op, a, b, c) in r['code']:
            if op == 'CALL':
                cand = [j for j in range(ri) if rc.routines[j]['name'] == b]
                if not cand: raise Exception('call of undefined program ' + b)
                code.append((op, a, cand[-1], c))
            else: code.append((op, a, b, c))
        out.append(dict(r, code=code))
    return out


INT_MAX = 2147483647


def interpret(routines, lits, max_steps=100000):
    """reference interpreter (mathematical naturals). returns dict(done, steps, events, final views, out_of_range)"""
    root = len(routines) - 1
    frames = [{'r': root, 'pc': 0, 'v': [0] * len(routines[root]['vars']), 'tgt': None}]
    events = []; steps = 0; oor = False; maxdepth = 1
    def views():
        return [{routines[f['r']]['vars'][i]: f['v'][i] for i in range(len(f['v'])) if not routines[f['r']]['vars'][i].startswith('%')} for f in frames]
    while steps < max_steps:
        fr = frames[-1]; op, a, b, c = routines[fr['r']]['code'][fr['pc']]
        steps += 1
        v = fr['v']
        if op == 'LINE': events.append({'file': a, 'line': b, 'views': views()}); fr['pc'] += 1
        elif op == 'SETC': v[a] = lits[b]; fr['pc'] += 1
        elif op == 'COPY': v[a] = v[b]; fr['pc'] += 1
        elif op == 'ADDC':
            v[a] = v[b] + lits[c]
            if v[a] >= INT_MAX: oor = True
            fr['pc'] += 1
        elif op == 'SUBC': v[a] = max(v[b] - lits[c], 0); fr['pc'] += 1
        elif op == 'DEC': v[a] = max(v[a] - 1, 0); fr['pc'] += 1
        elif op == 'JZ': fr['pc'] = b if v[a] == 0 else fr['pc'] + 1
        elif op == 'JMP': fr['pc'] = a
        elif op == 'IFEQ': fr['pc'] = c if v[a] == lits[b] else fr['pc'] + 1
        elif op == 'CALL':
            cal = routines[b]; nv = [0] * len(cal['vars'])
            for k, av in enumerate(c): nv[cal['params'][k]] = v[av]
            fr['pc'] += 1
            frames.append({'r': b, 'pc': 0, 'v': nv, 'tgt': a}); maxdepth = max(maxdepth, len(frames))
        elif op == 'RET':
            val = v[a]; t = fr['tgt']; frames.pop(); frames[-1]['v'][t] = val
        elif op in ('STOP', 'HALT'):
            return {'done': True, 'steps': steps, 'events': events, 'final': views(), 'out_of_range': oor, 'max_depth': maxdepth}
    return {'done': False, 'steps': steps, 'events': events, 'final': views(), 'out_of_range': oor, 'max_depth': maxdepth}
