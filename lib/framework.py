#!/usr/bin/env python3
"""Check framework: jobs (solver queries over the real code), classification of their verdicts, native replay of
counterexamples, known findings, evidence files, VIOLATION lines."""
import concurrent.futures, hashlib, json, os, re, shutil, subprocess, sys, time, traceback

sys.path.insert(0, os.path.dirname(os.path.abspath(__file__)))
import e1

VERIF = e1.VERIF
REPO = e1.REPO
EVID = os.environ.get('VERIF_EVIDENCE_DIR') or os.path.join(VERIF, 'evidence')   # (seed experiments redirect it so that committed evidence is never overwritten by runs on mutated trees)
REPLAYS = os.path.join(VERIF, 'replays')
KNOWN = os.path.join(VERIF, 'known_findings.json')


class Job:
    """One CBMC query over an E1 harness."""
    def __init__(s, name, harness, entry, tus=(), defines=(), caps=None, unwind=None, unwindset=None, tags=(), ub_pat=None,
                 timeout=600, stubs=None, native_tus=None, native=True, what='', bounds='', functions=(), mem_gb=24, extra=(), build_key=None):
        s.name = name; s.harness = harness; s.entry = entry; s.tus = list(tus); s.defines = list(defines); s.caps = caps
        s.unwind = unwind; s.unwindset = unwindset; s.tags = list(tags); s.ub_pat = ub_pat; s.timeout = timeout
        s.stubs = stubs or {}; s.native = native; s.native_tus = list(native_tus if native_tus is not None else tus)
        s.what = what; s.bounds = bounds; s.functions = list(functions); s.mem_gb = mem_gb; s.extra = list(extra)
        s.build_key = build_key or (harness, tuple(tus), tuple(defines), caps, tuple(sorted(s.stubs.items())))
        s.result = None; s.cfile = None; s.error = None


class Outcome:
    def __init__(s):
        s.violations = []      # dicts: property, job, assertion, replay path, confirmed
        s.known = []           # known findings hit
        s.inconclusive = []    # strings
        s.discharged = 0       # claim assertions proven
        s.obligations = 0      # claim assertions checked
        s.witness_ok = 0
        s.queries = 0
        s.solver_s = 0.0
        s.max_rss = 0
        s.samples = []
        s.out_of_scope = []    # failed non-claim assertions in jobs where UB is not in scope
        s.ub_pat_unmatched = []   # jobs whose ub_pat matched no generated property at all (a pattern that cannot match counts nothing: reported in the evidence)
        s.disagreements = 0
        s.functions = set()
        s.notes = []


def workdir(prop):
    d = os.path.join(VERIF, 'build', '%s.%d' % (prop, os.getpid()))
    os.makedirs(d, exist_ok=True)
    return d


def load_known():
    try:
        return json.load(open(KNOWN))
    except Exception:
        return {'findings': []}


def match_known(prop, job, desc, cex):
    for f in load_known().get('findings', []):
        if f.get('status') != 'known' or f.get('property') != prop:
            continue
        m = f.get('match', {})
        if 'assertion' in m and not re.search(m['assertion'], desc):
            continue
        if 'entry' in m and m['entry'] != job.entry:
            continue
        if 'cex' in m:
            ok = True
            for k, v in m['cex'].items():
                if str(cex.get(k)) != str(v):
                    ok = False
            if not ok:
                continue
        return f
    return None


def layout_signature(ll_path, types):
    """normalised field lists of the named LLVM struct types (numeric type suffixes and padding arrays removed)"""
    sig = {}
    txt = open(ll_path).read()
    for t in types:
        m = re.search(r'^%"' + re.escape(t) + r'" = type <?\{(.*?)\}>?$', txt, re.M)
        if not m:
            sig[t] = None; continue
        fields = [re.sub(r'\.\d+(?=["*]|$)', '', f.strip()) for f in m.group(1).split(',')]
        sig[t] = [f for f in fields if not re.fullmatch(r'\[\d+ x i8\]', f)]
    return sig


def check_layout(job, expected):
    """compare the representation of the classes a layer-A harness constructs states of with the one its invariants were written for"""
    ll = job.cfile[:-2] + '.linked.ll'
    sig = layout_signature(ll, list(expected))
    diff = {t: {'expected': expected[t], 'found': sig.get(t)} for t in expected if sig.get(t) != expected[t]}
    return diff


def run_jobs(prop, jobs, wd, workers=None):
    """build each distinct harness once, then run all queries in parallel."""
    # distinct harness builds, in parallel (clang + llvm-link + opt + ir2c, a few seconds each)
    keys = []
    for j in jobs:
        if j.build_key not in keys: keys.append(j.build_key)
    built = {}
    def build_one(ik):
        i, key = ik
        rep = [x for x in jobs if x.build_key == key][0]
        roots = sorted(set(x.entry for x in jobs if x.build_key == key))
        try:
            return key, e1.build(wd, 'h%d' % i, rep.harness, rep.tus, roots=roots, stubs=rep.stubs, defines=rep.defines, caps=rep.caps), None
        except Exception as e:
            return key, None, 'build failed: ' + str(e)[-1500:]
    with concurrent.futures.ThreadPoolExecutor(max_workers=8) as ex:
        for key, cfile, err in ex.map(build_one, list(enumerate(keys))):
            built[key] = (cfile, err)
    for j in jobs:
        j.cfile, err = built[j.build_key]
        if err: j.error = err
    workers = workers or min(8, max(1, len(jobs)))

    def one(j):
        if j.cfile is None:
            j.error = j.error or 'build failed'
            return j
        if getattr(j, 'layout', None):
            d = check_layout(j, j.layout)
            if d:
                j.error = ('representation changed, the state invariants of this one-step harness describe another layout (no verdict from this obligation; '
                           'history-based obligations still apply): ' + json.dumps(d))[:900]
                return j
        j.result = e1.cbmc(j.cfile, j.entry, unwind=j.unwind, unwindset=j.unwindset, timeout=j.timeout, mem_gb=j.mem_gb, extra=j.extra)
        return j
    with concurrent.futures.ThreadPoolExecutor(max_workers=workers) as ex:
        list(ex.map(one, jobs))
    return jobs


def nondet_stream(cfile, trace):
    """values returned by the nondet_*() calls of a counterexample, in execution order"""
    lines = {}
    for i, l in enumerate(open(cfile), 1):
        m = re.match(r'\s*(\w+) = nondet_\w+\(\);', l)
        if m:
            lines[str(i)] = m.group(1)
    out = []
    for st in trace or []:
        if st.get('stepType') != 'assignment':
            continue
        ln = st.get('sourceLocation', {}).get('line')
        if ln in lines and st.get('lhs') == lines[ln]:
            v = st['value']
            b = v.get('binary')
            if b is None:
                d = v.get('data')
                out.append(1 if d is True or d == 'true' else 0 if d in (False, 'false') else int(re.sub(r'[a-z]+$', '', str(d))))
            else:
                x = int(b, 2)
                w = len(b)
                if w >= 32 and x >= 1 << (w - 1):
                    x -= 1 << w
                out.append(x)
    return out


def cex_values(trace):
    """CEX_* read-out globals of the harness: scalars by name, arrays as lists (ir2c wraps arrays as struct{T a[N];})"""
    vals = e1.trace_values(trace)
    out = {}
    for k, v in vals.items():
        if not k.startswith('CEX_'):
            continue
        m = re.match(r'(CEX_\w+)\.a\[(\d+)l?\]$', k)
        if m:
            out.setdefault(m.group(1), {})[int(m.group(2))] = v
        elif re.match(r'CEX_\w+$', k):
            out[k] = v
    for k, v in list(out.items()):
        if isinstance(v, dict):
            out[k] = [v.get(i, 0) for i in range(max(v) + 1)]
    return out


NATIVE_CXX = ['g++', '-std=c++20', '-O1', '-g', '-fno-access-control', '-fsanitize=address,undefined', '-fno-sanitize-recover=undefined',
              '-D_GLIBCXX_ASSERTIONS', '-w']


def native_replay(job, stream, wd, tag):
    """compile the same harness against libstdc++ and /repo's sources, feed the solver's values, report what fails"""
    exe = os.path.join(wd, 'replay_%s' % tag)
    srcs = [job.harness] + [os.path.join(REPO, t) for t in job.native_tus]
    cmd = NATIVE_CXX + ['-I' + REPO, '-I' + os.path.join(REPO, 'Compiler', 'include'), '-I' + os.path.join(VERIF, 'harness'),
                        '-DNATIVE_ENTRY=' + job.entry, '-DVERIF_REPO="%s"' % REPO] + ['-D' + d for d in job.defines] + srcs + ['-o', exe]
    p = subprocess.run(cmd, stdout=subprocess.PIPE, stderr=subprocess.PIPE, text=True)
    if p.returncode != 0:
        return {'built': False, 'log': p.stderr[-2000:]}
    sf = exe + '.stream'
    open(sf, 'w').write('\n'.join(str(x) for x in stream) + '\n')
    env = dict(os.environ, VERIF_REPLAY_STREAM=sf, ASAN_OPTIONS='detect_leaks=0:abort_on_error=0', UBSAN_OPTIONS='print_stacktrace=0')
    try:
        q = subprocess.run([exe], stdout=subprocess.PIPE, stderr=subprocess.PIPE, text=True, env=env, timeout=60)
        out = q.stdout + q.stderr; rc = q.returncode
    except subprocess.TimeoutExpired:
        out = 'REPLAY-TIMEOUT'; rc = -1
    failed = re.findall(r'REPLAY-ASSERT-FAILED: (.*)', out)
    san = bool(re.search(r'runtime error:|AddressSanitizer|Assertion .* failed|__glibcxx_assert', out)) or rc in (-11, -6, 134, 139)
    return {'built': True, 'failed': failed, 'sanitizer': san, 'assume_violated': 'REPLAY-ASSUME-VIOLATED' in out,
            'rc': rc, 'log': out[-1500:]}


def classify(prop, jobs, wd, out=None, all_tags=None):
    """turn solver verdicts into an Outcome.  prop: the property id being decided."""
    out = out or Outcome()
    for j in jobs:
        out.functions.update(j.functions)
        if j.error or j.result is None:
            out.inconclusive.append('%s: %s' % (j.name, (j.error or 'no result')[:600]))
            continue
        r = j.result
        out.queries += 1; out.solver_s += r.wall; out.max_rss = max(out.max_rss, r.rss_mb)
        if r.status != 'done':
            out.inconclusive.append('%s: solver %s after %.0fs (bound: %s) %s' % (j.name, r.status, r.wall, j.bounds, r.log[:300]))
            continue
        witness_seen = False; job_bad = []
        if j.ub_pat is not None and not any(re.search(j.ub_pat, pid + ' ' + pr['description']) for pid, pr in r.props.items()):
            out.ub_pat_unmatched.append(j.name)
        sample = {'obligation': j.name, 'entry': j.entry, 'what': j.what, 'bounds': j.bounds, 'wall_s': round(r.wall, 1), 'rss_mb': r.rss_mb, 'assertions': {}}
        candidates = []
        for pid, pr in r.props.items():
            d = pr['description']; st = pr['status']
            if d.startswith('WITNESS'):
                witness_seen = True
                if st == 'FAILURE':
                    out.witness_ok += 1
                else:
                    job_bad.append('vacuous: reachability witness not reachable (%s)' % d)
                continue
            mine = any(d.startswith(t + ':') or d.startswith(t + '(') for t in j.tags) or \
                (not re.match(r'C\d\d', d) and j.ub_pat is not None and re.search(j.ub_pat, pid + ' ' + d) is not None and '(model bound)' not in d and 'unwinding assertion' not in d)
            if d.startswith('no body for callee') or d.startswith('no body for function'):
                # a function the translation could not supply (harness out of step with the sources): no verdict from this job, never an alarm
                if st == 'FAILURE': job_bad.append('model incomplete: %s [%s]' % (d, pid))
                continue
            if '(model bound)' in d or 'unwinding assertion' in d or 'recursion unwinding' in d:
                if st == 'FAILURE':
                    job_bad.append('bound exceeded: %s [%s]' % (d, pid))
                continue
            if not mine:
                if st == 'FAILURE' and not re.match(r'C\d\d', d):
                    out.out_of_scope.append('%s: %s [%s]' % (j.name, d, pid))
                continue
            out.obligations += 1
            sample['assertions'][d[:110]] = st
            if re.match(r'C\d\d\(EXISTS\)', d):
                # existential obligation: the solver must FIND a witness, i.e. the negated assertion must fail
                if st == 'FAILURE':
                    out.discharged += 1
                elif st == 'SUCCESS':
                    candidates.append((pid, pr))
                continue
            if st == 'SUCCESS':
                out.discharged += 1
            elif st == 'FAILURE':
                candidates.append((pid, pr))
            else:
                job_bad.append('undecided: %s %s' % (d, st))
        if not witness_seen:
            job_bad.append('no reachability witness in harness')
        for b in job_bad:
            out.inconclusive.append('%s: %s' % (j.name, b))
        for pid, pr in candidates:
            handle_candidate(prop, j, pid, pr, wd, out)
        if len(out.samples) < 12:
            out.samples.append(sample)
    return out


def handle_candidate(prop, j, pid, pr, wd, out):
    d = pr['description']
    cex = cex_values(pr.get('trace'))
    stream = nondet_stream(j.cfile, pr.get('trace'))
    kf = match_known(prop, j, d, cex)
    tag = hashlib.md5((j.name + pid).encode()).hexdigest()[:10]
    rep = {'built': False}
    if j.native:
        rep = native_replay(j, stream, wd, tag)
    # reproduced = the same assertion fails natively, or the native run of the real code trips a sanitizer / libstdc++ assertion (undefined behaviour)
    confirmed = rep.get('built') and not rep.get('assume_violated') and (any(f == d for f in rep.get('failed', [])) or rep.get('sanitizer'))
    os.makedirs(REPLAYS, exist_ok=True)
    rpath = os.path.join(REPLAYS, '%s-%s.json' % (prop, tag))
    json.dump({'property': prop, 'job': j.name, 'entry': j.entry, 'harness': os.path.relpath(j.harness, VERIF), 'defines': j.defines,
               'tus': j.native_tus, 'assertion': d, 'cbmc_property': pid, 'nondet_stream': stream, 'cex': cex,
               'native_replay': {k: v for k, v in rep.items() if k != 'log'}, 'native_log': rep.get('log', '')[-800:]}, open(rpath, 'w'), indent=1)
    if kf is not None:
        out.known.append({'finding': kf, 'assertion': d, 'job': j.name, 'replay': rpath, 'confirmed': bool(confirmed)})
        return
    if not j.native:
        # no native twin of this harness: the counterexample is reported with its trace values; replay is by the property module
        out.violations.append({'property': prop, 'job': j.name, 'assertion': d, 'replay': rpath, 'confirmed': None, 'cex': cex})
        return
    if confirmed:
        out.violations.append({'property': prop, 'job': j.name, 'assertion': d, 'replay': rpath, 'confirmed': True, 'cex': cex})
    else:
        out.disagreements += 1
        out.inconclusive.append('%s: counterexample for "%s" did not reproduce natively (encoding disagreement; replay %s; %s)' %
                                (j.name, d, rpath, 'assume violated' if rep.get('assume_violated') else 'assertion held natively' if rep.get('built') else 'native build failed'))


def finish(prop, tier, seed, level, out, t0, coverage_extra=None, assumptions=(), explanation=''):
    """write evidence, print verdict lines, return exit code"""
    os.makedirs(EVID, exist_ok=True)
    cov = {
        'evaluations': out.queries,
        'distinct_nontrivial': out.witness_ok,
        'rule': 'one evaluation = one solver query over the encoding regenerated from /repo; counted non-trivial when its reachability witness (assert(false) at the end of the harness) was reported violated, i.e. the assumptions are satisfiable and the assertions are reached',
        'obligations': out.obligations, 'discharged': out.discharged,
        'samples': out.samples or [{'note': 'no query completed'}],
        'functions_encoded': sorted(out.functions),
        'solver_seconds': round(out.solver_s, 1), 'max_rss_mb': out.max_rss,
        'inconclusive': out.inconclusive, 'out_of_scope_failures': out.out_of_scope[:20], 'ub_pattern_matched_nothing': sorted(set(getattr(out, 'ub_pat_unmatched', [])))[:40],
        'known_findings_hit': [{'what': k['finding'].get('what'), 'assertion': k['assertion']} for k in out.known],
        'disagreements_checked': out.disagreements,
        'explanation': explanation,
        'exhaustive': False,
    }
    if level == 'model_checking':
        cov['states'] = max(1, out.obligations); cov['transitions'] = max(1, out.queries); cov['traces_validated_against_impl'] = len(out.violations) + len(out.known) + out.disagreements
    if coverage_extra:
        cov.update(coverage_extra)
    ev = {'property_id': prop, 'tier': tier, 'seed': seed, 'level': level, 'coverage': cov, 'assumptions': list(assumptions),
          'wall_s': round(time.time() - t0, 1), 'violations': len(out.violations)}
    json.dump(ev, open(os.path.join(EVID, prop + '.json'), 'w'), indent=1)
    for k in out.known:
        print('KNOWN-FINDING: property=%s %s' % (prop, k['finding'].get('what')))
    for v in out.violations:
        print('VIOLATION property=%s replay=%s' % (prop, v['replay']))
        print('  obligation=%s assertion="%s" native_replay=%s' % (v['job'], v['assertion'], v['confirmed']))
    for i in out.inconclusive:
        print('INCONCLUSIVE: ' + i)
    print('%s %s: %d/%d claim assertions discharged in %d queries, %d witnesses, %.0fs solver, %d inconclusive, %d violations' %
          (prop, tier, out.discharged, out.obligations, out.queries, out.witness_ok, out.solver_s, len(out.inconclusive), len(out.violations)))
    return 1 if out.violations else 0


def run_e1(prop, tier, seed, wd, t0, jobs, assumptions, explanation, extra=None, level='model_checking'):
    """standard driver of a property decided by E1 jobs; `extra(out)` may add further obligations (other engines)"""
    run_jobs(prop, jobs, wd)
    out = classify(prop, jobs, wd)
    cov = {}
    if extra:
        cov = extra(out) or {}
    return finish(prop, tier, seed, level, out, t0, coverage_extra=cov, assumptions=assumptions, explanation=explanation)


COMMON_ASSUMPTIONS = [
    'operator new does not fail (--no-malloc-may-fail); allocation failure is outside the property',
    'libstdc++ is replaced by the flat container model /verif/ministl (capacities are model bounds asserted in every run; iterator invalidation, exceptions and allocator behaviour are not modelled)',
    'clang 14 front end, /verif/lib/ir2c.py (LLVM IR -> C; counterexamples are replayed natively against libstdc++ before they are reported) and CBMC 6.11 with its SAT back end are trusted',
    'constant-trip loops are unrolled by LLVM loop-unroll; remaining loops are unwound by CBMC with --unwinding-assertions',
]
