#!/usr/bin/env python3
"""Translation validation of the LR(1) table generator (C13 tables obligation, C12 pattern obligations).

The generator (hull/jump/elements/generateParseTables) cannot be executed symbolically (DESIGN.md 1 item 5).  It runs NATIVELY on every member of
an enumerated family (native/lr_dump.cpp, real libstdc++, real /repo sources); the SOLVER then validates what it produced: harness/lr_parse.cpp
executes the REAL driver LRParser<int,int>::parse symbolically on the dumped tables for ALL end-marked inputs up to a length bound, next to a
derivation-table (CYK-style) oracle of the instance's grammar.

Conventions shared by native/lr_dump.cpp, harness/lr_parse.cpp and the Python reference below
  * grammar = {'nnt': #nonterminals, 'start': index, 'eof': terminal index of the end marker, 'rules': [(lhs, [sym, ...]), ...]},
    sym = ('t', k) terminal k | ('n', k) nonterminal k; the position of a rule in 'rules' is its rule id;
  * Goedel-style semantic values (SemanticType = int): leaf value = creator(token) = token + 1; the action of rule r receives the popped values
    c1..ck (c1 = value of the LAST right-side symbol, as the driver pops them) and returns  v = r+1; for c in c1..ck: v = (v*31 + c) mod 2^31.
    The value of a derivation tree under these actions determines the tree up to hash collisions mod 2^31 (none inside the bounds used).
"""
import concurrent.futures, hashlib, itertools, json, os, random, re, subprocess, sys, time

sys.path.insert(0, os.path.dirname(os.path.abspath(__file__)))
import framework as fw, e1

H_PARSE = os.path.join(fw.VERIF, 'harness', 'lr_parse.cpp')
H_FIRST = os.path.join(fw.VERIF, 'harness', 'first_sets.cpp')
PARSE_FN = '_ZN4Theo8LRParserIiiE5parseISt6vectorIiEEENS1_11ParseResultET_'
M31 = 0x7fffffff


# ------------------------------------------------------------------------------------------------ grammars
def T(k): return ('t', k)
def N(k): return ('n', k)


def gline(g, prefix, word=None):
    """one input line of native/lr_dump.cpp"""
    rules = ';'.join('%d:%s' % (l, ','.join('%s%d' % s for s in r)) for l, r in g['rules']) or '-'
    s = 'G %d %d %d %d %s' % (1 if prefix else 0, g['eof'], g['nnt'], g['start'], rules)
    if word is not None:
        s += ' # ' + ' '.join(map(str, word))
    return s


def gtext(g, names='ABCDEFGHIJ', tnames=None):
    tn = tnames or (lambda k: 'abcdefghij'[k] if k < 10 else 't%d' % k)
    nn = (lambda k: names[k]) if not callable(names) else names
    by = {}
    for l, r in g['rules']:
        by.setdefault(l, []).append(' '.join(tn(k) if t == 't' else nn(k) for t, k in r) or 'eps')
    return '; '.join('%s -> %s' % (nn(l), ' | '.join(a)) for l, a in sorted(by.items())) + ' (start %s)' % nn(g['start'])


def analyse(g, cap):
    """minimal / maximal yield lengths (capped at cap), nullability, productivity, same-span dependency order"""
    nnt = g['nnt']; INF = cap
    mn = [INF] * nnt
    ch = True
    while ch:
        ch = False
        for l, r in g['rules']:
            v = min(INF, sum(1 if t == 't' else mn[k] for t, k in r))
            if v < mn[l]: mn[l] = v; ch = True
    mx = list(mn)        # unproductive nonterminals keep INF: every rule using them is pruned by its minimal length
    for _ in range(cap * nnt + 4):
        for l, r in g['rules']:
            if any(t == 'n' and mn[k] >= INF for t, k in r): continue
            v = min(INF, sum(1 if t == 't' else mx[k] for t, k in r))
            if v > mx[l]: mx[l] = v
    nullable = [mn[x] == 0 for x in range(nnt)]
    dep = {x: set() for x in range(nnt)}       # x depends (same span) on y
    for l, r in g['rules']:
        for i, (t, k) in enumerate(r):
            if t != 'n': continue
            if all(tt == 'n' and nullable[kk] for j, (tt, kk) in enumerate(r) if j != i): dep[l].add(k)
    order = []; state = {}
    cyclic = [False]
    def visit(x):
        if state.get(x) == 2: return
        if state.get(x) == 1: cyclic[0] = True; return
        state[x] = 1
        for y in sorted(dep[x]): visit(y)
        state[x] = 2; order.append(x)
    for x in range(nnt): visit(x)
    return {'min': mn, 'max': mx, 'nullable': nullable, 'order': order, 'cyclic': cyclic[0]}


# ------------------------------------------------------------------------------------------------ Python reference (concrete words)
def fold(rid, popped):
    v = rid + 1
    for c in popped: v = (v * 31 + c) & M31
    return v


def cyk(g, w):
    """saturating derivation counts {0,1,2} of every nonterminal over every span of the concrete word w, by Kleene iteration over the whole table
    (no span ordering, no pruning: deliberately a different algorithm from the harness oracle); returns (count, value) accessors"""
    n = len(w); nnt = g['nnt']
    cnt = [[[0] * (n + 1) for _ in range(n + 1)] for _ in range(nnt)]
    def symc(s, p, q):
        if s[0] == 't': return 1 if q == p + 1 and w[p] == s[1] else 0
        return cnt[s[1]][p][q]
    def ways(r, k, p, j):
        if k == len(r): return 1 if p == j else 0
        tot = 0
        for q in range(p, j + 1):
            c = symc(r[k], p, q)
            if c: tot = min(2, tot + min(2, c * ways(r, k + 1, q, j)))
        return tot
    ch = True
    while ch:
        ch = False
        for i in range(n + 1):
            for j in range(i, n + 1):
                new = [0] * nnt
                for l, r in g['rules']: new[l] = min(2, new[l] + ways(r, 0, i, j))
                for x in range(nnt):
                    if new[x] != cnt[x][i][j]: cnt[x][i][j] = new[x]; ch = True
    def value(x, i, j):
        """fold of the unique derivation of x over w[i..j) (only meaningful when the count is 1)"""
        for rid, (l, r) in enumerate(g['rules']):
            if l != x: continue
            def split(k, p):
                if k == len(r): return [[]] if p == j else []
                out = []
                for q in range(p, j + 1):
                    if symc(r[k], p, q):
                        for rest in split(k + 1, q): out.append([(p, q)] + rest)
                return out
            sp = split(0, i)
            if sp:
                vals = [(w[p] + 1) if s[0] == 't' else value(s[1], p, q) for s, (p, q) in zip(r, sp[0])]
                return fold(rid, list(reversed(vals)))
        return None
    return cnt, value


def reference(g, prefix, w):
    """what the property says about the end-marked input w + [eof]: (accept, value or None, ambiguous)"""
    cnt, value = cyk(g, w)
    S = g['start']
    js = range(len(w) + 1) if prefix else [len(w)]
    at = next((j for j in js if cnt[S][0][j] >= 1), None)
    amb = any(cnt[S][0][j] >= 2 for j in range(len(w) + 1))
    members = [j for j in range(len(w) + 1) if cnt[S][0][j] >= 1]
    return {'accept': at is not None, 'at': at, 'count': cnt[S][0][at] if at is not None else 0,
            'value': value(S, 0, at) if at is not None and cnt[S][0][at] == 1 else None, 'ambiguous': amb, 'members': members}


def drive(tab, w, limit=400):
    """Python rendering of the driver loop over dumped tables; only used to size the unwinding bound of the real driver's loop (never a verdict)"""
    act = tab['action']; jump = tab['jump']
    states = [0]; ip = 0; steps = 0; depth = 1
    while steps < limit:
        steps += 1
        s = states[-1]
        if ip >= len(w) or s < 0 or s >= len(act): return steps, depth, None
        a = w[ip]
        if a >= len(act[s]): return steps, depth, False
        t, st, left, beta, rid = act[s][a]
        if t == 0: states.append(st); ip += 1
        elif t == 1:
            if beta >= len(states): return steps, depth, None
            del states[len(states) - beta:]
            states.append(jump[states[-1]][left])
        elif t == 2: return steps, depth, True
        else: return steps, depth, False
        depth = max(depth, len(states))
    return steps, depth, None


def words(alphabet, maxlen):
    for n in range(maxlen + 1):
        for w in itertools.product(alphabet, repeat=n): yield list(w)


# ------------------------------------------------------------------------------------------------ native generator
_native = {}


def native_tool(wd):
    """build native/lr_dump.cpp against /repo's working tree (real libstdc++)"""
    key = (wd, fw.REPO)
    if key in _native: return _native[key]
    exe = os.path.join(wd, 'lr_dump')
    R = fw.REPO
    srcs = [os.path.join(fw.VERIF, 'native', 'lr_dump.cpp')] + [os.path.join(R, 'Compiler/src/ParserGenerator', f) for f in ('grammar.cpp', 'lrdea.cpp')]
    p = subprocess.run(['g++', '-std=c++20', '-O1', '-fno-access-control', '-w', '-I' + R, '-I' + os.path.join(R, 'Compiler/include')] + srcs + ['-o', exe],
                       stdout=subprocess.PIPE, stderr=subprocess.PIPE, text=True)
    if p.returncode != 0: raise e1.BuildError('native build of lr_dump failed: ' + p.stderr[-1500:])
    _native[key] = exe
    return exe


def native_dump(wd, lines, timeout=600, chunk=400, workers=8):
    """run the real generator on every line; returns one dict per line ({'crash': ...} for a line that killed the tool)"""
    exe = native_tool(wd)
    def run(block):
        try:
            p = subprocess.run([exe], input='\n'.join(block) + '\n', stdout=subprocess.PIPE, stderr=subprocess.PIPE, text=True, timeout=timeout)
            outs = [json.loads(l) for l in p.stdout.splitlines() if l.strip()]
            rc = p.returncode; err = p.stderr[-400:]
        except subprocess.TimeoutExpired as ex:
            outs = [json.loads(l) for l in (ex.stdout or b'').decode(errors='replace').splitlines() if l.strip().endswith('}')]; rc = -9; err = 'timeout'
        if len(outs) == len(block): return outs
        if len(block) == 1: return [{'crash': True, 'rc': rc, 'stderr': err, 'line': block[0]}]
        # the tool died on some line: isolate it
        k = len(outs)
        return outs + run([block[k]]) + (run(block[k + 1:]) if k + 1 < len(block) else [])
    blocks = [lines[i:i + chunk] for i in range(0, len(lines), chunk)]
    with concurrent.futures.ThreadPoolExecutor(max_workers=workers) as ex:
        res = list(ex.map(run, blocks))
    return [d for b in res for d in b]


# ------------------------------------------------------------------------------------------------ data header of harness/lr_parse.cpp
def carr(name, rows, dims, ctype='int'):
    def lit(x): return '{' + ', '.join(lit(y) for y in x) + '}' if isinstance(x, (list, tuple)) else str(x)
    return 'static const %s %s%s = %s;' % (ctype, name, ''.join('[%d]' % d for d in dims), lit(rows))


def table_arrays(tab):
    """the dumped tables as one narrow constant array per field (a read of a constant table at a symbolic cell costs the solver in proportion to the
    element width: measured 8 500 clauses per read of an int[NS][W][5] cell field against 1 200 for unsigned char[NS][W])"""
    ns, w, jw = tab['nstates'], tab['action_width'], max(1, tab['jump_width'])
    act = tab['action']
    def field(k): return [[c[k] for c in row] for row in act]
    st = 'unsigned char' if ns < 256 else 'unsigned short'
    o = [carr('LR_T', field(0), [ns, w], 'unsigned char'), carr('LR_ST', field(1), [ns, w], st), carr('LR_LEFT', field(2), [ns, w], 'unsigned char'),
         carr('LR_BETA', field(3), [ns, w], 'unsigned char'), carr('LR_RID', [[max(0, x) for x in r] for r in field(4)], [ns, w], 'unsigned char'),
         carr('LR_JUMP', [r if r else [-1] for r in tab['jump']], [ns, jw], 'short')]
    return o


def make_header(g, tab, n, *, prefix, values=True, run_driver=True, assert_unamb=True, assert_prefixfree=False, exists_witness=False, alphabet=None, note=''):
    """tab: dump of the native generator (or None when the driver is not run)"""
    cap = n + 1
    an = analyse(g, cap)
    rules = g['rules']; maxlen = max([len(r) for _, r in rules] + [1]); nr = len(rules)
    def smin(s): return 1 if s[0] == 't' else an['min'][s[1]]
    def smax(s): return 1 if s[0] == 't' else an['max'][s[1]]
    sym = [[(s[1] if s[0] == 't' else -(s[1] + 1)) for s in r] + [0] * (maxlen - len(r)) for _, r in rules]
    symmin = [[smin(s) for s in r] + [0] * (maxlen - len(r)) for _, r in rules]
    symmax = [[smax(s) for s in r] + [0] * (maxlen - len(r)) for _, r in rules]
    sufmin = [[min(cap, sum(smin(s) for s in r[k:])) for k in range(len(r))] + [0] * (maxlen + 1 - len(r)) for _, r in rules]
    rounds = (2 * g['nnt'] + 2) if an['cyclic'] else 1
    o = ['// generated by lib/lrtv.py: %s' % note, '// grammar: ' + gtext(g) if g['nnt'] <= 10 else '// grammar: %d rules' % nr]
    D = {'LR_N': n, 'LR_NNT': g['nnt'], 'LR_START': g['start'], 'LR_EOF': g['eof'], 'LR_NRULES': nr, 'LR_MAXLEN': maxlen, 'LR_ROUNDS': rounds,
         'LR_PREFIX': 1 if prefix else 0, 'LR_VALUES': 1 if values else 0, 'LR_RUN_DRIVER': 1 if run_driver else 0,
         'LR_ASSERT_UNAMBIGUOUS': 1 if assert_unamb else 0, 'LR_ASSERT_PREFIXFREE': 1 if assert_prefixfree else 0, 'LR_EXISTS_WITNESS': 1 if exists_witness else 0}
    if tab is not None:
        D.update({'LR_NS': tab['nstates'], 'LR_W': tab['action_width'], 'LR_JW': max(1, tab['jump_width']), 'LR_TMAX': tab['max_used_terminal']})
    else:
        D.update({'LR_NS': 1, 'LR_W': 1, 'LR_JW': 1, 'LR_TMAX': max([s[1] for _, r in rules for s in r if s[0] == 't'] + [g['eof']])})
    for k, v in D.items(): o.append('#define %s %d' % (k, v))
    o.append(carr('G_LHS', [l for l, _ in rules], [nr]))
    o.append(carr('G_LEN', [len(r) for _, r in rules], [nr]))
    o.append(carr('G_RID', list(range(nr)), [nr]))
    o.append(carr('G_SYM', sym, [nr, maxlen]))
    o.append(carr('G_SYMMIN', symmin, [nr, maxlen]))
    o.append(carr('G_SYMMAX', symmax, [nr, maxlen]))
    o.append(carr('G_SUFMIN', sufmin, [nr, maxlen + 1]))
    o.append(carr('G_ORDER', an['order'], [g['nnt']]))
    if alphabet is not None:
        o.append('#define LR_ALPHABET 1\n#define LR_NALPHA %d' % len(alphabet))
        o.append(carr('LR_ALPHA', list(alphabet), [len(alphabet)]))
    if tab is not None:
        o += table_arrays(tab)
    else:
        o += table_arrays({'nstates': 1, 'action_width': 1, 'jump_width': 1, 'action': [[[3, 0, 0, 0, -1]]], 'jump': [[-1]]})
    return '\n'.join(o) + '\n', {'rounds': rounds, 'maxlen': maxlen, 'analysis': an}


# ------------------------------------------------------------------------------------------------ C13: the grammar family
def family(maxsyms, nterm=2):
    """all grammars with start symbol A, at most 2 nonterminals (A, B), 1..2 alternatives for A, 0..2 for B, each alternative a sequence of at most
    `maxsyms` symbols over {terminals 0..nterm-1, A, B}; the empty sequence is an epsilon alternative; duplicate alternatives are kept (the smallest
    ambiguous grammars).  Up to renaming: terminals may be permuted, the order of the alternatives of one nonterminal is irrelevant to the language
    (it decides rule ids and the generator's traversal order: the canonical representative lists them sorted).  B without alternatives that is used by A
    is an unproductive (useless) symbol, B with alternatives that A does not use an unreachable one."""
    syms = [T(k) for k in range(nterm)] + [N(0), N(1)]
    alts = [tuple(a) for n in range(maxsyms + 1) for a in itertools.product(syms, repeat=n)]
    def multisets(lo, hi):
        out = []
        for k in range(lo, hi + 1): out += list(itertools.combinations_with_replacement(alts, k))
        return out
    seen = set(); fam = []
    perms = list(itertools.permutations(range(nterm)))
    def ren(alt_sets, pm): return tuple(tuple(sorted(tuple((t, pm[k]) if t == 't' else (t, k) for t, k in a) for a in s)) for s in alt_sets)
    for sa in multisets(1, 2):
        for sb in multisets(0, 2):
            key = min(ren((sa, sb), pm) for pm in perms)
            if key in seen: continue
            seen.add(key)
            ka, kb = key
            fam.append({'nnt': 2, 'start': 0, 'eof': nterm, 'rules': [(0, list(a)) for a in ka] + [(1, list(b)) for b in kb]})
    return fam


def features(g):
    """structural features used to stratify the sample (every stratum is represented)"""
    rules = g['rules']; f = set()
    an = analyse(g, 8)
    if any(len(r) == 0 for _, r in rules): f.add('eps')
    if any(r and r[0] == ('n', l) for l, r in rules): f.add('leftrec')
    if any(r and r[-1] == ('n', l) and len(r) > 1 for l, r in rules): f.add('rightrec')
    used_b = any(('n', 1) in r for l, r in rules if l == 0)
    has_b = any(l == 1 for l, _ in rules)
    if used_b and has_b: f.add('twoNT')
    if has_b and not used_b: f.add('unreachable')
    if any(an['min'][x] >= 8 for x in range(g['nnt']) if x == 0 or used_b): f.add('unproductive')
    if any(('n', 0) in r for l, r in rules if l == 1) and used_b: f.add('mutualrec')
    if any(an['nullable']): f.add('nullable')
    return f


def select(cands, k, seed):
    """stratified, seeded choice of k instances: round-robin over the feature signatures, larger tables first inside a stratum"""
    rnd = random.Random(seed)
    strata = {}
    for c in cands: strata.setdefault(tuple(sorted(c['features'])), []).append(c)
    for v in strata.values():
        rnd.shuffle(v); v.sort(key=lambda c: -c['tab']['nstates'])
    keys = sorted(strata); out = []
    while len(out) < k and any(strata.values()):
        for key in keys:
            if strata[key] and len(out) < k: out.append(strata[key].pop(0))
    return out


def random_family(maxsyms, count, seed, nterm=2):
    """seeded random members of the family with up to `maxsyms` symbols per alternative (the full family is too large to enumerate: about 7 million for 3)"""
    rnd = random.Random(seed)
    syms = [T(k) for k in range(nterm)] + [N(0), N(1)]
    def alt():
        n = rnd.choice([0, 1, 2, 2, 3, 3, 3][:maxsyms + 4])
        n = min(n, maxsyms)
        return [rnd.choice(syms) for _ in range(n)]
    out = []; seen = set()
    while len(out) < count:
        ra = [alt() for _ in range(rnd.choice([1, 2, 2]))]; rb = [alt() for _ in range(rnd.choice([0, 1, 2, 2]))]
        if max([len(a) for a in ra + rb] + [0]) < maxsyms: continue          # the members with shorter alternatives are enumerated exhaustively
        key = (tuple(sorted(map(tuple, ra))), tuple(sorted(map(tuple, rb))))
        if key in seen: continue
        seen.add(key)
        out.append({'nnt': 2, 'start': 0, 'eof': nterm, 'rules': [(0, list(a)) for a in key[0]] + [(1, list(b)) for b in key[1]]})
    return out


# ------------------------------------------------------------------------------------------------ the table view and its textual guard
VIEW_STUBS = {
    '_ZNSt6vectorIS_IN4Theo8LRParserIiiE6ActionEEEixEm': 'lr_view_action_row',
    '_ZNSt6vectorIN4Theo8LRParserIiiE6ActionEEixEm': 'lr_view_action_cell',
    '_ZNSt6vectorIS_IiEEixEm': 'lr_view_jump_row',
    '_ZNSt6vectorIiEixEm': 'lr_view_jump_cell',
    '_ZNSt6vectorIiE4backEv': 'lr_view_int_back',
    '_ZNSt6vectorIiE9push_backERKi': 'lr_view_int_push_back',
    '_ZNSt6vectorIiE8pop_backEv': 'lr_view_int_pop_back',
}


def view_stubs(cap_int):
    return dict(VIEW_STUBS, **{'_ZNKSt6__iterISt6__flatIiLi%dELb1EEiEdeEv' % cap_int: 'lr_view_int_deref'})


def driver_uses_references_immediately():
    """textual guard for the by-value table view of harness/lr_parse.cpp: inside LRParser::parse no reference or pointer is bound to a table row, a
    table cell, a stack top or the current token, and nothing is assigned through one.  Returns (ok, reason)."""
    src = open(os.path.join(fw.REPO, 'Compiler/include/ParserGenerator/lrparser.hpp')).read()
    m = re.search(r'LRParser<SemanticType, TokenType>::parse\(Iterable in\)\s*\{', src)
    if not m: return False, 'LRParser::parse(Iterable in) not found in lrparser.hpp'
    i = m.end(); depth = 1
    while i < len(src) and depth:
        depth += {'{': 1, '}': -1}.get(src[i], 0); i += 1
    body = re.sub(r'//[^\n]*', '', src[m.end():i])
    if re.search(r'(auto|int|Action|SemanticType|TokenType|\w+>)\s*(const\s*)?[&*]\s*\w+\s*(=|\{|\()', body):
        return False, 'parse() binds a reference or pointer'
    for mm in re.finditer(r'\b(action|jump)\s*\[', body):
        tail = body[mm.start():mm.start() + 80]
        if not re.match(r'action\[\w+\]\[\w+\]\.(t|state|beta|left)\b(?!\s*=[^=])|action\[\w+\]\[\w+\]\.action\(\w+\)|action\[\w+\]\.size\(\)|jump\[\w+\]\[\w+\]\s*[);,]', tail):
            return False, 'unexpected use of a table: ' + tail.split('\n')[0][:60]
    if re.search(r'\.back\(\)\s*=[^=]|\*\s*ip\s*=[^=]', body): return False, 'parse() assigns through back() or *ip'
    return True, ''


def parse_loops(cfile, entry):
    """CBMC loop ids of the real driver: (pop loop, main loop); identified by the pop_back call in the body of the pop loop"""
    p = subprocess.run(['cbmc', cfile, '--function', entry, '--show-loops'], stdout=subprocess.PIPE, stderr=subprocess.PIPE, text=True)
    loops = re.findall(r'Loop (\S+):\s*\n\s*file \S+ line (\d+) function (\S+)', p.stdout)
    src = open(cfile).read().split('\n')
    pop = main = None
    for lid, line, fn in loops:
        if fn != PARSE_FN: continue
        ctx = '\n'.join(src[max(0, int(line) - 14):int(line)])
        if 'pop_back' in ctx: pop = lid
        else: main = lid
    return pop, main


# ------------------------------------------------------------------------------------------------ jobs
def table_job(prop, tag, name, g, tab, n, wd, *, prefix, values=True, run_driver=True, assert_unamb=True, assert_prefixfree=False, exists_witness=False,
              alphabet=None, plain=False, timeout=300, what='', words_alphabet=None, extra_bounds=''):
    """one CBMC job over harness/lr_parse.cpp for one natively generated parser"""
    hdr, info = make_header(g, tab if run_driver else None, n, prefix=prefix, values=values, run_driver=run_driver, assert_unamb=assert_unamb,
                            assert_prefixfree=assert_prefixfree, exists_witness=exists_witness, alphabet=alphabet, note=name)
    dpath = os.path.join(wd, 'lr_%s.hpp' % re.sub(r'\W', '_', name))
    open(dpath, 'w').write(hdr)
    steps = depth = 0; loopy = False
    if run_driver:
        al = words_alphabet if words_alphabet is not None else [t for t in range(tab['max_used_terminal'] + 1) if t != g['eof']]
        if len(al) ** n <= 5000:
            for w in words(al, n):
                st, dp, acc = drive(tab, w + [g['eof']])
                steps = max(steps, st); depth = max(depth, dp); loopy = loopy or acc is None
        else:
            steps = 0
        if loopy or not steps: steps = max(steps, 6 * n + 10); depth = max(depth, n + 3)
    cap_int = max(n + 2, depth + 2, (tab or {}).get('jump_width', 1), 4)
    defines = ['LR_DATA="%s"' % dpath, 'LR_TAG="%s"' % tag, 'LR_CAP_INT=%d' % cap_int, 'LR_CAP_STATES=%d' % ((tab['nstates'] if plain else 1) if tab else 1),
               'LR_CAP_WIDTH=%d' % ((tab['action_width'] if plain else 1) if tab else 1), 'MINISTL_STR_CAP=12', 'MINISTL_MAP_CAP=1', 'MINISTL_VEC_CAP=2', 'MINISTL_FN_CAP=8']
    if plain: defines.append('LR_PLAIN=1')
    gl = max(n + 2, info['maxlen'] + 2, len(g['rules']) + 1, g['nnt'] + 1, info['rounds'] + 1)
    j = fw.Job(name, H_PARSE, 'h_lr_parse', tus=[], defines=defines, caps='caps_lr.hpp', unwind=gl, tags=[tag], native=False, timeout=timeout,
               ub_pat=r'^_ZN4Theo8LRParser|ministl: .*\((UB|throws)\)', stubs=None if plain else view_stubs(cap_int),
               what=what, bounds='inputs of at most %d tokens + end marker%s; driver loop <= %d iterations, stack depth <= %d (unwinding and capacity assertions)%s' %
               (n, '' if alphabet is None else ' over %d token kinds' % len(alphabet), steps + 1, cap_int, extra_bounds),
               functions=['Theo::LRParser<int,int>::parse', 'Theo::LRParser::generateParseTables (native, per instance)', 'Theo::elements / hull / jump (native, per instance)'],
               build_key=('lr', name), extra=['--object-bits', '10'])
    j.lr = {'grammar': g, 'prefix': prefix, 'n': n, 'steps': steps, 'maxlen': info['maxlen'], 'run_driver': run_driver, 'plain': plain, 'eof': g['eof'], 'header': dpath}
    return j


def run_parallel(jobs, wd, workers=8):
    """build AND solve inside the worker (hundreds of distinct harness instances: building them one after the other would dominate)"""
    def one(ij):
        i, j = ij
        try:
            j.cfile = e1.build(wd, 'j%d' % i, j.harness, j.tus, roots=[j.entry], stubs=j.stubs, defines=j.defines, caps=j.caps)
        except Exception as ex:
            j.error = 'build failed: ' + str(ex)[-1200:]; return j
        uws = dict(j.unwindset or {})
        if getattr(j, 'lr', None) and j.lr.get('run_driver'):
            pop, main = parse_loops(j.cfile, j.entry)
            if pop is None or main is None:
                j.error = 'loops of the driver not identified in the generated C (pop loop %s, main loop %s)' % (pop, main); return j
            uws[pop] = j.lr['maxlen'] + 2; uws[main] = j.lr['steps'] + 2
        j.result = e1.cbmc(j.cfile, j.entry, unwind=j.unwind, unwindset=uws, timeout=j.timeout, mem_gb=j.mem_gb, extra=j.extra)
        for suf in ('.linked.ll', '.opt.ll', '.harness.ll'):
            try: os.remove(j.cfile[:-2] + suf)
            except OSError: pass
        return j
    with concurrent.futures.ThreadPoolExecutor(max_workers=workers) as ex:
        list(ex.map(one, enumerate(jobs)))
    return jobs


# ------------------------------------------------------------------------------------------------ reference FIRST (textbook least fixpoint)
def ref_first(rules, nnt):
    """FIRST of every nonterminal by the textbook rules: least sets with  X -> Y1..Yk: FIRST(X) >= FIRST(Y1)\\{eps}, and FIRST(Yi+1)\\{eps} while Y1..Yi are
    nullable, eps if all are (k = 0 included).  Elements: ('t', k) and 'eps'."""
    F = [set() for _ in range(nnt)]
    ch = True
    while ch:
        ch = False
        for l, r in rules:
            add = set(); alln = True
            for s in r:
                fs = {s} if s[0] == 't' else F[s[1]]
                add |= {x for x in fs if x != 'eps'}
                if 'eps' not in fs: alln = False; break
            if alln: add.add('eps')
            if not add <= F[l]: F[l] |= add; ch = True
    return F


def ref_first_string(F, string):
    out = set(); alln = True
    for s in string:
        fs = {s} if s[0] == 't' else F[s[1]]
        out |= {x for x in fs if x != 'eps'}
        if 'eps' not in fs: alln = False; break
    if alln: out.add('eps')
    return out


def check_first(g, tab):
    """compare the FIRST sets the real generator computed (on the grammar augmented by S' -> S and E -> eof, as elements() does) with the reference.
    Returns a list of differences (empty: equal)."""
    nnt = g['nnt']
    rules = list(g['rules']) + [(nnt, [N(g['start'])]), (nnt + 1, [T(g['eof'])])]
    F = ref_first(rules, nnt + 2)
    def dec(s): return 'eps' if s[0] == 0 else ('t', s[1]) if s[0] == 1 else ('n', s[1])
    got = {dec(e['sym']): {dec(x) for x in e['first']} for e in tab['first_sets']}
    diffs = []
    for x in range(nnt + 2):
        have = got.get(('n', x), set())
        if have != F[x]: diffs.append({'symbol': 'nonterminal %d' % x, 'generator': sorted(map(str, have)), 'reference': sorted(map(str, F[x]))})
    used = {s for _, r in rules for s in r if s[0] == 't'}
    for t in sorted(used):
        if got.get(t) != {t}: diffs.append({'symbol': 'terminal %d' % t[1], 'generator': sorted(map(str, got.get(t, set()))), 'reference': [str(t)]})
    mt = max([t[1] for t in used] + [0])
    if tab['max_used_terminal'] != mt: diffs.append({'symbol': 'max_used_terminal', 'generator': tab['max_used_terminal'], 'reference': mt})
    for e in tab.get('first_strings', []):
        string = [dec(s) for s in e['string']]
        want = ref_first_string(F, string); have = {dec(x) for x in e['first']}
        if want != have: diffs.append({'symbol': 'first(%s)' % ' '.join(map(str, string)), 'generator': sorted(map(str, have)), 'reference': sorted(map(str, want))})
    return diffs
