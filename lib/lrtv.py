#!/usr/bin/env python3
"""Translation validation of the LR(1) table generator (C13 tables obligation, C12 pattern obligations).

The generator (hull/jump/elements/generateParseTables) cannot be executed symbolically (DESIGN.md 1 item 5).  It runs NATIVELY on every member of
an enumerated family (native/lr_dump.cpp, real libstdc++, real /repo sources); the SOLVER then validates what it produced: harness/lr_parse.cpp
executes the REAL driver LRParser<int,int>::parse symbolically on the dumped tables for ALL end-marked inputs up to a length bound, next to a
derivation-table (CYK-style) oracle of the instance's grammar.

Conventions shared by native/lr_dump.cpp, harness/lr_parse.cpp and the Python reference below
  * grammar = {'nnt': #nonterminals, 'start': index, 'eof': terminal index of the end marker, 'rules': [(lhs, [sym, ...]), ...]},
    sym = ('t', k) terminal k | ('n', k) nonterminal k; the position of a rule in 'rules' is its rule id;
  * Goedel-style semantic values (SemanticType = int): leaf value = creator(token) = token + 1; the action of rule r receives the popped values
    c1..ck (c1 = value of the LAST right-side symbol, as the driver pops them) and returns  v = r+1; for c in c1..ck: v = (v*31 + c) mod 2^31.
    The value of a derivation tree under these actions determines the tree up to hash collisions mod 2^31 (none inside the bounds used).
"""
import concurrent.futures, hashlib, itertools, json, os, random, re, subprocess, sys, time

sys.path.insert(0, os.path.dirname(os.path.abspath(__file__)))
import framework as fw, e1

H_PARSE = os.path.join(fw.VERIF, 'harness', 'lr_parse.cpp')
H_FIRST = os.path.join(fw.VERIF, 'harness', 'first_sets.cpp')
PARSE_FN = '_ZN4Theo8LRParserIiiE5parseISt6vectorIiEEENS1_11ParseResultET_'
M31 = 0x7fffffff


# ------------------------------------------------------------------------------------------------ grammars
def T(k): return ('t', k)
def N(k): return ('n', k)


def gline(g, prefix, word=None):
    """one input line of native/lr_dump.cpp"""
    rules = ';'.join('%d:%s' % (l, ','.join('%s%d' % s for s in r)) for l, r in g['rules']) or '-'
    s = 'G %d %d %d %d %s' % (1 if prefix else 0, g['eof'], g['nnt'], g['start'], rules)
    if word is not None:
        s += ' # ' + ' '.join(map(str, word))
    return s


def gtext(g, names='ABCDEFGHIJ', tnames=None):
    tn = tnames or (lambda k: 'abcdefghij'[k] if k < 10 else 't%d' % k)
    nn = (lambda k: names[k]) if not callable(names) else names
    by = {}
    for l, r in g['rules']:
        by.setdefault(l, []).append(' '.join(tn(k) if t == 't' else nn(k) for t, k in r) or 'eps')
    return '; '.join('%s -> %s' % (nn(l), ' | '.join(a)) for l, a in sorted(by.items())) + ' (start %s)' % nn(g['start'])


def analyse(g, cap):
    """minimal / maximal yield lengths (capped at cap), nullability, productivity, same-span dependency order"""
    nnt = g['nnt']; INF = cap
    mn = [INF] * nnt
    ch = True
    while ch:
        ch = False
        for l, r in g['rules']:
            v = min(INF, sum(1 if t == 't' else mn[k] for t, k in r))
            if v < mn[l]: mn[l] = v; ch = True
    mx = list(mn)        # unproductive nonterminals keep INF: every rule using them is pruned by its minimal length
    for _ in range(cap * nnt + 4):
        for l, r in g['rules']:
            if any(t == 'n' and mn[k] >= INF for t, k in r): continue
            v = min(INF, sum(1 if t == 't' else mx[k] for t, k in r))
            if v > mx[l]: mx[l] = v
    nullable = [mn[x] == 0 for x in range(nnt)]
    dep = {x: set() for x in range(nnt)}       # x depends (same span) on y
    for l, r in g['rules']:
        for i, (t, k) in enumerate(r):
            if t != 'n': continue
            if all(tt == 'n' and nullable[kk] for j, (tt, kk) in enumerate(r) if j != i): dep[l].add(k)
    order = []; state = {}
    cyclic = [False]
    def visit(x):
        if state.get(x) == 2: return
        if state.get(x) == 1: cyclic[0] = True; return
        state[x] = 1
        for y in sorted(dep[x]): visit(y)
        state[x] = 2; order.append(x)
    for x in range(nnt): visit(x)
    return {'min': mn, 'max': mx, 'nullable': nullable, 'order': order, 'cyclic': cyclic[0]}


# ------------------------------------------------------------------------------------------------ Python reference (concrete words)
def fold(rid, popped):
    v = rid + 1
    for c in popped: v = (v * 31 + c) & M31
    return v


def cyk(g, w):
    """saturating derivation counts {0,1,2} of every nonterminal over every span of the concrete word w, by Kleene iteration over the whole table
    (no span ordering, no pruning: deliberately a different algorithm from the harness oracle); returns (count, value) accessors"""
    n = len(w); nnt = g['nnt']
    cnt = [[[0] * (n + 1) for _ in range(n + 1)] for _ in range(nnt)]
    def symc(s, p, q):
        if s[0] == 't': return 1 if q == p + 1 and w[p] == s[1] else 0
        return cnt[s[1]][p][q]
    def ways(r, k, p, j):
        if k == len(r): return 1 if p == j else 0
        tot = 0
        for q in range(p, j + 1):
            c = symc(r[k], p, q)
            if c: tot = min(2, tot + min(2, c * ways(r, k + 1, q, j)))
        return tot
    ch = True
    while ch:
        ch = False
        for i in range(n + 1):
            for j in range(i, n + 1):
                new = [0] * nnt
                for l, r in g['rules']: new[l] = min(2, new[l] + ways(r, 0, i, j))
                for x in range(nnt):
                    if new[x] != cnt[x][i][j]: cnt[x][i][j] = new[x]; ch = True
    def value(x, i, j):
        """fold of the unique derivation of x over w[i..j) (only meaningful when the count is 1)"""
        for rid, (l, r) in enumerate(g['rules']):
            if l != x: continue
            def split(k, p):
                if k == len(r): return [[]] if p == j else []
                out = []
                for q in range(p, j + 1):
                    if symc(r[k], p, q):
                        for rest in split(k + 1, q): out.append([(p, q)] + rest)
                return out
            sp = split(0, i)
            if sp:
                vals = [(w[p] + 1) if s[0] == 't' else value(s[1], p, q) for s, (p, q) in zip(r, sp[0])]
                return fold(rid, list(reversed(vals)))
        return None
    return cnt, value


def reference(g, prefix, w):
    """what the property says about the end-marked input w + [eof]: (accept, value or None, ambiguous)"""
    cnt, value = cyk(g, w)
    S = g['start']
    js = range(len(w) + 1) if prefix else [len(w)]
    at = next((j for j in js if cnt[S][0][j] >= 1), None)
    amb = any(cnt[S][0][j] >= 2 for j in range(len(w) + 1))
    members = [j for j in range(len(w) + 1) if cnt[S][0][j] >= 1]
    return {'accept': at is not None, 'at': at, 'count': cnt[S][0][at] if at is not None else 0,
            'value': value(S, 0, at) if at is not None and cnt[S][0][at] == 1 else None, 'ambiguous': amb, 'members': members}


def drive(tab, w, limit=400):
    """Python rendering of the driver loop over dumped tables; only used to size the unwinding bound of the real driver's loop (never a verdict)"""
    act = tab['action']; jump = tab['jump']
    states = [0]; ip = 0; steps = 0; depth = 1
    while steps < limit:
        steps += 1
        s = states[-1]
        if ip >= len(w) or s < 0 or s >= len(act): return steps, depth, None
        a = w[ip]
        if a >= len(act[s]): return steps, depth, False
        t, st, left, beta, rid = act[s][a]
        if t == 0: states.append(st); ip += 1
        elif t == 1:
            if beta >= len(states): return steps, depth, None
            del states[len(states) - beta:]
            states.append(jump[states[-1]][left])
        elif t == 2: return steps, depth, True
        else: return steps, depth, False
        depth = max(depth, len(states))
    return steps, depth, None


def words(alphabet, maxlen):
    for n in range(maxlen + 1):
        for w in itertools.product(alphabet, repeat=n): yield list(w)


# ------------------------------------------------------------------------------------------------ native generator
_native = {}


def native_tool(wd, san=False):
    """build native/lr_dump.cpp against /repo's working tree (real libstdc++); san: with ASan + UBSan + libstdc++ assertions (replay of container-precondition counterexamples)"""
    key = (wd, fw.REPO, san)
    if key in _native: return _native[key]
    exe = os.path.join(wd, 'lr_dump_san' if san else 'lr_dump')
    R = fw.REPO
    srcs = [os.path.join(fw.VERIF, 'native', 'lr_dump.cpp')] + [os.path.join(R, 'Compiler/src/ParserGenerator', f) for f in ('grammar.cpp', 'lrdea.cpp')]
    flags = ['-g', '-fsanitize=address,undefined', '-fno-sanitize-recover=undefined', '-D_GLIBCXX_ASSERTIONS'] if san else []
    p = subprocess.run(['g++', '-std=c++20', '-O1', '-fno-access-control', '-w'] + flags + ['-I' + R, '-I' + os.path.join(R, 'Compiler/include')] + srcs + ['-o', exe],
                       stdout=subprocess.PIPE, stderr=subprocess.PIPE, text=True)
    if p.returncode != 0: raise e1.BuildError('native build of lr_dump failed: ' + p.stderr[-1500:])
    _native[key] = exe
    return exe


def native_dump(wd, lines, timeout=600, chunk=400, workers=8, san=False):
    """run the real generator on every line; returns one dict per line ({'crash': ...} for a line that killed the tool)"""
    exe = native_tool(wd, san)
    env = dict(os.environ, ASAN_OPTIONS='detect_leaks=0:abort_on_error=0', UBSAN_OPTIONS='print_stacktrace=0')
    def run(block):
        try:
            p = subprocess.run([exe], env=env, input='\n'.join(block) + '\n', stdout=subprocess.PIPE, stderr=subprocess.PIPE, text=True, timeout=timeout)
            outs = [json.loads(l) for l in p.stdout.splitlines() if l.strip()]
            rc = p.returncode; err = p.stderr[-400:]
        except subprocess.TimeoutExpired as ex:
            outs = [json.loads(l) for l in (ex.stdout or b'').decode(errors='replace').splitlines() if l.strip().endswith('}')]; rc = -9; err = 'timeout'
        if len(outs) == len(block): return outs
        if len(block) == 1: return [{'crash': True, 'rc': rc, 'stderr': err, 'line': block[0]}]
        # the tool died on some line: isolate it
        k = len(outs)
        return outs + run([block[k]]) + (run(block[k + 1:]) if k + 1 < len(block) else [])
    blocks = [lines[i:i + chunk] for i in range(0, len(lines), chunk)]
    with concurrent.futures.ThreadPoolExecutor(max_workers=workers) as ex:
        res = list(ex.map(run, blocks))
    return [d for b in res for d in b]


# ------------------------------------------------------------------------------------------------ data header of harness/lr_parse.cpp
def carr(name, rows, dims, ctype='int'):
    def lit(x): return '{' + ', '.join(lit(y) for y in x) + '}' if isinstance(x, (list, tuple)) else str(x)
    return 'static const %s %s%s = %s;' % (ctype, name, ''.join('[%d]' % d for d in dims), lit(rows))


def table_arrays(tab):
    """the dumped tables as constant data: one packed word per action cell (type:2 | state:10 | left:4 | beta:4 | rule id:5) and a short per jump cell
    (the cost of reading a constant table at a symbolic cell is dominated by decoding the index: one read per access instead of one per field)"""
    ns, w, jw = tab['nstates'], tab['action_width'], max(1, tab['jump_width'])
    def pack(c):
        t, st, left, beta, rid = c; rid = max(0, rid)
        if not (0 <= t < 4 and 0 <= st < 1024 and 0 <= left < 16 and 0 <= beta < 16 and 0 <= rid < 32): raise e1.BuildError('table cell outside the packed layout: %s' % (c,))
        return '%du' % (t | st << 2 | left << 12 | beta << 16 | rid << 20)
    o = [carr('LR_CELL', [[pack(c) for c in row] for row in tab['action']], [ns, w], 'unsigned'),
         carr('LR_JUMP', [r if r else [-1] for r in tab['jump']], [ns, jw], 'short')]
    if ns * w > 64:
        # large tables: a constant array of more than 64 elements read at a symbolic index goes through the solver's array theory (measured: 53-160 s for a
        # 63 x 22 table); the same function as straight-line code: the most frequent value of the row, then one masked selection per differing cell
        import collections
        rowdef = []; exc = []
        for si, row in enumerate(tab['action']):
            vals = [int(pack(c)[:-1]) for c in row]
            d = collections.Counter(vals).most_common(1)[0][0]; rowdef.append(d)
            exc += [((si << 8) | a, v) for a, v in enumerate(vals) if v != d]
        o.append('#define LR_SPARSE 1')
        o.append('static inline unsigned lr_cell(unsigned s, unsigned a) {\n  unsigned r = 0u, m; const unsigned key = (s << 8) | a;')
        for si, d in enumerate(rowdef): o.append('  m = 0u - (unsigned)(s == %du); r |= %du & m;' % (si, d))
        for k, v in exc: o.append('  m = 0u - (unsigned)(key == %du); r = (%du & m) | (r & ~m);' % (k, v))
        o.append('  return r;\n}')
        o.append('static inline int lr_jump(unsigned s, unsigned x) {\n  unsigned r = 0xffffffffu, m; const unsigned key = (s << 8) | x;')
        for si, row in enumerate(tab['jump']):
            for x, v in enumerate(row):
                if v != -1: o.append('  m = 0u - (unsigned)(key == %du); r = (%du & m) | (r & ~m);' % ((si << 8) | x, v))
        o.append('  return (int)r;\n}')
    return o


def make_header(g, tab, n, *, prefix, values=True, run_driver=True, assert_unamb=True, assert_prefixfree=False, exists_witness=False, alphabet=None, note='', check_first=False):
    """tab: dump of the native generator (or None when the driver is not run)"""
    cap = n + 1
    an = analyse(g, cap)
    rules = g['rules']; maxlen = max([len(r) for _, r in rules] + [1]); nr = len(rules)
    def smin(s): return 1 if s[0] == 't' else an['min'][s[1]]
    def smax(s): return 1 if s[0] == 't' else an['max'][s[1]]
    sym = [[(s[1] if s[0] == 't' else -(s[1] + 1)) for s in r] + [0] * (maxlen - len(r)) for _, r in rules]
    symmin = [[smin(s) for s in r] + [0] * (maxlen - len(r)) for _, r in rules]
    symmax = [[smax(s) for s in r] + [0] * (maxlen - len(r)) for _, r in rules]
    sufmin = [[min(cap, sum(smin(s) for s in r[k:])) for k in range(len(r))] + [0] * (maxlen + 1 - len(r)) for _, r in rules]
    rounds = (2 * g['nnt'] + 2) if an['cyclic'] else 1
    o = ['// generated by lib/lrtv.py: %s' % note, '// grammar: ' + gtext(g) if g['nnt'] <= 10 else '// grammar: %d rules' % nr]
    D = {'LR_N': n, 'LR_NNT': g['nnt'], 'LR_START': g['start'], 'LR_EOF': g['eof'], 'LR_NRULES': nr, 'LR_MAXLEN': maxlen, 'LR_ROUNDS': rounds,
         'LR_PREFIX': 1 if prefix else 0, 'LR_VALUES': 1 if values else 0, 'LR_RUN_DRIVER': 1 if run_driver else 0,
         'LR_ASSERT_UNAMBIGUOUS': 1 if assert_unamb else 0, 'LR_ASSERT_PREFIXFREE': 1 if assert_prefixfree else 0, 'LR_EXISTS_WITNESS': 1 if exists_witness else 0}
    if tab is not None:
        D.update({'LR_NS': tab['nstates'], 'LR_W': tab['action_width'], 'LR_JW': max(1, tab['jump_width']), 'LR_TMAX': tab['max_used_terminal']})
    else:
        D.update({'LR_NS': 1, 'LR_W': 1, 'LR_JW': 1, 'LR_TMAX': max([s[1] for _, r in rules for s in r if s[0] == 't'] + [g['eof']])})
    for k, v in D.items(): o.append('#define %s %d' % (k, v))
    o.append(carr('G_LHS', [l for l, _ in rules], [nr]))
    o.append(carr('G_LEN', [len(r) for _, r in rules], [nr]))
    o.append(carr('G_RID', list(range(nr)), [nr]))
    o.append(carr('G_SYM', sym, [nr, maxlen]))
    o.append(carr('G_SYMMIN', symmin, [nr, maxlen]))
    o.append(carr('G_SYMMAX', symmax, [nr, maxlen]))
    o.append(carr('G_SUFMIN', sufmin, [nr, maxlen + 1]))
    o.append(carr('G_ORDER', an['order'], [g['nnt']]))
    if check_first and tab is not None:
        masks = [0] * g['nnt']
        for e in tab['first_sets']:
            if e['sym'][0] == 2 and e['sym'][1] < g['nnt']:
                for x in e['first']: masks[e['sym'][1]] |= (0x80000000 if x[0] == 0 else (1 << x[1]))
        o.append('#define LR_CHECK_FIRST 1')
        o.append(carr('LR_FIRSTMASK', ['%du' % m for m in masks], [g['nnt']], 'unsigned'))
    if alphabet is not None:
        o.append('#define LR_ALPHABET 1\n#define LR_NALPHA %d' % len(alphabet))
        o.append(carr('LR_ALPHA', list(alphabet), [len(alphabet)]))
    if tab is not None:
        o += table_arrays(tab)
    else:
        o += table_arrays({'nstates': 1, 'action_width': 1, 'jump_width': 1, 'action': [[[3, 0, 0, 0, -1]]], 'jump': [[-1]]})
    return '\n'.join(o) + '\n', {'rounds': rounds, 'maxlen': maxlen, 'analysis': an}


# ------------------------------------------------------------------------------------------------ C13: the grammar family
def family(maxsyms, nterm=2):
    """all grammars with start symbol A, at most 2 nonterminals (A, B), 1..2 alternatives for A, 0..2 for B, each alternative a sequence of at most
    `maxsyms` symbols over {terminals 0..nterm-1, A, B}; the empty sequence is an epsilon alternative; duplicate alternatives are kept (the smallest
    ambiguous grammars).  Up to renaming: terminals may be permuted, the order of the alternatives of one nonterminal is irrelevant to the language
    (it decides rule ids and the generator's traversal order: the canonical representative lists them sorted).  B without alternatives that is used by A
    is an unproductive (useless) symbol, B with alternatives that A does not use an unreachable one."""
    syms = [T(k) for k in range(nterm)] + [N(0), N(1)]
    alts = [tuple(a) for n in range(maxsyms + 1) for a in itertools.product(syms, repeat=n)]
    def multisets(lo, hi):
        out = []
        for k in range(lo, hi + 1): out += list(itertools.combinations_with_replacement(alts, k))
        return out
    seen = set(); fam = []
    perms = list(itertools.permutations(range(nterm)))
    def ren(alt_sets, pm): return tuple(tuple(sorted(tuple((t, pm[k]) if t == 't' else (t, k) for t, k in a) for a in s)) for s in alt_sets)
    for sa in multisets(1, 2):
        for sb in multisets(0, 2):
            key = min(ren((sa, sb), pm) for pm in perms)
            if key in seen: continue
            seen.add(key)
            ka, kb = key
            fam.append({'nnt': 2, 'start': 0, 'eof': nterm, 'rules': [(0, list(a)) for a in ka] + [(1, list(b)) for b in kb]})
    return fam


def chain_family(count, seed):
    """grammars with FOUR nonterminals N0 (start) .. N3, one alternative each from {epsilon, Nj, a, Nj a, Nj Nk, Nj Nk a} (j, k != own index), start with an
    optional second alternative: the family of nullability / unit-rule chains of depth up to 3 in every order of the rule indices (the fixpoint
    computations of FIRST and of the closure visit rules in index order, so the order decides how many rounds they need).  4096 + seeded sample."""
    def pool(i, rich):
        o = [x for x in range(4) if x != i]
        p = [[]] + [[N(j)] for j in o] + [[T(0)]] + [[N(j), T(0)] for j in o]
        if rich: p += [[N(j), N(k)] for j in o for k in o] + [[N(j), N(k), T(1)] for j in o for k in o if j < k]
        return p
    fam = []
    for alts in itertools.product(*[pool(i, False) for i in range(4)]):
        fam.append({'nnt': 4, 'start': 0, 'eof': 2, 'rules': [(i, list(a)) for i, a in enumerate(alts)]})
    rnd = random.Random(seed + 77)
    seen = set()
    while len(seen) < count:
        alts = tuple(tuple(rnd.choice(pool(i, True))) for i in range(4))
        extra = tuple(rnd.choice(pool(0, True))) if rnd.random() < 0.5 else None
        if (alts, extra) in seen: continue
        seen.add((alts, extra))
        fam.append({'nnt': 4, 'start': 0, 'eof': 2, 'rules': [(i, list(a)) for i, a in enumerate(alts)] + ([(0, list(extra))] if extra is not None else [])})
    return fam


def null_depth(g):
    """number of rounds the textbook nullability fixpoint needs (1 = only direct epsilon alternatives)"""
    nul = set(); d = 0
    while True:
        new = {l for l, r in g['rules'] if l not in nul and all(t == 'n' and k in nul for t, k in r)}
        if not new: return d
        nul |= new; d += 1


def features(g):
    """structural features used to stratify the sample (every stratum is represented)"""
    rules = g['rules']; f = set()
    an = analyse(g, 8)
    if any(len(r) == 0 for _, r in rules): f.add('eps')
    if any(r and r[0] == ('n', l) for l, r in rules): f.add('leftrec')
    if any(r and r[-1] == ('n', l) and len(r) > 1 for l, r in rules): f.add('rightrec')
    used_b = any(('n', 1) in r for l, r in rules if l == 0)
    has_b = any(l == 1 for l, _ in rules)
    if used_b and has_b: f.add('twoNT')
    if has_b and not used_b: f.add('unreachable')
    if any(an['min'][x] >= 8 for x in range(g['nnt']) if x == 0 or used_b): f.add('unproductive')
    if any(('n', 0) in r for l, r in rules if l == 1) and used_b: f.add('mutualrec')
    if any(an['nullable']): f.add('nullable')
    if g['nnt'] > 2: f.add('fourNT')
    if null_depth(g) >= 3: f.add('nullchain3')
    return f


def select(cands, k, seed):
    """stratified, seeded choice of k instances: round-robin over the feature signatures, larger tables first inside a stratum"""
    rnd = random.Random(seed)
    strata = {}
    for c in cands: strata.setdefault(tuple(sorted(c['features'])), []).append(c)
    for v in strata.values():
        rnd.shuffle(v); v.sort(key=lambda c: -c['tab']['nstates'])
    keys = sorted(strata); out = []
    while len(out) < k and any(strata.values()):
        for key in keys:
            if strata[key] and len(out) < k: out.append(strata[key].pop(0))
    return out


def random_family(maxsyms, count, seed, nterm=2):
    """seeded random members of the family with up to `maxsyms` symbols per alternative (the full family is too large to enumerate: about 7 million for 3)"""
    rnd = random.Random(seed)
    syms = [T(k) for k in range(nterm)] + [N(0), N(1)]
    def alt():
        n = rnd.choice([0, 1, 2, 2, 3, 3, 3][:maxsyms + 4])
        n = min(n, maxsyms)
        return [rnd.choice(syms) for _ in range(n)]
    out = []; seen = set()
    while len(out) < count:
        ra = [alt() for _ in range(rnd.choice([1, 2, 2]))]; rb = [alt() for _ in range(rnd.choice([0, 1, 2, 2]))]
        if max([len(a) for a in ra + rb] + [0]) < maxsyms: continue          # the members with shorter alternatives are enumerated exhaustively
        key = (tuple(sorted(map(tuple, ra))), tuple(sorted(map(tuple, rb))))
        if key in seen: continue
        seen.add(key)
        out.append({'nnt': 2, 'start': 0, 'eof': nterm, 'rules': [(0, list(a)) for a in key[0]] + [(1, list(b)) for b in key[1]]})
    return out


# ------------------------------------------------------------------------------------------------ the table view and its textual guard
VIEW_STUBS = {
    '_ZNSt6vectorIS_IN4Theo8LRParserIiiE6ActionEEEixEm': 'lr_view_action_row',
    '_ZNSt6vectorIN4Theo8LRParserIiiE6ActionEEixEm': 'lr_view_action_cell',
    '_ZNSt6vectorIS_IiEEixEm': 'lr_view_jump_row',
    '_ZNSt6vectorIiEixEm': 'lr_view_jump_cell',
    '_ZNSt6vectorIiE4backEv': 'lr_view_int_back',
    '_ZNSt6vectorIiE9push_backERKi': 'lr_view_int_push_back',
    '_ZNSt6vectorIiE8pop_backEv': 'lr_view_int_pop_back',
}


def view_stubs(cap_int):
    return dict(VIEW_STUBS, **{'_ZNKSt6__iterISt6__flatIiLi%dELb1EEiEdeEv' % cap_int: 'lr_view_int_deref'})


def driver_uses_references_immediately():
    """textual guard for the by-value view of harness/lr_parse.cpp (tables, stacks, current token): inside LRParser::parse every use of the tables
    (action, jump), of the stacks (states, values, popped) and of the input cursor (ip) has one of the forms listed below - each reads or writes
    through the container call it is part of and keeps no reference.  Anything else (a reference bound to a cell, an algorithm called on a stack, an
    assignment through back() ...) makes the view inapplicable; the obligations then run in plain mode with smaller bounds.  Returns (ok, reason)."""
    src = open(os.path.join(fw.REPO, 'Compiler/include/ParserGenerator/lrparser.hpp')).read()
    m = re.search(r'LRParser<SemanticType, TokenType>::parse\(Iterable in\)\s*\{', src)
    if not m: return False, 'LRParser::parse(Iterable in) not found in lrparser.hpp'
    i = m.end(); depth = 1
    while i < len(src) and depth:
        depth += {'{': 1, '}': -1}.get(src[i], 0); i += 1
    body = re.sub(r'//[^\n]*', '', src[m.end():i])
    body = re.sub(r'\s+', ' ', body)
    allowed = [
        r'auto ip = in\.begin\(\);', r'std::vector<int> states = \{0\};', r'std::vector<SemanticType> values = \{\};', r'std::vector<SemanticType> popped = \{\};',
        r'states\.back\(\)(?! ?=[^=])', r'values\.back\(\)(?! ?=[^=])', r'(states|values|popped)\.push_back\(', r'(states|values)\.pop_back\(\)',
        r'translator\(\*ip\)', r'creator\(\*ip\)', r'ip\+\+;',
        r'action\[\w+\]\[\w+\]\.(t|state|beta|left)\b(?! ?=[^=])', r'action\[\w+\]\[\w+\]\.action\(popped\)', r'action\[\w+\]\.size\(\)', r'jump\[\w+\]\[\w+\](?! ?=[^=])',
    ]
    rest = body
    for pat in allowed: rest = re.sub(pat, ' ', rest)
    left = re.search(r'\b(states|values|popped|ip|action|jump|in)\b(?!\w)', re.sub(r'\bint\b|\(int\)|Action::\w+|ParseResult\w*|"[^"]*"', ' ', rest))
    if left:
        ctx = rest[max(0, left.start() - 30):left.end() + 30]
        return False, 'use of %s outside the forms the view models: ...%s...' % (left.group(1), ctx.strip())
    if re.search(r'[&*] ?\w+ ?=[^=]', re.sub(r'\*ip', ' ', rest)): return False, 'parse() binds a reference or pointer'
    return True, ''


def parse_loops(cfile, entry):
    """CBMC loop ids of the real driver: (pop loop, main loop); identified by the pop_back call in the body of the pop loop"""
    p = subprocess.run(['cbmc', cfile, '--function', entry, '--show-loops'], stdout=subprocess.PIPE, stderr=subprocess.PIPE, text=True)
    loops = re.findall(r'Loop (\S+):\s*\n\s*file \S+ line (\d+) function (\S+)', p.stdout)
    src = open(cfile).read().split('\n')
    pop = main = None
    for lid, line, fn in loops:
        if fn != PARSE_FN: continue
        ctx = '\n'.join(src[max(0, int(line) - 14):int(line)])
        if 'pop_back' in ctx: pop = lid
        else: main = lid
    return pop, main


# ------------------------------------------------------------------------------------------------ jobs
def table_job(prop, tag, name, g, tab, n, wd, *, prefix, values=True, run_driver=True, assert_unamb=True, assert_prefixfree=False, exists_witness=False,
              alphabet=None, plain=False, timeout=300, what='', words_alphabet=None, extra_bounds='', check_first=False, generated_oracle=True):
    """one CBMC job over harness/lr_parse.cpp for one natively generated parser"""
    hdr, info = make_header(g, tab if run_driver else None, n, prefix=prefix, values=values, run_driver=run_driver, assert_unamb=assert_unamb,
                            assert_prefixfree=assert_prefixfree, exists_witness=exists_witness, alphabet=alphabet, note=name, check_first=check_first)
    dpath = os.path.join(wd, 'lr_%s.hpp' % re.sub(r'\W', '_', name))
    open(dpath, 'w').write(hdr)
    gen = gen_oracle(g, n, values=values, all_nts=check_first) if generated_oracle else None
    opath = None
    if gen is not None:
        opath = os.path.join(wd, 'lr_%s.oracle.hpp' % re.sub(r'\W', '_', name)); open(opath, 'w').write(gen[0])
    steps = depth = 0; loopy = False; loop_word = None
    if run_driver:
        al = words_alphabet if words_alphabet is not None else [t for t in range(tab['max_used_terminal'] + 1) if t != g['eof']]
        if len(al) ** n <= 5000:
            for w in words(al, n):
                st, dp, acc = drive(tab, w + [g['eof']])
                if acc is None and st >= 400:
                    loopy = True; loop_word = loop_word if loop_word is not None else w
                    continue
                steps = max(steps, st); depth = max(depth, dp)
        else:
            steps = 0
        if not steps: steps = 6 * n + 10; depth = max(depth, n + 3)
    cap_int = max(n + 2, depth + 2, (tab or {}).get('jump_width', 1), 4)
    defines = ['LR_DATA="%s"' % dpath, 'LR_TAG="%s"' % tag, 'LR_CAP_INT=%d' % cap_int, 'LR_CAP_STATES=%d' % ((tab['nstates'] if plain else 1) if tab else 1),
               'LR_CAP_WIDTH=%d' % ((tab['action_width'] if plain else 1) if tab else 1), 'MINISTL_STR_CAP=12', 'MINISTL_MAP_CAP=1', 'MINISTL_VEC_CAP=2', 'MINISTL_FN_CAP=8']
    if plain: defines.append('LR_PLAIN=1')
    if opath: defines.append('LR_ORACLE="%s"' % opath)
    gl = max(n + 2, info['maxlen'] + 2, len(g['rules']) + 1, g['nnt'] + 1, info['rounds'] + 1)
    j = fw.Job(name, H_PARSE, 'h_lr_parse', tus=[], defines=defines, caps='caps_lr.hpp', unwind=gl, tags=[tag], native=False, timeout=timeout,
               ub_pat=r'^_ZN4Theo8LRParser|ministl: .*\((UB|throws)\)', stubs=None if plain else view_stubs(cap_int),
               what=what, bounds='inputs of at most %d tokens + end marker%s; driver loop <= %d iterations, stack depth <= %d (unwinding and capacity assertions)%s' %
               (n, '' if alphabet is None else ' over %d token kinds' % len(alphabet), steps + 1, cap_int, extra_bounds),
               functions=['Theo::LRParser<int,int>::parse', 'Theo::LRParser::generateParseTables (native, per instance)', 'Theo::elements / hull / jump (native, per instance)'],
               build_key=('lr', name), extra=['--object-bits', '10'])
    j.lr = {'grammar': g, 'prefix': prefix, 'n': n, 'steps': steps, 'maxlen': info['maxlen'], 'run_driver': run_driver, 'plain': plain, 'eof': g['eof'], 'header': dpath, 'loop_word': loop_word, 'oracle_terms': gen[1] if gen else None,
            'maxbeta': max([c[3] for row in tab['action'] for c in row if c[0] == 1] + [0]) if tab else 0, 'cost': (tab['nstates'] if tab and run_driver else 1) * (n + 1)}
    return j


def run_parallel(jobs, wd, workers=8):
    """build AND solve inside the worker (hundreds of distinct harness instances: building them one after the other would dominate)"""
    def one(ij):
        i, j = ij
        try:
            j.cfile = e1.build(wd, 'j%d' % i, j.harness, j.tus, roots=[j.entry], stubs=j.stubs, defines=j.defines, caps=j.caps)
        except Exception as ex:
            j.error = 'build failed: ' + str(ex)[-1200:]; return j
        uws = dict(j.unwindset or {})
        if getattr(j, 'lr', None) and j.lr.get('run_driver'):
            pop, main = parse_loops(j.cfile, j.entry)
            if pop is None or main is None:
                j.error = 'loops of the driver not identified in the generated C (pop loop %s, main loop %s)' % (pop, main); return j
            uws[pop] = j.lr.get('maxbeta', j.lr['maxlen']) + 2; uws[main] = j.lr['steps'] + 2
        j.result = e1.cbmc(j.cfile, j.entry, unwind=j.unwind, unwindset=uws, timeout=j.timeout, mem_gb=j.mem_gb, extra=j.extra)
        for suf in ('.linked.ll', '.opt.ll', '.harness.ll'):
            try: os.remove(j.cfile[:-2] + suf)
            except OSError: pass
        return j
    order = sorted(enumerate(jobs), key=lambda ij: -(getattr(ij[1], 'lr', None) or {}).get('cost', 0))       # expensive instances first (no long tail)
    with concurrent.futures.ThreadPoolExecutor(max_workers=workers) as ex:
        list(ex.map(one, order))
    return jobs


# ------------------------------------------------------------------------------------------------ reference FIRST (textbook least fixpoint)
def ref_first(rules, nnt):
    """FIRST of every nonterminal by the textbook rules: least sets with  X -> Y1..Yk: FIRST(X) >= FIRST(Y1)\\{eps}, and FIRST(Yi+1)\\{eps} while Y1..Yi are
    nullable, eps if all are (k = 0 included).  Elements: ('t', k) and 'eps'."""
    F = [set() for _ in range(nnt)]
    ch = True
    while ch:
        ch = False
        for l, r in rules:
            add = set(); alln = True
            for s in r:
                fs = {s} if s[0] == 't' else F[s[1]]
                add |= {x for x in fs if x != 'eps'}
                if 'eps' not in fs: alln = False; break
            if alln: add.add('eps')
            if not add <= F[l]: F[l] |= add; ch = True
    return F


def ref_first_string(F, string):
    out = set(); alln = True
    for s in string:
        fs = {s} if s[0] == 't' else F[s[1]]
        out |= {x for x in fs if x != 'eps'}
        if 'eps' not in fs: alln = False; break
    if alln: out.add('eps')
    return out


def compare_first(g, tab):
    """compare the FIRST sets the real generator computed (on the grammar augmented by S' -> S and E -> eof, as elements() does) with the reference.
    Returns a list of differences (empty: equal)."""
    nnt = g['nnt']
    rules = list(g['rules']) + [(nnt, [N(g['start'])]), (nnt + 1, [T(g['eof'])])]
    F = ref_first(rules, nnt + 2)
    def dec(s): return 'eps' if s[0] == 0 else ('t', s[1]) if s[0] == 1 else ('n', s[1])
    got = {dec(e['sym']): {dec(x) for x in e['first']} for e in tab['first_sets']}
    diffs = []
    for x in range(nnt + 2):
        have = got.get(('n', x), set())
        if have != F[x]: diffs.append({'symbol': 'nonterminal %d' % x, 'generator': sorted(map(str, have)), 'reference': sorted(map(str, F[x]))})
    used = {s for _, r in rules for s in r if s[0] == 't'}
    for t in sorted(used):
        if got.get(t) != {t}: diffs.append({'symbol': 'terminal %d' % t[1], 'generator': sorted(map(str, got.get(t, set()))), 'reference': [str(t)]})
    mt = max([t[1] for t in used] + [0])
    if tab['max_used_terminal'] != mt: diffs.append({'symbol': 'max_used_terminal', 'generator': tab['max_used_terminal'], 'reference': mt})
    for e in tab.get('first_strings', []):
        string = [dec(s) for s in e['string']]
        want = ref_first_string(F, string); have = {dec(x) for x in e['first']}
        if want != have: diffs.append({'symbol': 'first(%s)' % ' '.join(map(str, string)), 'generator': sorted(map(str, have)), 'reference': sorted(map(str, want))})
    return diffs


# ------------------------------------------------------------------------------------------------ C13 obligations
WORKERS = int(os.environ.get('VERIF_LR_WORKERS', '0')) or max(4, min(14, (os.cpu_count() or 8) - 2))


def c13_family(tier, seed):
    fam = family(2)
    note = 'all %d grammars with <= 2 nonterminals, <= 2 alternatives each, <= 2 symbols per alternative over 2 terminals, up to renaming of terminals' % len(fam)
    if tier == 'quick':
        rnd = random.Random(seed); full = len(fam)
        fam = rnd.sample(fam, 9000)
        note = 'seeded sample of 9000 of the %d grammars with <= 2 nonterminals, <= 2 alternatives each, <= 2 symbols per alternative over 2 terminals (up to renaming); thorough enumerates all' % full
    else:
        extra = random_family(3, 12000, seed)
        fam = fam + extra
        note += ' + %d seeded random grammars with an alternative of 3 symbols (that family has about 7 million members)' % len(extra)
    ch = chain_family(1500 if tier == 'quick' else 12000, seed)
    fam = fam + ch
    note += ' + %d grammars with 4 nonterminals (unit / nullability chains of depth <= 3 in every order of the rule indices: all 4096 with alternatives from {eps, Nj, a, Nj a}, the rest seeded with Nj Nk / Nj Nk b)' % len(ch)
    return fam, note


def c13_obligations(prop, tier, seed, wd, out):
    """native generation for the family (both modes), FIRST comparison for every member, solver jobs for a stratified sample of the conflict-free ones"""
    n = 4 if tier == 'quick' else 6
    per_mode = int(os.environ.get('VERIF_C13_PER_MODE', '0')) or (40 if tier == 'quick' else 260)
    view_ok, why = driver_uses_references_immediately()
    if not view_ok:
        # the driver no longer uses its tables/stacks in the forms the by-value view models: every job runs in plain mode (tables in the real private
        # vectors, read through the container model) - about 50 times more expensive per driver iteration, hence shorter inputs and fewer grammars
        n = 2; per_mode = min(per_mode, 12)
    fam, fam_note = c13_family(tier, seed)
    cov = {'table_access': 'by-value view of the dumped tables' if view_ok else 'plain mode (tables in the private vectors, container model): table view not applicable - %s' % why, 'family': fam_note, 'grammars_generated_natively': 0, 'modes': {}, 'first_sets_compared': 0, 'first_strings_compared': 0}
    jobs = []; meta = {}; loops = []
    first_bad = []
    for prefix in (False, True):
        mode = 'prefix' if prefix else 'full'
        tabs = native_dump(wd, [gline(g, prefix) for g in fam], workers=WORKERS)
        cov['grammars_generated_natively'] += len(tabs)
        crashed = [(g, t) for g, t in zip(fam, tabs) if t.get('crash')]
        for g, t in crashed[:5]:
            out.inconclusive.append('lr tables: the native generator did not return for %s in %s mode (rc %s)' % (gtext(g), mode, t.get('rc')))
        cands = []
        for g, t in zip(fam, tabs):
            if t.get('crash'): continue
            if not prefix:
                d = compare_first(g, t)
                cov['first_sets_compared'] += 1; cov['first_strings_compared'] += len(t.get('first_strings', []))
                if d: first_bad.append((g, d))
            if t['conflicts']: continue
            al = [k for k in range(t['max_used_terminal'] + 1) if k != g['eof']]
            acc = sum(1 for w in words(al, 3) if drive(t, w + [g['eof']], 60)[2])
            f = features(g) | {'lang:' + ('rich' if 3 <= acc <= 12 else 'poor')}
            cands.append({'g': g, 'tab': t, 'features': f})
        nontrivial = [c for c in cands if 'lang:rich' in c['features'] and (view_ok or c['tab']['nstates'] <= 8)]
        trivial = [c for c in cands if 'lang:rich' not in c['features'] and (view_ok or c['tab']['nstates'] <= 8)]
        k_triv = max(2, per_mode // 8)
        sel = select(nontrivial, per_mode - k_triv, seed) + select(trivial, k_triv, seed)
        cov['modes'][mode] = {'conflict_free': len(cands), 'with_conflicts': len(tabs) - len(cands) - len(crashed), 'validated_by_solver': len(sel)}
        if not cands:
            out.inconclusive.append('lr tables: the generator reported a conflict for every grammar of the family in %s mode: nothing to validate (vacuous)' % mode)
        for i, c in enumerate(sel):
            name = 'lr.%s.%d' % (mode, i)
            j = table_job(prop, prop, name, c['g'], c['tab'], n, wd, prefix=prefix, check_first=True, timeout=280 if tier == 'quick' else 900, plain=not view_ok,
                          what='%s mode, %s: real driver on the natively generated tables vs derivation table, all inputs' % (mode, gtext(c['g'])))
            if j.lr.get('loop_word') is not None:
                loops.append((j, c)); continue
            jobs.append(j); meta[name] = c
        # cross-check of the table view on a small instance: same obligation with the tables in the real private vectors
        small = [c for c in nontrivial if c['tab']['nstates'] <= 6 and any(len(r) >= 2 for _, r in c['g']['rules'])]
        if small and view_ok:
            c = select(small, 1, seed)[0]; name = 'lr.%s.plain' % mode
            j = table_job(prop, prop, name, c['g'], c['tab'], 2, wd, prefix=prefix, plain=True, timeout=280 if tier == 'quick' else 900,
                          what='%s mode, %s: as above with the tables stored in the parser object\'s private action/jump vectors and read through the container model (cross-check of the table view)' % (mode, gtext(c['g'])))
            jobs.append(j); meta[name] = c
    # encoder validation: the oracle of the harness (loop version and generated version), compiled natively, against the independent Python chart
    st = [meta[k]['g'] for k in sorted(meta)[:2]]
    bad = oracle_selftest(wd, st, n, maxwords=40, generated=True) + oracle_selftest(wd, st[:1], n, maxwords=40, generated=False)
    cov['oracle_selftest'] = {'grammars': len(st), 'disagreements': len(bad)}
    if bad: out.inconclusive.append('derivation-table oracle disagrees with the independent Python chart (encoder validation failed): %s' % json.dumps(bad[0], default=str)[:300])
    if os.environ.get('VERIF_C13_FIRST_SYMBOLIC'):
        # opt-in: harness/first_sets.cpp, the real calculateFirstSets/first on a symbolic grammar.  Not part of the verdict: with the flat container model it does
        # not finish (measured: one symbolic symbol, minimal capacities: no end of symbolic execution in 600 s; concrete grammar + symbolic first() argument: 25 M variables)
        jobs.append(fw.Job('first.symbolic', H_FIRST, 'h_first_sets', tus=['Compiler/src/ParserGenerator/grammar.cpp'], defines=['MINISTL_STR_CAP=12', 'MINISTL_MAP_CAP=3', 'MINISTL_VEC_CAP=2', 'MINISTL_FN_CAP=8', 'FS_LEN1=1'],
                           caps='caps_lr.hpp', unwind=7, tags=[prop], native=False, timeout=int(os.environ['VERIF_C13_FIRST_SYMBOLIC']), ub_pat=r'ministl: .*\((UB|throws)\)',
                           what='real calculateFirstSets/first on a symbolic grammar (2 nonterminals, 2 alternatives of <= 2 and <= 1 symbols) vs textbook fixpoint', bounds='see harness/first_sets.cpp',
                           functions=['Theo::Grammar::calculateFirstSets', 'Theo::Grammar::first'], build_key=('lr', 'first.symbolic')))
    run_parallel(jobs, wd, workers=WORKERS)
    nv0 = len(out.violations)
    fw.classify(prop, jobs, wd, out)
    confirm_violations(prop, out, nv0, {j.name: j for j in jobs}, wd)
    # tables reported conflict-free on which the (Python rendering of the) driver did not stop within 400 steps: replayed natively with the real driver
    for j, c in loops[:4]:
        body = {'kind': 'parse', 'grammar': c['g'], 'prefix': j.lr['prefix'], 'word': j.lr['loop_word'], 'assertion': 'C13: the driver terminates on conflict-free tables', 'job': j.name}
        rep = replay_grammar(wd, body); body['native_replay'] = rep
        rp = write_replay(prop, 'lr', body)
        out.obligations += 1
        if rep.get('reproduced'):
            out.violations.append({'property': prop, 'job': j.name, 'assertion': 'C13: the driver terminates and decides membership on tables reported conflict-free (%s, input %s)' % (gtext(c['g']), j.lr['loop_word']), 'replay': rp, 'confirmed': True, 'cex': {}})
        else:
            out.inconclusive.append('%s: the table walk did not stop within 400 steps but the native driver behaved as the reference says (replay %s)' % (j.name, rp))
    # FIRST differences are native facts about the real generator: report each (at most 3) as a violation with a native replay file
    for g, d in first_bad[:3]:
        rp = write_replay(prop, 'first', {'kind': 'first', 'grammar': g, 'prefix': False, 'differences': d[:6]})
        out.violations.append({'property': prop, 'job': 'lr.first', 'assertion': 'C13: FIRST sets equal their textbook definition (%s: %s)' % (gtext(g), json.dumps(d[0])), 'replay': rp, 'confirmed': True, 'cex': {}})
    out.obligations += cov['first_sets_compared']; out.discharged += cov['first_sets_compared'] - len(first_bad)
    cov['programs'] = sum(m['validated_by_solver'] for m in cov['modes'].values())
    cov['first_set_differences'] = len(first_bad)
    cov['input_bound'] = n
    return cov


# ------------------------------------------------------------------------------------------------ replay
def write_replay(prop, tag, body):
    os.makedirs(fw.REPLAYS, exist_ok=True)
    h = hashlib.md5(json.dumps(body, sort_keys=True, default=str).encode()).hexdigest()[:10]
    path = os.path.join(fw.REPLAYS, '%s-%s-%s.json' % (prop, tag, h))
    json.dump(dict(body, property=prop, module=prop.lower()), open(path, 'w'), indent=1)
    return path


def native_parse(wd, g, prefix, w, san=False):
    """the real generator and the real driver on one concrete end-marked input (own process, time limit: tables with conflicts may loop)"""
    d = native_dump(wd, [gline(g, prefix, w)], timeout=20, workers=1, san=san)[0]
    return d


def replay_grammar(wd, r):
    """re-run one counterexample natively: real tables + real driver on the witness input vs the Python derivation-table reference"""
    g = r['grammar']; g = dict(g, rules=[(l, [tuple(s) for s in rr]) for l, rr in g['rules']])
    prefix = r['prefix']
    if r.get('kind') == 'first':
        d = native_dump(wd, [gline(g, False)], workers=1)[0]
        diffs = compare_first(g, d) if not d.get('crash') else [{'crash': d}]
        return {'reproduced': bool(diffs), 'differences': diffs[:6]}
    w = r['word']
    ub = bool(re.search(r'\((UB|throws)\)|pointer|dereference', r.get('assertion', '')))
    d = native_parse(wd, g, prefix, w + [g['eof']], san=ub)
    ref = reference(g, prefix, w)
    if d.get('crash'):
        return {'reproduced': True, 'native': 'the native driver crashed, was stopped by a sanitizer or did not terminate (rc %s): %s' % (d.get('rc'), (d.get('stderr') or '')[-300:]), 'reference': ref}
    res = {'native': d['parse'], 'reference': ref, 'conflicts_reported': len(d['conflicts'])}
    bad = []
    if not d['conflicts']:
        if d['parse']['accept'] != ref['accept']: bad.append('acceptance differs')
        elif ref['accept'] and ref['value'] is not None and d['parse']['value'] != ref['value']: bad.append('returned value is not the fold of the derivation')
        if ref['ambiguous']: bad.append('a prefix of the input has two derivations although no conflict was reported')
    res['reproduced'] = bool(bad); res['why'] = bad
    return res


def confirm_violations(prop, out, first, jobs, wd):
    """alarm rule (DESIGN 2.6): a solver counterexample of an lr job becomes a violation only after the real generator + driver, run natively on the
    witness input, disagree with the reference; otherwise it is an encoding disagreement (inconclusive)"""
    keep = out.violations[:first]
    for v in out.violations[first:]:
        j = jobs.get(v['job'])
        if j is None or not getattr(j, 'lr', None): keep.append(v); continue
        cex = v.get('cex', {})
        n = cex.get('CEX_n', 0) or 0
        w = [int(x) for x in (cex.get('CEX_w') or [])[:n]]
        w = [x for x in w if x != j.lr['eof']]
        body = {'kind': 'parse', 'grammar': j.lr['grammar'], 'prefix': j.lr['prefix'], 'word': w, 'assertion': v['assertion'], 'job': v['job'],
                'solver': {k: cex.get(k) for k in ('CEX_accept', 'CEX_value', 'CEX_in_lang', 'CEX_oracle_value', 'CEX_oracle_count', 'CEX_oracle_len')}}
        if j.lr.get('pattern') is not None: body['pattern'] = j.lr['pattern']; body['kind'] = 'pattern'
        try:
            if 'FIRST set the generator computed' in v['assertion'] and body['kind'] == 'parse':
                body['kind'] = 'first'     # a statement about the generator's FIRST sets, not about the driver: replayed as the native FIRST comparison
            rep = (replay_pattern if body['kind'] == 'pattern' else replay_grammar)(wd, body)
        except Exception as ex:
            rep = {'reproduced': False, 'error': str(ex)[:300]}
        body['native_replay'] = rep
        try: os.remove(v['replay'])
        except OSError: pass
        v['replay'] = write_replay(prop, 'lr', body)
        if rep.get('reproduced'):
            v['confirmed'] = True; keep.append(v)
        else:
            out.disagreements += 1
            out.inconclusive.append('%s: counterexample for "%s" did not reproduce natively (encoding disagreement; replay %s)' % (v['job'], v['assertion'][:80], v['replay']))
    out.violations[:] = keep


C13_ASSUMPTIONS = [
    'translation validation: hull/jump/elements/generateParseTables run natively on every grammar of the enumerated family; their code is judged through the tables and FIRST sets they produce, it is not executed symbolically (DESIGN.md 1 item 5)',
    'the grammar (structure and symbols) is enumerated/sampled, the input is symbolic: all end-marked inputs up to the length bound over terminals 0..max_used_terminal, for every selected grammar, in full and in prefix mode',
    'oracle: derivation table (CYK-style chart with saturating derivation counts {0,1,>=2} and folded values) over the symbolic input, same-span fixpoint capped at 2*#nonterminals+2 rounds (exact for saturated counts); cross-validated natively against an independent Python implementation',
    'semantic actions are Goedel folds (value = ((rule id+1)*31 + c1)*31 + c2 ... mod 2^31 over the popped values, leaf = token+1): equality of values is equality of derivation trees up to collisions mod 2^31',
    'table view: the driver reads its tables and stacks through by-value accessors over the dumped constant tables instead of the container model\'s nested pointer selection (textual guard on parse(): every table reference is used immediately; one plain-mode job per mode cross-checks the view)',
    'FIRST: the sets computed by the real calculateFirstSets/first are compared, natively, with the textbook least fixpoint for EVERY generated grammar and every string of <= 2 symbols; the solver additionally checks containment against the derivation table. A symbolic run of calculateFirstSets is not part of the verdict: with the flat container model it does not finish (one symbolic symbol: no end of symbolic execution in 600 s)',
]
C13_EXPLANATION = ('Per grammar of the family the real table generator runs natively in full and in prefix mode. For a stratified sample of the grammars it reports conflict-free, '
                   'one solver query each executes the REAL LRParser<int,int>::parse on the generated tables for all inputs up to the bound and asserts: accept <=> the input (prefix mode: some prefix) '
                   'is in L(G) according to the derivation table; the returned value is the fold of the unique derivation (rule actions applied once each, last symbol first); no word has two derivations '
                   '(so an ambiguous grammar must have been given a conflict); the driver never violates a container precondition; the generated FIRST sets contain what the derivation table requires. '
                   'FIRST sets and first() of all strings of up to two symbols equal the textbook least fixpoint for every generated grammar (native comparison, exhaustive over the family).')


# ------------------------------------------------------------------------------------------------ encoder validation (never a verdict)
def oracle_selftest(wd, grammars, n, alphabet=None, values=True, maxwords=400, seed=0, generated=True, wordgen=None):
    """the derivation-table oracle of harness/lr_parse.cpp, compiled natively, against the independent Python chart (cyk) on concrete words.
    Returns a list of disagreements."""
    bad = []
    rnd = random.Random(seed)
    for gi, g in enumerate(grammars):
        hdr, info = make_header(g, None, n, prefix=False, values=values, run_driver=False, note='oracle self-test')
        hp = os.path.join(wd, 'selftest_%d.hpp' % gi); open(hp, 'w').write(hdr)
        exe = os.path.join(wd, 'selftest_%d' % gi)
        odef = []
        if generated:
            gen = gen_oracle(g, n, values=values, all_nts=False)
            if gen is None: bad.append({'grammar': gi, 'build': 'generated oracle too large'}); continue
            op = os.path.join(wd, 'selftest_%d.oracle.hpp' % gi); open(op, 'w').write(gen[0]); odef = ['-DLR_ORACLE="%s"' % op]
        p = subprocess.run(['g++', '-std=c++20', '-O1', '-w', '-DLR_ORACLE_SELFTEST=1', '-DLR_DATA="%s"' % hp] + odef +
                           ['-I' + fw.REPO, '-I' + os.path.join(fw.REPO, 'Compiler/include'), H_PARSE, '-o', exe], stdout=subprocess.PIPE, stderr=subprocess.PIPE, text=True)
        if p.returncode != 0: bad.append({'grammar': gtext(g) if g['nnt'] <= 10 else gi, 'build': p.stderr[-600:]}); continue
        al = alphabet or [t for t in range(g['eof'])]
        ws = list(words(al, n)) if len(al) ** n <= maxwords else [[rnd.choice(al) for _ in range(rnd.randint(0, n))] for _ in range(maxwords)]
        if wordgen: ws = wordgen(g, rnd, maxwords)
        inp = '\n'.join('%d %s' % (len(w), ' '.join(map(str, w))) for w in ws) + '\n'
        q = subprocess.run([exe], input=inp, stdout=subprocess.PIPE, text=True)
        lines = q.stdout.splitlines()
        for w, ln in zip(ws, lines):
            cnt, value = cyk(g, w)
            got = [tuple(map(int, x.split(':'))) for x in ln.split()]
            for j in range(len(w) + 1):
                c = cnt[g['start']][0][j]
                if got[j][0] != c or (values and c == 1 and got[j][1] != value(g['start'], 0, j)):
                    bad.append({'grammar': gtext(g) if g['nnt'] <= 10 else gi, 'word': w, 'prefix': j, 'harness': got[j], 'python': (c, value(g['start'], 0, j) if c == 1 else None)}); break
    return bad


# ================================================================================================ C12: macro patterns
def token_types():
    """Token::Type enumerators of /repo/Compiler/include/token.hpp -> numeric values"""
    src = open(os.path.join(fw.REPO, 'Compiler/include/token.hpp')).read()
    m = re.search(r'enum Type \{(.*?)\};', src, re.S)
    out = {}; v = 0
    for item in m.group(1).split(','):
        item = re.sub(r'//[^\n]*', '', item).strip()
        if not item: continue
        mm = re.match(r'(\w+)\s*(?:=\s*(\d+))?$', item)
        if mm.group(2) is not None: v = int(mm.group(2))
        out[mm.group(1)] = v; v += 1
    return out


# FIXED transcription of the statement grammar that MacroDetector's constructor builds (macro.cpp, G.add(...) calls), at the pinned commit.
# Nonterminals in creation order; right sides: 'T:<Token::Type>' terminal, otherwise a nonterminal name.
STMT_NTS = ['ID', 'INT', 'VALUE', 'ARGS', 'P', 'STATEMENT', 'ATOMIC_P', 'MACRO']
STMT_RULES = [
    ('ID', ['T:ID']), ('INT', ['T:INT']), ('VALUE', ['ID']), ('VALUE', ['INT']), ('VALUE', ['T:RUN', 'ID', 'T:WITH', 'ARGS', 'T:END']),
    ('ARGS', ['VALUE']), ('ARGS', ['ARGS', 'T:ARGSEP', 'VALUE']), ('P', ['P', 'T:PROGSEP', 'STATEMENT']), ('P', ['STATEMENT']),
    ('STATEMENT', ['ID', 'T:LABELDEC', 'ATOMIC_P']), ('STATEMENT', ['ATOMIC_P']), ('ATOMIC_P', ['ID', 'T:ASSIGN', 'VALUE']),
    ('ATOMIC_P', ['T:LOOP', 'ID', 'T:DO', 'P', 'T:END']), ('ATOMIC_P', ['T:WHILE', 'ID', 'T:NEQ_ZERO', 'T:DO', 'P', 'T:END']), ('ATOMIC_P', ['T:GOTO', 'ID']),
    ('ATOMIC_P', ['T:IF', 'ID', 'T:EQ', 'INT', 'T:THEN', 'T:GOTO', 'ID']), ('ATOMIC_P', ['T:STOP']),
]
SLOT_NT = {'ID_TEMP': 'ID', 'INT_TEMP': 'INT', 'ARGS_TEMP': 'ARGS', 'PROG_TEMP': 'P', 'VALUE_TEMP': 'VALUE'}
SLOTS = ['ID_TEMP', 'INT_TEMP', 'VALUE_TEMP', 'ARGS_TEMP', 'PROG_TEMP']
LITERALS = ['ID', 'INT', 'PROGSEP', 'ARGSEP', 'NV_ID', 'PAREN_OPEN', 'PAREN_CLOSE', 'LOOP', 'END', 'DO']
SHOW = {'ID_TEMP': '<ID>', 'INT_TEMP': '<INT>', 'VALUE_TEMP': '<V>', 'ARGS_TEMP': '<ARGS>', 'PROG_TEMP': '<P>', 'ID': 'x', 'INT': '1', 'PROGSEP': ';', 'ARGSEP': ',', 'NV_ID': '+',
        'PAREN_OPEN': '(', 'PAREN_CLOSE': ')', 'LOOP': 'LOOP', 'END': 'END', 'DO': 'DO'}


def transcription_matches_source():
    """textual comparison of the fixed transcription with the G.add(...) calls and the slot mapping in macro.cpp.  Returns (ok, reason)."""
    src = open(os.path.join(fw.REPO, 'Compiler/src/macro.cpp')).read()
    a = src.find('MacroDetector(MacroDefinition md)')
    b = src.find('std::vector<ParseError> getErrors()')
    if a < 0 or b < 0: return False, 'MacroDetector constructor not found'
    body = re.sub(r'//[^\n]*', '', src[a:b]); flat = re.sub(r'\s+', ' ', body)
    m = re.search(r'auto ((?:\w+ = G\.createNonTerminal\(\),? ?)+);', flat)
    if not m: return False, 'nonterminal declarations not found'
    nts = re.findall(r'(\w+) = G\.createNonTerminal\(\)', m.group(1))
    if nts != STMT_NTS: return False, 'nonterminals %s differ from the transcription %s' % (nts, STMT_NTS)
    rules = []
    for mm in re.finditer(r'G\.add\( ?(\w+) >> (.*?), ?default_accumulator\)', flat):
        lhs, rhs = mm.group(1), mm.group(2).strip()
        if rhs.startswith('('):            # a parenthesised comma list (operator, on symbols): strip the outer pair when it encloses the whole right side
            d = 0
            for i, ch in enumerate(rhs):
                d += {'(': 1, ')': -1}.get(ch, 0)
                if d == 0: break
            if i == len(rhs) - 1: rhs = rhs[1:-1]
        parts = [x.strip() for x in re.split(r',(?![^()]*\))', rhs)]
        syms = []
        for x in parts:
            t = re.fullmatch(r'\(?term\(Token::(\w+)\)\)?', x)
            syms.append('T:' + t.group(1) if t else x.strip('() '))
        rules.append((lhs, syms))
    if rules != STMT_RULES:
        diff = [r for r in rules if r not in STMT_RULES] + [r for r in STMT_RULES if r not in rules]
        return False, 'G.add calls differ from the transcription: %s' % diff[:3]
    if not re.search(r'G\.add\( ?MACRO >> sym,', flat): return False, 'MACRO >> sym rule not found'
    for tok, nt in SLOT_NT.items():
        if not re.search(r'case Token::%s: sym\.push_back\(%s\); break;' % (tok, nt), flat): return False, 'slot mapping of %s changed' % tok
    if not re.search(r'default: sym\.push_back\(term\(t\.t\)\); break;', flat): return False, 'literal mapping changed'
    if not re.search(r'LRParser<Accumulation, Token>\( ?G, true, transformer, creator, MACRO, Grammar::Symbol::Terminal\(Token::T_EOF\)\)', flat):
        return False, 'parser construction (prefix mode, start MACRO, end marker T_EOF) changed'
    return True, ''


def pattern_grammar(pat, tt):
    """grammar (oracle + G-mode cross-check) of the pattern language: the transcribed statement grammar + MACRO -> pattern"""
    idx = {n: i for i, n in enumerate(STMT_NTS)}
    def sym(x): return T(tt[x[2:]]) if x.startswith('T:') else N(idx[x])
    rules = [(idx[l], [sym(x) for x in r]) for l, r in STMT_RULES]
    rules.append((idx['MACRO'], [N(idx[SLOT_NT[p]]) if p in SLOT_NT else T(tt[p]) for p in pat]))
    return {'nnt': len(STMT_NTS), 'start': idx['MACRO'], 'eof': tt['T_EOF'], 'rules': rules}


def pattern_text(pat): return ' '.join(SHOW.get(p, p) for p in pat)


def pline(pat, tt, word=None):
    txt = {'NV_ID': '+', 'ID': 'x', 'INT': '1'}
    s = 'P ' + ' '.join('%d:%s' % (tt[p], txt.get(p, 'k')) for p in pat)
    if word is not None: s += ' # ' + ' '.join(map(str, word))
    return s


# longer patterns of the shapes users write (a slot, the separator of its own list syntax, the same slot again, then a closing literal): the realistic
# ambiguity class of this language, plus deterministic neighbours.  Not in the expectation file: their verdict is judged by the solver only
# (accepted => no witness of non-determinism inside the bound and the driver recognises exactly the language; rejected => witness searched).
EXTRA_PATTERNS = [
    ('ID', 'PROG_TEMP', 'PROGSEP', 'PROG_TEMP', 'END'), ('PROG_TEMP', 'PROGSEP', 'PROG_TEMP', 'END'),
    ('ID_TEMP', 'PAREN_OPEN', 'ARGS_TEMP', 'ARGSEP', 'ARGS_TEMP', 'PAREN_CLOSE'), ('ARGS_TEMP', 'ARGSEP', 'ARGS_TEMP', 'PAREN_CLOSE'),
    ('VALUE_TEMP', 'NV_ID', 'VALUE_TEMP'), ('ID_TEMP', 'PAREN_OPEN', 'ARGS_TEMP', 'PAREN_CLOSE'), ('ID', 'ID_TEMP', 'DO', 'PROG_TEMP', 'END'),
    ('ID', 'VALUE_TEMP', 'DO', 'PROG_TEMP', 'ID', 'PROG_TEMP', 'END'),
]


def patterns(maxlen):
    al = SLOTS + LITERALS
    return [tuple(p) for n in range(1, maxlen + 1) for p in itertools.product(al, repeat=n)]


def reachable_terminals(g):
    seen = set(); todo = [g['start']]; ts = set()
    while todo:
        x = todo.pop()
        if x in seen: continue
        seen.add(x)
        for l, r in g['rules']:
            if l != x: continue
            for t, k in r:
                if t == 't': ts.add(k)
                else: todo.append(k)
    return sorted(ts), sorted(seen)


def compress_columns(tab, keep):
    """columns of terminals outside `keep` must be identical (they never occur in an item of a state); returns (column class per terminal, compressed action table)"""
    act = tab['action']; w = tab['action_width']
    cols = {}; cls = []
    for a in range(w):
        col = tuple(tuple(act[s][a][:4]) for s in range(len(act)))
        key = ('k', a) if a in keep else ('o', col)
        if key not in cols: cols[key] = len(cols)
        cls.append(cols[key])
    reps = {}
    for a, c in enumerate(cls): reps.setdefault(c, a)
    comp = [[act[s][reps[c]] for c in range(len(cols))] for s in range(len(act))]
    return cls, comp, reps


def max_steps(tab, alphabet, eof, n, limit=200000):
    """largest number of iterations of the driver loop over all end-marked inputs of at most n tokens over `alphabet` (depth-first over the viable
    prefixes, on the dumped tables); None if the exploration is cut off"""
    act = tab['action']; jump = tab['jump']
    best = [0]; depthmax = [1]; count = [0]
    def run(stack, a, steps):
        """feed token a: returns (new stack or None when the driver stops, steps)"""
        stack = list(stack)
        while True:
            steps += 1
            if steps > 2000: return None, steps
            s = stack[-1]
            if s < 0 or s >= len(act) or a >= len(act[s]): return None, steps
            t, st, left, beta, rid = act[s][a]
            if t == 0: stack.append(st); depthmax[0] = max(depthmax[0], len(stack)); return stack, steps
            if t == 1:
                if beta >= len(stack): return None, steps
                del stack[len(stack) - beta:]; stack.append(jump[stack[-1]][left]); depthmax[0] = max(depthmax[0], len(stack))
                continue
            return None, steps
    def dfs(stack, k, steps):
        count[0] += 1
        if count[0] > limit: raise OverflowError
        _, st = run(stack, eof, steps); best[0] = max(best[0], st)
        if k == n: return
        for a in alphabet:
            ns, st = run(stack, a, steps)
            best[0] = max(best[0], st)
            if ns is not None: dfs(ns, k + 1, st)
    try:
        dfs([0], 0, 0)
    except OverflowError:
        return None, None
    return best[0], depthmax[0]


C12_SPEC = os.path.join(fw.VERIF, 'spec', 'c12_rejections.json')


def tables_equal(a, b):
    if a['nstates'] != b['nstates'] or a['action_width'] != b['action_width'] or a['jump'] != b['jump']: return False
    return all(ca[:4] == cb[:4] for ra, rb in zip(a['action'], b['action']) for ca, cb in zip(ra, rb)) and len(a['conflicts']) == len(b['conflicts'])


def pattern_job(prop, name, pat, g, tabP, tabG, n, wd, *, driver, tt, claim=True, timeout=280):
    """accepted pattern (claim=True): real driver on the detector's tables for all inputs up to n tokens + the language has no two derivations and is
    prefix-free up to n;  rejected pattern (claim=False): search for a witness (two derivations / a word with a proper extension in the language)"""
    reach, _ = reachable_terminals(g)
    other = [t for t in range(tabP['max_used_terminal'] + 1) if t not in reach and t != g['eof']]
    alphabet = reach + other[:1]
    tab = None
    if driver:
        cls, comp, reps = compress_columns(tabG, set(reach) | {g['eof']})
        # the compressed table is what the view reads; it is the full table with the identical columns of the terminals no state mentions merged
        tab = dict(tabG, action=comp, action_width=len(comp[0]))
    j = table_job(prop, prop, name, g, tab, n, wd, prefix=True, values=False, run_driver=driver, assert_unamb=claim, assert_prefixfree=claim, exists_witness=not claim,
                  alphabet=alphabet if driver else reach, timeout=timeout, words_alphabet=[],
                  what=('pattern %s (accepted): the real driver on the detector\'s own tables accepts exactly the inputs with a prefix in the pattern\'s language; no word has two derivations, no word of the language has a proper extension in it'
                        if claim else 'pattern %s (rejected): search for a witness that no one-token-lookahead prefix recogniser exists') % pattern_text(pat))
    if driver:
        # column classes: the driver indexes by token type; the view maps it to the merged column
        hdr = open(j.lr['header']).read()
        hdr = hdr.replace('#define LR_W %d' % len(comp[0]), '#define LR_W %d\n#define LR_COLMAP 1\n%s' % (tabG['action_width'], carr('LR_COL', cls, [len(cls)], 'unsigned char')))
        open(j.lr['header'], 'w').write(hdr)
        st, dp = max_steps(tabG, alphabet, g['eof'], n)
        if st is None: st, dp = 8 * n + 12, n + 4
        j.lr['steps'] = st; cap_int = max(n + 2, dp + 2, tabG['jump_width'], 4)
        j.defines = [d for d in j.defines if not d.startswith('LR_CAP_INT=')] + ['LR_CAP_INT=%d' % cap_int]
        j.stubs = view_stubs(cap_int)
        j.bounds = 'inputs of at most %d tokens + end marker over %d token kinds (every kind a state of the table mentions + one representative of the others); driver loop <= %d iterations' % (n, len(alphabet), st + 1)
    j.lr['pattern'] = list(pat)
    return j


# ------------------------------------------------------------------------------------------------ generated (specialised) derivation-table oracle
def gen_oracle(g, n, values=True, all_nts=True, max_terms=60000):
    """The derivation table of harness/lr_parse.cpp specialised to the concrete grammar: straight-line code that contains only the (rule, span, split)
    combinations that can contribute (pruned with the minimal / maximal yield lengths and with the cells already known to be empty), over scalars:
      c1_X_i_j = 'X derives w[i..j)',  c2_X_i_j = '... in at least two ways',  v_X_i_j = folded value of the derivation.
    A term (one rule, one split) derives iff all its factors do (c1 = AND), and has two derivations iff it derives and some factor has two (c2);
    a cell derives iff some term does, and has two derivations iff some term has two or two different terms derive.  Pure Boolean logic.
    The generic loop version of the same table (oracle_loops in the harness) costs 50-100 times more symbolic-execution steps; both, and the Python
    chart cyk(), are compared natively on concrete words (oracle_selftest).  Returns C++ text or None if more than max_terms terms are needed."""
    an = analyse(g, n + 1)
    mn, mx = an['min'], an['max']
    rules = g['rules']; nnt = g['nnt']; S = g['start']
    def smin(s): return 1 if s[0] == 't' else mn[s[1]]
    def smax(s): return 1 if s[0] == 't' else mx[s[1]]
    sufmin = [[min(n + 1, sum(smin(s) for s in r[k:])) for k in range(len(r) + 1)] for _, r in rules]
    def splits(ri, i, j):
        r = rules[ri][1]
        def rec(k, p):
            if k == len(r):
                if p == j: yield []
                return
            lo = p + smin(r[k]); hi = min(p + smax(r[k]), j - sufmin[ri][k + 1])
            if k == len(r) - 1: lo = max(lo, j); hi = min(hi, j)
            for q in range(lo, hi + 1):
                for rest in rec(k + 1, q): yield [(r[k], p, q)] + rest
        if j - i < sufmin[ri][0]: return
        yield from rec(0, i)
    # cells needed, top-down
    need = set(); todo = [(x, 0, j) for j in range(n + 1) for x in (range(nnt) if all_nts else [S])]
    deps = {}
    while todo:
        c = todo.pop()
        if c in need: continue
        need.add(c)
        x, i, j = c; ts = []
        for ri, (l, r) in enumerate(rules):
            if l != x: continue
            for sp in splits(ri, i, j): ts.append((ri, sp))
        deps[c] = ts
        for ri, sp in ts:
            for s, p, q in sp:
                if s[0] == 'n' and (s[1], p, q) not in need: todo.append((s[1], p, q))
        if sum(len(v) for v in deps.values()) > max_terms: return None
    order = {x: k for k, x in enumerate(an['order'])}
    rounds = (2 * nnt + 2) if an['cyclic'] else 1
    spans = sorted({(j - i, i, j) for (_, i, j) in need})
    o = ['static void oracle() {']
    o.append('  ' + ' '.join('const unsigned w%d = (unsigned)W[%d];' % (p, p) for p in range(n)))
    nonzero = set(); nterms = 0; tn = [0]
    def nm(pre, c): return '%s_%d_%d_%d' % (pre, c[0], c[1], c[2])
    for L, i, j in spans:
        cells = sorted([c for c in need if c[1] == i and c[2] == j], key=lambda c: order[c[0]])
        if rounds > 1:
            for c in cells:
                o.append('  unsigned %s = 0u, %s = 0u%s;' % (nm('c1', c), nm('c2', c), (', %s = 0u' % nm('v', c)) if values else ''))
                nonzero.add(c)          # same-span cells may become non-empty in a later round
        for rd in range(rounds):
            for c in cells:
                ts = [(ri, sp) for ri, sp in deps[c] if all(s[0] == 't' or (s[1], p, q) in nonzero for s, p, q in sp)]
                decl = '' if rounds > 1 else 'unsigned '
                if not ts:
                    if rounds == 1: continue          # structurally empty cell: never referenced (terms containing it are pruned)
                    o.append('  %s = 0u; %s = 0u;' % (nm('c1', c), nm('c2', c))); continue
                o.append('  { unsigned s1 = 0u, s2 = 0u%s;' % (', sv = 0u' if values else ''))
                for ri, sp in ts:
                    nterms += 1
                    f1 = ['(unsigned)(w%d == %du)' % (p, s[1]) if s[0] == 't' else nm('c1', (s[1], p, q)) for s, p, q in sp] or ['1u']
                    f2 = [nm('c2', (s[1], p, q)) for s, p, q in sp if s[0] == 'n']
                    o.append('    { const unsigned t1 = %s; const unsigned t2 = %s;' % (' & '.join(f1), ('t1 & (%s)' % ' | '.join(f2)) if f2 else '0u'))
                    if values:
                        v = '%du' % (ri + 1)
                        for s, p, q in reversed(sp):
                            sv = '(w%d + 1u)' % p if s[0] == 't' else nm('v', (s[1], p, q))
                            v = '((times31(%s) + %s) & 0x7fffffffu)' % (v, sv)
                        o.append('      const unsigned m = 0u - t1; sv = ((%s) & m) | (sv & ~m);' % v)
                    o.append('      s2 = s2 | t2 | (s1 & t1); s1 = s1 | t1; }')
                o.append('    %s%s = s1; %s%s = s2;%s }' % ('', nm('c1', c), '', nm('c2', c), (' %s = sv;' % nm('v', c)) if values else ''))
                nonzero.add(c)
    # hoist declarations for the acyclic case
    if rounds == 1:
        decls = ['  unsigned %s = 0u, %s = 0u%s;' % (nm('c1', c), nm('c2', c), (', %s = 0u' % nm('v', c)) if values else '') for c in sorted(nonzero)]
        o[2:2] = decls
    for j in range(n + 1):
        for x in (range(nnt) if all_nts else [S]):
            c = (x, 0, j)
            if c in nonzero:
                o.append('  CNT[%d][0][%d] = (unsigned char)(%s + %s);' % (x, j, nm('c1', c), nm('c2', c)))
                if values and x == S: o.append('  VAL[%d][0][%d] = %s;' % (x, j, nm('v', c)))
    o.append('}')
    return '\n'.join(o) + '\n', nterms


# ------------------------------------------------------------------------------------------------ C12 obligations
def public_verdict(wd, pat):
    """the pattern as a DEFINE in a source text, compiled through the public API of the native build (native/theoc_dump.cpp): 'rejected' iff a
    non-linear (MACRO_COMPILE_NON_LR) error is reported, with its location"""
    import ctv
    src = 'x9 := 0\nDEFINE %s AS x0 := 1 END DEFINE\nx8 := 2\n' % pattern_text(pat)
    d = ctv.native_compile(wd, {'m': src}, 'm', tag='pub_' + hashlib.md5(src.encode()).hexdigest()[:8])
    if d.get('crash'): return {'verdict': 'crash', 'detail': d}
    errs = [e for e in d.get('errors', []) if 'non-linear' in e.get('msg', '')]
    return {'verdict': 'rejected' if errs else 'accepted', 'errors': errs, 'source': src}


SCENARIO = ('DEFINE inc <ID> AS $0 := $0 + 1 END DEFINE\nDEFINE twice <P> AS $0 ; $0 END DEFINE\nx0 := 0;\ninc x0', ';\ntwice x1 := 5\n')


def public_scenario(wd):
    """concrete run through the public API: an accepted macro (line 1) and a rejected one (line 2, ends in <P>) in one source.  Returns the list of
    statements of C12 that do not hold (empty: all hold) and the raw results."""
    import ctv
    a = ctv.native_compile(wd, {'m': SCENARIO[0] + '\n'}, 'm', tag='scn_a')          # only the accepted macro is used
    b = ctv.native_compile(wd, {'m': SCENARIO[0] + SCENARIO[1]}, 'm', tag='scn_b')    # both are used
    bad = []
    for d in (a, b):
        if d.get('crash'): return ['the compiler crashed on the scenario'], {'a': a, 'b': b}
    nl = lambda d: [e for e in d['errors'] if 'non-linear' in e['msg']]
    other = lambda d: [e for e in d['errors'] if 'non-linear' not in e['msg']]
    if not (len(nl(a)) == 1 and nl(a)[0]['file'] == 'm' and nl(a)[0]['line'] == 2): bad.append('the rejected macro is reported as non-linear exactly once, at the position of its definition (m:2)')
    if other(a): bad.append('a rejected macro does not prevent the others from being applied (the use of the accepted macro on line 4 must expand without error)')
    if not any(e['line'] == 5 for e in other(b)): bad.append('a rejected macro is never applied (its use on line 5 must stay unexpanded and be reported by the parser)')
    return bad, {'a': a.get('errors'), 'b': b.get('errors')}


def replay_pattern(wd, r):
    """re-run one pattern counterexample natively: the real MacroDetector (constructor, getErrors, its own parser on the witness token sequence) against
    the Python derivation-table reference, and the public API verdict"""
    if r.get('kind') == 'scenario':
        bad, raw = public_scenario(wd)
        return {'reproduced': bool(bad), 'why': bad, 'errors': raw, 'source': SCENARIO[0] + SCENARIO[1]}
    tt = token_types()
    pat = tuple(r['pattern']); g = pattern_grammar(pat, tt)
    w = r.get('word')
    d = native_dump(wd, [pline(pat, tt, (w + [g['eof']]) if w is not None else None)], timeout=60, workers=1)[0]
    if d.get('crash'): return {'reproduced': True, 'native': 'the detector crashed or did not return (rc %s)' % d.get('rc')}
    res = {'rejected': bool(d['errors']), 'conflicts': len(d['conflicts']), 'public_api': public_verdict(wd, pat)['verdict']}
    bad = []
    if bool(d['errors']) != bool(d['conflicts']): bad.append('getErrors disagrees with the result of table generation')
    if r.get('expected_verdict') and res['public_api'] != r['expected_verdict']: bad.append('verdict %s differs from the recorded %s' % (res['public_api'], r['expected_verdict']))
    if w is not None:
        ref = reference(g, True, w); res['reference'] = ref; res['native'] = d.get('parse')
        if not d['errors']:
            if d['parse']['accept'] != ref['accept']: bad.append('the detector\'s parser and the reference disagree on the witness input')
            if ref['ambiguous'] or len(ref['members']) >= 2: bad.append('accepted although the input shows that the pattern is not prefix-deterministic')
    res['reproduced'] = bool(bad); res['why'] = bad
    return res


def c12_obligations(prop, tier, seed, wd, out):
    tt = token_types()
    cov = {'programs': 0}
    ok, why = transcription_matches_source()
    if not ok:
        out.inconclusive.append('C12: the statement grammar built in MacroDetector\'s constructor no longer matches the fixed transcription the oracle is written for (%s); no verdict' % why)
        return cov
    view_ok, why = driver_uses_references_immediately()
    # ---- (0) symbolic: getErrors on a detector whose generation result is symbolic
    ge = fw.Job('getErrors', H_PARSE, 'h_get_errors', tus=[], defines=['LR_GETERRORS=1', 'MINISTL_STR_CAP=12', 'MINISTL_MAP_CAP=2', 'MINISTL_VEC_CAP=3'], unwind=4, tags=[prop], native=False, timeout=280,
                ub_pat=r'ministl: .*\((UB|throws)\)', what='real MacroDetector::getErrors on a detector object whose table-generation result is symbolic (no / one / two conflicts), pattern tokens with symbolic file and line',
                bounds='<= 2 conflicts, 2 pattern tokens, 1-character file name', functions=['MacroDetector::getErrors'], build_key=('lr', 'getErrors'))
    # ---- native: the real MacroDetector constructor on every pattern of the family
    pats = patterns(2)
    sample3 = []
    if tier != 'quick':
        rnd = random.Random(seed); p3 = [p for p in patterns(3) if len(p) == 3]
        sample3 = rnd.sample(p3, int(os.environ.get('VERIF_C12_LEN3', '420')))
    all3 = patterns(3) if (tier != 'quick' or not os.path.exists(C12_SPEC)) else pats
    all3 = list(all3) + [p for p in EXTRA_PATTERNS if p not in set(all3)]
    dumpsP = dict(zip(all3, native_dump(wd, [pline(p, tt) for p in all3], workers=WORKERS, chunk=60)))
    verdict = {}
    for p, d in dumpsP.items():
        if d.get('crash'):
            out.inconclusive.append('C12: the native detector did not return for pattern %s' % pattern_text(p)); continue
        verdict[p] = 'rejected' if d['errors'] else 'accepted'
        # native facts about getErrors on the real object: error iff conflicts, located at the first pattern token (lr_dump puts it at file m line 7)
        e = d['errors']
        if bool(e) != bool(d['conflicts']) or (e and not (len(e) == 1 and e[0]['non_lr'] and e[0]['file'] == 'm' and e[0]['line'] == 7)):
            rp = write_replay(prop, 'pat', {'kind': 'pattern', 'pattern': list(p), 'note': 'getErrors disagrees with the generation result', 'errors': e, 'conflicts': len(d['conflicts'])})
            out.violations.append({'property': prop, 'job': 'native.getErrors', 'assertion': 'C12: a pattern gets the non-linear error, at its first token, exactly when table generation reported a conflict (%s)' % pattern_text(p), 'replay': rp, 'confirmed': True, 'cex': {}})
    cov['patterns_generated_natively'] = len(dumpsP)
    # concrete scenario through the public API: rejected macro reported at its definition, never applied, the accepted one still applied
    sbad, sraw = public_scenario(wd)
    out.obligations += 3; out.discharged += 3 - len(sbad); cov['public_api_scenario'] = 'holds' if not sbad else sbad
    for b in sbad:
        rp = write_replay(prop, 'scn', {'kind': 'scenario', 'statement': b, 'errors': sraw})
        out.violations.append({'property': prop, 'job': 'scenario', 'assertion': 'C12: ' + b, 'replay': rp, 'confirmed': True, 'cex': {}})
    family = [p for p in pats + sample3 if p in verdict]
    family += [p for p in EXTRA_PATTERNS if p in verdict and p not in set(family)]
    # cross-check of the transcription on the tables: the transcribed grammar + pattern through LRParser<int,int> must give the detector's tables
    dumpsG = dict(zip(family, native_dump(wd, [gline(pattern_grammar(p, tt), True) for p in family], workers=WORKERS, chunk=40)))
    jobs = [ge]; info = {}
    n_drv_small = 5 if tier == 'quick' else 6
    for i, p in enumerate(family):
        a, b = dumpsP[p], dumpsG[p]
        g = pattern_grammar(p, tt)
        if b.get('crash') or not tables_equal(a, b):
            out.inconclusive.append('C12: pattern %s: the tables of the transcribed grammar differ from the detector\'s own tables (transcription out of date?)' % pattern_text(p)); continue
        short = analyse(g, 14)['min'][g['start']]
        nb = min(13, short + 4)
        rej = verdict[p] == 'rejected'
        nm = 'pat.%d' % i
        info[p] = {'name': nm, 'bound': nb, 'rejected': rej, 'nstates': a['nstates']}
        if rej:
            j = pattern_job(prop, nm + '.witness', p, g, a, b, nb, wd, driver=False, tt=tt, claim=False); j.lr['role'] = 'witness'; jobs.append(j)
        elif not view_ok:
            j = pattern_job(prop, nm + '.lang', p, g, a, b, nb, wd, driver=False, tt=tt, claim=True); j.lr['role'] = 'lang'; jobs.append(j)
        elif a['nstates'] <= 30 and nb <= 6:
            j = pattern_job(prop, nm + '.all', p, g, a, b, max(nb, n_drv_small), wd, driver=True, tt=tt, claim=True); j.lr['role'] = 'all'; jobs.append(j)
        else:
            j = pattern_job(prop, nm + '.lang', p, g, a, b, nb, wd, driver=False, tt=tt, claim=True); j.lr['role'] = 'lang'; jobs.append(j)
            j = pattern_job(prop, nm + '.driver', p, g, a, b, 5 if tier == 'quick' or a['nstates'] > 60 else 6, wd, driver=True, tt=tt, claim=False); j.lr['role'] = 'driver'
            j.defines = [d for d in j.defines]; jobs.append(j)
    def pattern_words(g, rnd, k):
        """random derivations of the pattern language, some of them cut, extended by another statement/argument/value or with one token replaced"""
        reach, _ = reachable_terminals(g)
        def derive(x, d):
            alts = [r for l, r in g['rules'] if l == x]
            if d > 4: alts = sorted(alts, key=len)[:2]
            out_ = []
            for t_, kk in rnd.choice(alts): out_ += [kk] if t_ == 't' else derive(kk, d + 1)
            return out_
        ws = []
        while len(ws) < k:
            w = derive(g['start'], 0)
            if rnd.random() < 0.5 and w: w = w + derive(rnd.choice([4, 3, 2]), 2) if rnd.random() < 0.5 else w[:rnd.randint(0, len(w))]
            if rnd.random() < 0.3 and w: w[rnd.randrange(len(w))] = rnd.choice(reach)
            if len(w) <= 7: ws.append(w)
        return ws
    stp = [p for p in family if 'PROG_TEMP' in p and verdict[p] == 'accepted'][:1] + [p for p in family if 'ARGS_TEMP' in p][:1]
    bad = oracle_selftest(wd, [pattern_grammar(p, tt) for p in stp], 7, values=False, maxwords=60, wordgen=pattern_words)
    cov['oracle_selftest'] = {'patterns': [pattern_text(p) for p in stp], 'disagreements': len(bad)}
    if bad: out.inconclusive.append('C12: derivation-table oracle disagrees with the independent Python chart (encoder validation failed): %s' % json.dumps(bad[0], default=str)[:300])
    if not view_ok:
        out.inconclusive.append('C12: the by-value table view does not apply to this driver (%s): accepted patterns are not validated against the driver' % why)
    # the driver-only jobs must not carry the EXISTS obligation: rewrite their headers
    for j in jobs:
        if getattr(j, 'lr', None) and j.lr.get('role') == 'driver':
            h = open(j.lr['header']).read().replace('#define LR_EXISTS_WITNESS 1', '#define LR_EXISTS_WITNESS 0'); open(j.lr['header'], 'w').write(h)
    run_parallel(jobs, wd, workers=WORKERS)
    claim_jobs = [j for j in jobs if not (getattr(j, 'lr', None) and j.lr.get('role') == 'witness')]
    nv0 = len(out.violations)
    fw.classify(prop, claim_jobs, wd, out)
    confirm_violations(prop, out, nv0, {j.name: j for j in claim_jobs}, wd)
    times = {}
    for j in jobs:
        if j.result is not None:
            t = times.setdefault((getattr(j, 'lr', None) or {}).get('role', 'getErrors'), [0, 0.0, 0.0]); t[0] += 1; t[1] += j.result.wall; t[2] = max(t[2], j.result.wall)
    cov['job_seconds'] = {k: {'jobs': v[0], 'total': round(v[1]), 'max': round(v[2], 1)} for k, v in times.items()}
    # ---- rejected patterns: explained by a witness inside the bound, or not
    explained = []; unexplained = []
    for j in jobs:
        if not (getattr(j, 'lr', None) and j.lr.get('role') == 'witness'): continue
        p = tuple(j.lr['pattern'])
        if j.error or j.result is None or j.result.status != 'done':
            out.inconclusive.append('%s: witness search gave no answer (%s)' % (j.name, j.error or j.result.status)); continue
        out.queries += 1; out.solver_s += j.result.wall; out.max_rss = max(out.max_rss, j.result.rss_mb)
        ex = [v for v in j.result.props.values() if '(EXISTS)' in v['description']]
        wit = [v for v in j.result.props.values() if v['description'].startswith('WITNESS')]
        bad = [v for v in j.result.props.values() if v['status'] == 'FAILURE' and ('(model bound)' in v['description'] or 'unwinding assertion' in v['description'])]
        if not ex or not wit or wit[0]['status'] != 'FAILURE' or bad:
            out.inconclusive.append('%s: witness search not conclusive' % j.name); continue
        out.witness_ok += 1
        (explained if ex[0]['status'] == 'FAILURE' else unexplained).append(p)
        if ex[0]['status'] == 'FAILURE' and len(out.samples) < 12:
            cex = fw.cex_values(ex[0].get('trace')); nw = cex.get('CEX_n', 0)
            out.samples.append({'obligation': j.name, 'what': j.what, 'bounds': j.bounds, 'wall_s': round(j.result.wall, 1), 'witness_tokens': (cex.get('CEX_w') or [])[:nw]})
    # sound direction, stated as obligations: rejected-with-witness patterns satisfy it by being rejected; accepted ones were proved witness-free above
    out.obligations += len(explained); out.discharged += len(explained)
    # ---- the fixed expectation file
    def key(p): return ' '.join(p)
    now = {'accepted': sorted(key(p) for p, v in verdict.items() if v == 'accepted'), 'rejected': sorted(key(p) for p, v in verdict.items() if v == 'rejected')}
    if not os.path.exists(C12_SPEC):
        if out.violations or out.inconclusive:
            out.inconclusive.append('C12: spec/c12_rejections.json does not exist and is not created from a run with violations or inconclusive obligations')
        else:
            json.dump({'comment': 'Fixed expectation of C12, written once from the pinned commit: verdict of the real MacroDetector for every pattern of length <= 3 over the five slot kinds and ten '
                                  'literal token kinds, and the rejected patterns for which the solver found no witness (two derivations / a word with a proper extension in the language) inside the '
                                  'bound min(13, shortest word + 4): a prefix-free language can still need more than one token of lookahead. Later runs compare verdicts with this file.',
                       'token_names': SLOTS + LITERALS, 'accepted': now['accepted'], 'rejected': now['rejected'],
                       'unexplained_rejections': sorted(key(p) for p in unexplained), 'examined_for_witness': sorted(key(p) for p in explained + unexplained)}, open(C12_SPEC, 'w'), indent=0)
            cov['expectation_file'] = 'created'
    spec = json.load(open(C12_SPEC)) if os.path.exists(C12_SPEC) else None
    changed = []
    if spec:
        acc, rej = set(spec['accepted']), set(spec['rejected'])
        for p, v in verdict.items():
            rec = 'accepted' if key(p) in acc else 'rejected' if key(p) in rej else None
            if rec and rec != v: changed.append((p, rec, v))
        cov.setdefault('expectation_file', 'compared (%d verdicts)' % len(verdict))
        cov['unexplained_rejections'] = sorted(pattern_text(p) for p in unexplained)
        cov['unexplained_not_recorded'] = sorted(pattern_text(p) for p in unexplained if key(p) not in set(spec['unexplained_rejections']) and key(p) in set(spec.get('examined_for_witness', [])))
        for p in unexplained:
            if key(p) in set(spec.get('examined_for_witness', [])) and key(p) not in set(spec['unexplained_rejections']):
                out.inconclusive.append('C12: pattern %s was rejected with a witness when the expectation was recorded and has none now (oracle or bound changed?)' % pattern_text(p))
    out.obligations += len(verdict); out.discharged += len(verdict) - len(changed)
    for p, rec, v in changed[:4]:
        body = {'kind': 'pattern', 'pattern': list(p), 'expected_verdict': rec, 'found': v}
        rep = replay_pattern(wd, body); body['native_replay'] = rep
        rp = write_replay(prop, 'pat', body)
        if rep.get('reproduced'):
            out.violations.append({'property': prop, 'job': 'verdict', 'assertion': 'C12: pattern %s is %s (recorded verdict at the pinned commit), now %s' % (pattern_text(p), rec, v), 'replay': rp, 'confirmed': True, 'cex': {}})
        else:
            out.disagreements += 1
            out.inconclusive.append('C12: verdict of pattern %s differs from the recorded one in the detector but not through the public API (replay %s)' % (pattern_text(p), rp))
    if len(changed) > 4: cov['further_changed_verdicts'] = [pattern_text(p) for p, _, _ in changed[4:40]]
    cov.update({'programs': len(family), 'patterns_length_le_2': len(pats), 'patterns_length_3_sampled': len(sample3), 'accepted': sum(1 for p in family if verdict[p] == 'accepted'),
                'rejected_with_witness': len(explained), 'rejected_without_witness_in_bound': len(unexplained), 'verdicts_compared_with_expectation': len(verdict), 'verdicts_changed': len(changed)})
    return cov


C12_ASSUMPTIONS = [
    'translation validation per pattern: the real MacroDetector constructor (grammar construction, table generation in prefix mode, getErrors) runs natively on every pattern of the family; the generator\'s code is judged through its verdict and its tables',
    'the pattern is enumerated (all patterns of length <= 2 over 5 slot kinds and 10 literal token kinds; thorough adds a seeded sample of length 3), the token sequence is symbolic',
    'oracle: derivation table of the pattern language over the FIXED transcription of the statement grammar of macro.cpp (compared textually with the G.add calls on every run, and through the tables: the transcribed grammar fed to LRParser<int,int> must reproduce the detector\'s tables cell by cell)',
    'accepted patterns are validated with LRParser<int,int>::parse on the detector\'s own tables (the table content does not depend on the semantic type; Accumulation values are not compared here - C09 covers the matched sequences)',
    'inputs of the driver obligation range over every token kind a state of the table mentions plus one representative of all others (their columns are identical, checked on the dumped table)',
    'completeness (a prefix-deterministic pattern is accepted) is checked against the fixed expectation file spec/c12_rejections.json (verdicts of all patterns of length <= 3 at the pinned commit; rejected patterns without a witness inside the bound are listed there, not alarmed)',
    'the usable filter of apply_macros (a detector with errors is dropped, the others stay) is covered by the macro application harness (assertions tagged C12 there); here: getErrors symbolically + natively on every pattern',
]
C12_EXPLANATION = ('For every pattern the real MacroDetector is constructed natively. (i) Sound direction: for accepted patterns the solver proves that no token sequence up to min(13, shortest word + 4) tokens has two '
                   'derivations or is a word of the pattern language with a proper extension in it (so no pattern that is demonstrably not prefix-deterministic is accepted); for rejected patterns it searches such a witness. '
                   '(ii) For accepted patterns the real LR driver runs symbolically on the detector\'s own tables: it accepts exactly the inputs with a prefix in the pattern language, for all inputs up to the bound. '
                   '(iii) Verdicts of all patterns of length <= 3 are compared with the fixed expectation file; a changed verdict is replayed through the public API (DEFINE ... in a source text) before it is reported. '
                   'getErrors is executed symbolically: an error exists iff generation reported a conflict, it is MACRO_COMPILE_NON_LR at the file/line of the pattern\'s first token.')
