#!/usr/bin/env python3
"""Job builders for the macro harnesses (harness/macro_apply.cpp): C09 selection / instantiation / literal constraints, C10 hygiene,
C11 pass budget.  Plus the non-solver side checks: native order-independence cross-check through the public API (C09), the
identifier language of the scanner (C10), the tail of Theo::parse (C11)."""
import json, os, re, subprocess, sys
from collections import deque

sys.path.insert(0, os.path.dirname(os.path.abspath(__file__)))
import framework as fw, e1

H = os.path.join(fw.VERIF, 'harness', 'macro_apply.cpp')
CAPS = 'caps_macro.hpp'
AM = '_ZN4Theo12apply_macrosESt6vectorINS_5TokenEERS0_INS_15MacroDefinitionEEj'
GD = '_Z13get_detectorsRSt6vectorIN4Theo15MacroDefinitionEE'
GR = '_Z15get_replacementSt4pairI13MacroDetectorNS0_8ResponseEEi'
# contract stubs of the LR machinery (constructor, detect), libc strtol on short texts, token_string of the flex TU
BASE_STUBS = {'_ZN13MacroDetectorC2EN4Theo15MacroDefinitionE': 'stub_ctor', '_ZN13MacroDetector6detectERSt6vectorIN4Theo5TokenEE': 'stub_detect',
              'strtol': 'stub_strtol', '_ZN4Theo12token_stringENS_5Token4TypeE': 'stub_token_string'}
STEP_STUBS = dict(BASE_STUBS, **{'_Z2MDR15ExtractionState': 'stub_MD', '_Z1AR15ExtractionState': 'stub_A'})   # recursive continuation recorded
# assertions of the code under test and of the container model it calls (harness functions excluded; NULL+0 of an empty initializer_list is not UB in C++)
UB_PAT = r'^(?!_ZNKSt16initializer_list)(_ZN4Theo|_ZNSt|_ZNKSt|_ZSt|_Z15get_replacement|_Z13get_detectors|_ZN13MacroDetector|_ZNK13MacroDetector|_Z9push_rule|_Z16push_replacement|_Z10push_macro|_Z1[SDA]R15|_Z2MDR15|_Z5matchR15|_Z9lookaheadR15|_Z7advanceR15|_Z4copyR15|_Z5errorR15|_Z8strToInt|_Z14strToIntSilent)'
FUNCS_APPLY = ['Theo::apply_macros', 'get_detectors', 'MacroDetector::getErrors', 'get_replacement']


def _defs(d):
    return ['%s=%s' % kv for kv in d.items()]


def _brace(xs, n):
    xs = list(xs) + [0] * (n + 1 - len(xs))
    return '{' + ','.join(str(x) for x in xs) + '}'


def select_job(name, prios, conf=None, passes=1, nin=2, nbody=1, nmatch=1, adversarial=False, tags=(), timeout=600, pfix=None, quiet_after=None):
    """real apply_macros with the given priority pattern (one entry per definition, in order of definition)"""
    nd = len(prios); cap_nd = max(nd, 1)
    conf = list(conf or [0] * nd)
    maxr = nbody * max(nmatch, 1)
    ct = nin + 1 + (passes + 1) * max(maxr - 1, 0) + 1
    d = dict(MA_ND=cap_nd, MA_NDEF=nd, MA_NIN=nin, MA_NBODY=nbody, MA_NMATCH=nmatch, MA_RS=2, MA_PMAX=passes, MA_PFIX=passes, MA_CT=ct, MA_NERR=cap_nd + 2,
             MINISTL_VEC_CAP=1, MINISTL_MAP_CAP=1, MINISTL_STR_CAP=12 if passes <= 1 else 16, MA_PRIOS=_brace(prios, cap_nd), MA_CONF=_brace(conf, cap_nd))
    if pfix is not None:
        # budget far above the passes needed: `passes` sizes the model (log, token capacity, unwinding), the budget handed to apply_macros is pfix and the
        # detector contract says nothing matches any more after quiet_after consultations
        d['MA_PFIX'] = '%du' % pfix; d['MA_QUIET_AFTER'] = quiet_after
    u = max(cap_nd, passes) + 2
    us = {AM + '.%d' % i: u for i in range(4)}
    us[GD + '.0'] = cap_nd + 2; us[GR + '.0'] = nbody + 2
    entry = 'h_adversarial' if adversarial else 'h_select'
    return fw.Job('macro.%s' % name, H, entry, tus=[], defines=_defs(d), caps=CAPS, unwind=max(ct, cap_nd * (passes + 1)) + 2, unwindset=us, tags=list(tags), ub_pat=UB_PAT,
                  timeout=timeout, stubs=BASE_STUBS, native=False, extra=['--object-bits', '12'],
                  what='real Theo::apply_macros (with its real helpers), detectors stubbed by contract (%s): priorities %s in order of definition, rejected %s, passes=%d; the oracle replays the recorded detector answers through the specification (which match, which instantiation) and compares with the token sequences apply_macros produced'
                       % ('always reports a match' if adversarial else 'nullopt or any (location,length,non-empty matched sequences) inside the input before T_EOF, fresh choice per call', list(prios), conf, passes),
                  bounds='%d definitions (constant priorities/rejections per job, symbolic bodies <= %d tokens of kind ID/INT/;/$0/#k, symbolic slot position), input <= %d symbolic tokens + T_EOF, matched sequences 1..%d tokens, passes=%d'
                         % (nd, nbody, nin, nmatch, passes) + ('' if pfix is None else '; budget handed over = %d, detectors silent after %d consultations' % (pfix, quiet_after)),
                  functions=FUNCS_APPLY)


# the 13 order patterns of three priorities over the definition positions, the 3 of two, and extreme values
PATTERNS3 = [(5, 5, 5), (5, 5, 9), (5, 9, 5), (9, 5, 5), (9, 9, 5), (9, 5, 9), (5, 9, 9), (1, 5, 9), (1, 9, 5), (5, 1, 9), (5, 9, 1), (9, 1, 5), (9, 5, 1)]
PATTERNS2 = [(5, 5), (3, 7), (7, 3)]


def inst_job(tier, tags):
    nb, nt, nm, rs = (2, 2, 2, 3) if tier == 'quick' else (3, 2, 2, 3)
    d = dict(MA_ND=1, MA_NIN=1, MA_NBODY=nb, MA_NMATCH=nm, MA_RS=rs, MA_PMAX=1, MA_CT=nb * nm + 1, MA_NERR=2, MB_NB=nb, MB_NT=nt, MB_NM=nm,
             MINISTL_VEC_CAP=1, MINISTL_MAP_CAP=1, MINISTL_STR_CAP=16)
    return fw.Job('macro.inst', H, 'h_inst', tus=[], defines=_defs(d), caps=CAPS, unwind=nb * nm + 3, unwindset={GR + '.0': nb + 2}, tags=list(tags), ub_pat=UB_PAT,
                  timeout=600 if tier == 'quick' else 1500, stubs=BASE_STUBS, native=False, extra=['--object-bits', '12'],
                  what='real get_replacement (called through an adapter over its known signatures; through apply_macros if none fits) == body with $n replaced by exactly the tokens of slot template_token_indices[n], #n renamed <#n>:<file>:<line of body[0]>_(M<pass>), everything else copied; Token vectors model the moved-from state behind std::make_move_iterator',
                  bounds='body 1..%d tokens of symbolic kind in {ID, INT, ;, $0..$%d, #0..#2} with symbolic file/line, %d rule positions, %d slots at symbolic increasing positions, matched sequences 1..%d tokens of any kind, pass in [0,1023], line of body[0] <= 99'
                         % (nb, nt - 1, rs, nt, nm),
                  functions=['get_replacement', 'strToIntSilent'])


def temp_job(tier, tags):
    d = dict(MA_ND=1, MA_NIN=1, MA_NBODY=2, MA_NMATCH=1, MA_RS=1, MA_PMAX=1, MA_CT=3, MA_NERR=2, MINISTL_VEC_CAP=1, MINISTL_MAP_CAP=1, MINISTL_STR_CAP=20)
    return fw.Job('macro.temp_names', H, 'h_temp_names', tus=[], defines=_defs(d), caps=CAPS, unwind=5, unwindset={GR + '.0': 4}, tags=list(tags), ub_pat=UB_PAT,
                  timeout=600, stubs=BASE_STUBS, native=False, extra=['--object-bits', '12'],
                  what='two real get_replacement calls on a temporary with symbolic (n, file, defining line, pass): equal inputs equal names; different pass different names; same step different n different names; names start with # and contain : and (',
                  bounds='n <= 99, file name 1-2 arbitrary non-NUL bytes, defining line <= 999, pass <= 1023 (std::to_string of the container model)',
                  functions=['get_replacement'])


def hygiene_job(tier, tags):
    d = dict(MA_ND=1, MA_NDEF=1, MA_NIN=1, MA_NBODY=2, MA_NMATCH=1, MA_RS=2, MA_PMAX=2, MA_PFIX=2, MA_CT=5, MA_NERR=3, MINISTL_VEC_CAP=1, MINISTL_MAP_CAP=1, MINISTL_STR_CAP=16,
             MA_PRIOS='{5,0}', MA_CONF='{0,0}')
    us = {AM + '.%d' % i: 4 for i in range(4)}
    us[GD + '.0'] = 3
    return fw.Job('macro.hygiene', H, 'h_hygiene', tus=[], defines=_defs(d), caps=CAPS, unwind=7, unwindset=us, tags=list(tags), ub_pat=UB_PAT,
                  timeout=600 if tier == 'quick' else 1500, stubs=BASE_STUBS, native=False, extra=['--object-bits', '12'],
                  what='real Theo::apply_macros, one macro whose body is the temporaries #a #b, budget 2, detector always matches (anywhere, with any tokens): the variables introduced by the first step differ from those of the second step, equal/different #n within a step are equal/different variables, no name is in the identifier language; no naming scheme and no pass number assumed',
                  bounds='a, b in 0..9, input x EOF, second match anywhere in the 2 tokens of the first result, matched tokens with any kind/letter/line <= 99',
                  functions=FUNCS_APPLY)


def constraint_jobs(tier, tags):
    jobs = []
    rs = 4
    d = dict(MA_ND=1, MA_NIN=1, MA_NBODY=1, MA_NMATCH=1, MA_RS=rs, MA_PMAX=1, MA_CT=5, MA_NERR=3, MC_NT=4, MINISTL_VEC_CAP=1, MINISTL_MAP_CAP=1, MINISTL_STR_CAP=12)
    for entry, fn in (('harness_d_step', 'D'), ('harness_md_step', 'MD'), ('harness_a_step', 'A')):
        jobs.append(fw.Job('macro.%s' % entry, H, entry, tus=[], defines=_defs(d), caps=CAPS, unwind=7, tags=list(tags), ub_pat=UB_PAT, timeout=600, stubs=STEP_STUBS, native=False,
                           extra=['--object-bits', '12'],
                           what='one real step of the extraction grammar (%s incl. push_rule/push_replacement/advance) from an arbitrary state whose index lists satisfy the invariant; the recursive continuation is recorded (layer B: holds for patterns/bodies of any length by induction)' % fn,
                           bounds='pattern so far <= %d tokens of any kind, token stream <= 4 tokens of any kind with 1-2 letter texts, any position' % (rs - 1),
                           functions=['D', 'MD', 'A', 'push_rule', 'push_replacement', 'advance', 'match', 'lookahead']))
    d2 = dict(d, MA_CT=4)
    jobs.append(fw.Job('macro.check_constraint', H, 'h_check_constraint', tus=[], defines=_defs(d2), caps=CAPS, unwind=rs + 2, tags=list(tags), ub_pat=UB_PAT, timeout=600, stubs=BASE_STUBS,
                       native=False, extra=['--object-bits', '12'],
                       what='real MacroDetector::check_constraint == "every ID/INT/NV_ID position of the pattern is matched by exactly one token with equal text"',
                       bounds='pattern 1..%d tokens of any kind with 1-2 letter texts, index lists per invariant, 0..2 matched tokens per position with 1-2 letter texts' % rs,
                       functions=['MacroDetector::check_constraint']))
    d3 = dict(d, MA_CT=13, MA_NERR=3)
    shapes = [1] if tier == 'quick' else [0, 1, 2, 3]
    for k in shapes:
        jobs.append(fw.Job('macro.extract_%d' % k, H, 'h_extract_%d' % k, tus=[], defines=_defs(d3), caps=CAPS, unwind=15, tags=list(tags), ub_pat=UB_PAT, timeout=900, stubs=BASE_STUBS,
                           native=False, extra=['--object-bits', '12'], build_key=('macro.extract',),
                           what='real extract_macros end to end on DEFINE [PRIORITY n] <pattern> AS <body> END DEFINE x EOF (shape %d: concrete kinds, symbolic texts/files/lines/priority/slot numbers), then check_constraint of the extracted macro' % k,
                           bounds='shape %d of 4 (pattern <= 4 tokens, body <= 2 tokens), priority <= 999, $n with n <= 3' % k,
                           functions=['Theo::extract_macros', 'S', 'D', 'MD', 'A', 'push_rule', 'push_macro', 'push_replacement', 'strToInt', 'MacroDetector::check_constraint']))
    return jobs


# ------------------------------------------------------------------------------------------------ native cross-check (C09)
PAIRS = [
    # (definition 1, definition 2, use) - same start, different length / disjoint / different priority
    ('DEFINE A <ID> AS $0 := 1 END DEFINE', 'DEFINE A <ID> B AS $0 := 2 END DEFINE', 'A x B'),
    ('DEFINE K <ID> AS $0 := 3 END DEFINE', 'DEFINE K <ID> <INT> AS $0 := $1 END DEFINE', 'K y 7'),
    ('DEFINE L <ID> AS $0 := 4 END DEFINE', 'DEFINE R <ID> AS $0 := 5 END DEFINE', 'L a ; R b'),
    ('DEFINE PRIO 5 Q <ID> AS $0 := 6 END DEFINE', 'DEFINE PRIO 9 Q <ID> T AS $0 := 8 END DEFINE', 'Q w ; Q v T'),
]


def native_order_check(wd):
    """every pair of macro definitions compiled (and run) in both orders of definition through the public API of the native build"""
    import ctv
    res = []
    for i, (d1, d2, use) in enumerate(PAIRS):
        outs = []
        for order, text in (('12', d1 + '\n' + d2 + '\n' + use + '\n'), ('21', d2 + '\n' + d1 + '\n' + use + '\n')):
            try:
                r = ctv.native_compile(wd, {'m': text}, 'm', run_steps=1000, tag='ord%d_%s' % (i, order))
            except Exception as ex:
                r = {'crash': True, 'stderr': str(ex)[-300:]}
            outs.append({'order': order, 'source': text, 'ok': r.get('ok'), 'crash': r.get('crash', False),
                         'errors': [(e.get('msg'), e.get('line')) for e in r.get('errors', [])] if isinstance(r.get('errors'), list) else r.get('errors'),
                         'final': r.get('final'), 'done': r.get('done')})
        same = all(outs[0][k] == outs[1][k] for k in ('ok', 'crash', 'errors', 'final', 'done'))
        res.append({'pair': i, 'same': same, 'runs': outs})
    return res


# ------------------------------------------------------------------------------------------------ identifier language (C10)
def id_language_check():
    """no string that the scanner labels ID contains ':', '#' or '(' (reachability on the DFA compiled from lexer.l; C14 proves that DFA
    bisimilar to the flex tables).  Exact for identifiers of any length; an automaton computation, not a solver query."""
    import lexenc
    P = lexenc.repo_paths()
    d = lexenc.compile_lexer_l(P['lexer_l'])
    bad = [ord(c) for c in ':#(']
    seen = {(d.start, False)}; q = deque([(d.start, False, b'')]); hit = None; nid = 0
    while q:
        s, f, w = q.popleft()
        if d.kind(s) == 'ID':
            nid += 1
            if f and hit is None:
                hit = w
        for c in range(256):
            t = d.step(s, c)
            if t == d.dead:
                continue
            k = (t, f or c in bad)
            if k not in seen:
                seen.add(k); q.append((t, k[1], w + bytes([c])))
    return {'ok': hit is None and nid > 0, 'product_states': len(seen), 'id_states': nid, 'witness': None if hit is None else repr(hit)}


# ------------------------------------------------------------------------------------------------ tail of Theo::parse (C11)
def parse_tail_check(wd):
    """syntactic: Theo::parse calls apply_macros with the constant THEO_MACRO_PASSES (1024) and copies mar.errors into a.errors before it decides parsed_correctly"""
    out = {'ok': False}
    src = open(os.path.join(fw.REPO, 'Compiler', 'src', 'parse.cpp')).read()
    hdr = open(os.path.join(fw.REPO, 'Compiler', 'include', 'parse.hpp')).read()
    m = re.search(r'#define\s+THEO_MACRO_PASSES\s+(\d+)', hdr)
    out['THEO_MACRO_PASSES'] = int(m.group(1)) if m else None
    ll = os.path.join(wd, 'parse_tail.ll')
    try:
        e1.sh([e1.CLANG] + e1.BASE_CXX + [os.path.join(fw.REPO, 'Compiler', 'src', 'parse.cpp'), '-o', ll])
        txt = open(ll).read()
        fm = re.search(r'^define [^\n]*@_ZN4Theo5parseE[^\n]*\{\n(.*?)^\}', txt, re.M | re.S)
        body = fm.group(1) if fm else ''
        calls = re.findall(r'call [^\n]*@' + re.escape(AM) + r'\(([^\n]*)\)', body)
        out['ir_calls_in_parse'] = len(calls)
        out['ir_passes_operand'] = [re.findall(r'i32 noundef (\S+?)\)?$', c.strip())[-1:] for c in calls]
        ir_ok = len(calls) == 1 and out['THEO_MACRO_PASSES'] is not None and re.search(r'i32 noundef %d$' % out['THEO_MACRO_PASSES'], calls[0].strip()) is not None
    except Exception as ex:
        out['ir_error'] = str(ex)[-300:]; ir_ok = False
    out['ir_ok'] = bool(ir_ok)
    # source text: mar = apply_macros(mer.tokens, mer.macros, THEO_MACRO_PASSES); errs = {.., mar.errors}; every e of every err pushed to a.errors; then parsed_correctly
    s = re.sub(r'\s+', ' ', src)
    i_call = s.find('mar = Theo::apply_macros(mer.tokens, mer.macros, THEO_MACRO_PASSES)')
    i_errs = s.find('mar.errors}')
    m2 = re.search(r'for \(auto ?& ?err : errs\) for \(auto ?& ?e : err\) \{ a\.errors\.push_back\(', s)
    i_ok = s.find('if (a.errors.size() == 0) a.parsed_correctly = true')
    out['src_positions'] = {'call': i_call, 'errs': i_errs, 'copy_loop': m2.start() if m2 else -1, 'parsed_correctly': i_ok}
    out['src_ok'] = 0 <= i_call < i_errs and m2 is not None and i_errs < m2.start() < i_ok and s.count('a.parsed_correctly = true') == 1
    out['ok'] = out['ir_ok'] and out['src_ok'] and out['THEO_MACRO_PASSES'] == 1024
    return out
