"""C20: literal conversion obligations"""
import os
import framework as fw

def jobs(tier, prop):
    d = ['MINISTL_STR_CAP=20', 'MINISTL_VEC_CAP=6', 'MINISTL_MAP_CAP=2']
    st = {'strtol': 'model_strtol'}
    H = os.path.join(fw.VERIF, 'harness')
    J = []
    for h, e, what, fn in [('literals_gen.cpp', 'h_lit_gen', 'real strToInt/strToIntSilent of gen.cpp on a symbolic decimal literal', ['gen.cpp:strToInt']),
                           ('literals_gen.cpp', 'h_lit_silent', 'real strToIntSilent of gen.cpp: result negatable, equal to the value for accepted literals', ['gen.cpp:strToIntSilent']),
                           ('literals_gen.cpp', 'h_lit_dec', 'real dispatchValue on the lowered built-in sugar RUN __INC__/__DEC__ WITH y, <literal> END: no signed overflow inside the generator, ADD with +c / -c', ['gen.cpp:dispatchValue', 'gen.cpp:dispatchCallArgs', 'gen.cpp:strToInt', 'gen.cpp:strToIntSilent']),
                           ('literals_gen.cpp', 'h_lit_value', 'real dispatchValue(NUMBER) of gen.cpp on a symbolic decimal literal', ['gen.cpp:dispatchValue', 'gen.cpp:strToInt']),
                           ('literals_macro.cpp', 'h_lit_insertion', 'real strToInt and strToIntSilent of macro.cpp on the same symbolic insertion index: the index used when applying a macro is in range whenever extraction accepted it', ['macro.cpp:strToInt', 'macro.cpp:strToIntSilent']),
                           ('literals_macro.cpp', 'h_lit_macro', 'real strToInt of macro.cpp on a symbolic decimal literal', ['macro.cpp:strToInt'])]:
        for n in ([3, 9, -10, 11, 20] if tier == 'quick' else [-10] + list(range(1, 13)) + [20]):      # 20 digits: above LONG_MAX, the conversion function saturates / reports a range error
          bd = n < 0; n = abs(n)
          dd = d if n <= 12 else ['MINISTL_STR_CAP=24', 'MINISTL_VEC_CAP=6', 'MINISTL_MAP_CAP=2', 'LIT_MAXLEN=20']
          J.append(fw.Job('lit.%s.len%d%s' % (e, n, 'b' if bd else ''), os.path.join(H, h), e, tus=['VM/src/instr.cpp'] if 'gen' in h else [], defines=dd + ['LIT_LEN=%d' % n] + (['LIT_BOUNDARY=1'] if bd else []), caps='caps_lit.hpp', unwind=4, tags=[prop, 'C02'] if e == 'h_lit_insertion' else [prop], stubs=st, native=False, timeout=600, ub_pat=r'^(_Z\d|_ZL(?!11sym_literal|16at_least_int_max)|_ZN8GenState|_ZN16FunctionGenState|h_lit_)\S*\.overflow',
                        what=what, bounds='decimal literals without leading zero, one query per length (quick: 3, 9, 11, 20 digits and the ten-digit boundary family 21474836dd; thorough: every length 1..12 in full and 20) (covers the 2^31 boundary with margin; oracle: digit-wise comparison with 2147483647; strtol modelled per the C standard)', functions=fn, extra=['--object-bits', '12'], build_key=(h, n, bd)))
    return J
