"""C02: glue obligations (compile, AST) - memory released exactly once (CBMC --memory-leak-check), results forwarded"""
import os
import framework as fw

def c02_jobs(prop, tier, wd):
    H = os.path.join(fw.VERIF, 'harness', 'compile_h.cpp')
    d = ['MINISTL_STR_CAP=12', 'MINISTL_VEC_CAP=4', 'MINISTL_MAP_CAP=3']
    st = {'_ZN4Theo5parseESt3mapISt6stringS1_ES1_': 'stub_parse', '_ZN4Theo3genENS_3ASTE': 'stub_gen'}
    J = []
    for e, what, fn in [('harness_compile', 'real Theo::compile with parse()/gen() stubbed by arbitrary results: tree nodes released exactly once (memory-leak check), file requests and verdict forwarded', ['Theo::compile', 'Theo::AST::clear', 'Theo::AST::mk', 'Theo::Node::mk']),
                        ('harness_ast', 'AST::mk registers every node, AST::clear releases each exactly once (memory-leak check)', ['Theo::AST::mk', 'Theo::AST::clear', 'Theo::Node::mk'])]:
        J.append(fw.Job('glue.' + e, H, e, tus=['Compiler/src/compiler.cpp', 'Compiler/src/ast.cpp'], defines=d, unwind=5, tags=[prop, 'C15'], stubs=st, native=False, timeout=300,
                        ub_pat=r'memory-leak|\.pointer_dereference|double free|free argument|\(UB\)', extra=['--memory-leak-check', '--object-bits', '12'],
                        what=what, bounds='<= 3 tree nodes, <= 2 missing files', functions=fn))
    HB = os.path.join(fw.VERIF, 'harness', 'extract_b.cpp')
    n = 3 if tier == 'quick' else 5      # each function reads at most the token at the cursor and its predecessor
    sb = {'_Z1SR15ExtractionState': 'stub_exS', '_Z1DR15ExtractionState': 'stub_exD', '_Z2MDR15ExtractionState': 'stub_exMD', '_Z1AR15ExtractionState': 'stub_exA', 'strtol': 'stub_ex_strtol'}
    for e in ['harness_exS', 'harness_exD', 'harness_exMD', 'harness_exA', 'harness_extract_tail']:
        J.append(fw.Job('extract.' + e, HB, e, tus=[], defines=['EX_N=%d' % n, 'MINISTL_STR_CAP=12', 'MINISTL_VEC_CAP=4', 'MINISTL_MAP_CAP=2', 'MINISTL_OPAQUE_CONCAT=1'], caps='caps_extract.hpp', unwind=4, tags=[prop, 'C09'], stubs=sb, native=False, timeout=600 if tier == 'quick' else 1500,
                        ub_pat=r'^(_Z\d|_ZN4Theo|_ZNSt|_ZNKSt|_ZSt)\S*\.(assertion|pointer_dereference|array_bounds)', extra=['--object-bits', '12'],
                        what='real %s of macro.cpp (macro extraction), every recursive call replaced by its contract stub, symbolic token window of <= %d tokens, symbolic cursor and construction stack: progress, stack discipline, result shape, error locations, no violated container precondition' % (e.replace('harness_ex', '').replace('harness_', ''), n),
                        bounds='token window <= %d tokens, cursor anywhere incl. past the end, <= 2 macros under construction; any number of tokens by the contracts' % n,
                        functions=['macro.cpp:' + e.replace('harness_ex', '').replace('harness_extract_tail', 'Theo::extract_macros')]))
    return J
