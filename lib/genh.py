#!/usr/bin/env python3
"""Generator-side obligations [gen-E1] over the REAL functions of Compiler/src/gen.cpp (harness/gen_rules.cpp):

  static_rule_obligations  C04  UNKNOWN_PROGRAM_NAME / ARGSIZE_MISMATCH on dispatchValue(CALL), UNKNOWN_MARK on popSymbols
  obligations              C16  funcAddrs is written only when a routine is closed; EXEC targets closed routines
  wf_emit_obligations      C03  call sequences, routine frames, stack maps, jumps, register indices as emitted
  c02_jobs                 C02  every traversal function on every node shape of error-free parses (layer B), gen() frame, small whole trees

Layer A/B: small node structures built as parse.cpp builds them, names symbolic, COUNTS fixed per entry.  Why counts are fixed:
every container of the generator lives inside the one GenState object; a write at a symbolic position (push_back after a
data-dependent push) is encoded by CBMC as a byte-wise update of the whole object, after which no field of the state is a
constant for the symbolic execution any more and the query does not finish (measured: 20 GB / no verdict).  So each entry keeps
the positions concrete for as long as possible and lets names, table contents and operands be symbolic.
"""
import json, os, re, shutil
import framework as fw

H = os.path.join(fw.VERIF, 'harness', 'gen_rules.cpp')
TUS = ['VM/src/instr.cpp', 'VM/src/program.cpp']
CAPS = 'caps_genrules.hpp'
# environment models (harness/gen_rules.cpp): strtol on short digit strings, to_string without division, diagnostics without text
ENV = {'strtol': 'gr_strtol', '_ZSt9to_stringi': 'gr_to_string_i', '_ZSt9to_stringm': 'gr_to_string_m'}
NOTEXT = {'_ZStplRKSt6stringS1_': 'gr_plus_ss', '_ZStplPKcRKSt6string': 'gr_plus_cs', '_ZStplRKSt6stringPKc': 'gr_plus_sc'}
DISPATCH_VOID = '_Z12dispatchVoidR8GenStatePN4Theo4NodeE'
GEN_AST = '_Z7gen_astR8GenState'
# undefined behaviour in scope for C02: every check CBMC places inside a function of gen.cpp (null / invalid pointer, bounds, overflow)
# and every library precondition of the container model that such a function violates
UB_PAT = r'^((_Z\d|_ZN8GenState|_ZN16FunctionGenState|_ZN4Theo3gen)\S* |(_ZNSt|_ZNKSt|_ZSt)\S*\.assertion\.\d+ ministl: .*\((UB|throws)\))'
SOLVER = ['--sat-solver', 'cadical', '--object-bits', '12', '--slice-formula']
# recursion of the traversal: the harness trees need two nested recursive calls (two parameters / arguments); a tighter bound than the loop
# bound keeps the query small when a mutated generator follows a garbage pointer (then reported as bound exceeded next to the violation)
# (CBMC rejects an --unwindset entry for a function that is not part of the program, so each family names the ones it reaches)
R_ARGS, R_CALLARGS, R_VALUE = '_Z12dispatchArgsR8GenStatePN4Theo4NodeE', '_Z16dispatchCallArgsR8GenStatePN4Theo4NodeERSt6vectorIiE', '_Z13dispatchValueR8GenStatePN4Theo4NodeEi'
RECURSION = {R_ARGS: 3, R_CALLARGS: 3, R_VALUE: 3, DISPATCH_VOID: 2}
WHOLE = ['--no-array-field-sensitivity']     # strings as whole arrays (cheaper where names are symbolic); default: per-element (keeps constants)


def _defs(part, **kw):
    d = dict(MINISTL_STR_CAP=20, MINISTL_VEC_CAP=2, MINISTL_MAP_CAP=3, GR_PART=part, GR_CODE=8, GR_INT=3, GR_REGS=4, GR_SYMS=1, GR_FUNCS=2,
             GR_MARKS=1, GR_SITES=1, GR_NODES=1, GR_PERR=1)
    d.update(kw)
    return ['%s=%s' % kv for kv in sorted(d.items())]


def _stubs(*more):
    s = dict(ENV)
    for m in more: s.update(m)
    return s


FAMILIES = {}


def family(name):
    def deco(f):
        FAMILIES[name] = f
        return f
    return deco


def _job(entry, part_defs, stubs, extra, unwind, tags, ub, timeout, what, bounds, functions, rec=()):
    return fw.Job('gen.' + entry, H, entry, tus=TUS, defines=part_defs, caps=CAPS, unwind=unwind, tags=tags, ub_pat=ub, timeout=timeout, stubs=stubs,
                  native=False, what=what, bounds=bounds + '; unwind %d' % unwind, functions=functions, extra=extra, unwindset={k: RECURSION[k] for k in rec} if rec else None)


@family('regs')
def regs_jobs(tier, tags, ub, timeout, quick_subset):
    d = _defs(1, GR_REGS=6)
    b = 'register file of <= 4 (h_regs_seq: <= 2) registers, each an arbitrary temporary (free or in use) or a variable named a, b or c, satisfying Inv_reg; any operation / argument'
    fn = ['FunctionGenState::fetchTemporary', 'FunctionGenState::releaseTemporary', 'FunctionGenState::fetchVariableRegister']
    return [
        _job('h_regs_step', d, _stubs(), SOLVER + WHOLE, 8, tags, ub, timeout,
             'Inv_reg => one of fetchTemporary / releaseTemporary(i) / fetchVariableRegister(v): returned index < size afterwards, the file never shrinks, a free temporary is reused else one is appended, '
             'a variable register is never freed or handed out as a temporary, a known name gets its register again, all other registers unchanged, Inv_reg preserved', b, fn),
        _job('h_regs_seq', d, _stubs(), SOLVER + WHOLE, 8, tags, ub, timeout,
             'two fetches of the same variable and two fetches of a temporary around one arbitrary register operation: same variable register; the live temporary is not handed out again unless released', b, fn),
    ]


CALL_ENTRIES = [('h_call_0', 'no argument'), ('h_call_1n', 'one NAME argument'), ('h_call_1c', 'one NUMBER argument'), ('h_call_2nn', 'NAME, NAME'),
                ('h_call_2nc', 'NAME, NUMBER'), ('h_call_2cn', 'NUMBER, NAME'), ('h_call_2cc', 'NUMBER, NUMBER')]


@family('call')
def call_jobs(tier, tags, ub, timeout, quick_subset):
    d = _defs(2, GR_CODE=10, GR_REGS=6, GR_INT=3)
    ents = CALL_ENTRIES if not quick_subset else [e for e in CALL_ENTRIES if e[0] in quick_subset]
    return [_job(e, d, _stubs(NOTEXT), SOLVER + WHOLE, 8, tags, ub, timeout,
                 'real dispatchValue on RUN <callee> WITH <%s> END (SPLIT chain as VARGS/MVARGS build it): UNKNOWN_PROGRAM_NAME iff callee not a key of funcAddrs (nothing emitted for the call), else ARGSIZE_MISMATCH iff argnum differs, '
                 'else no error and the tail PREPARE(stack_size, mi, tgt), ARG(k, temp_k) k = 0..n-1, EXEC(ind) follows the argument code contiguously; temporaries distinct and released; funcAddrs unchanged; EXEC entry < its index given Inv_fa' % a,
                 'callee in {f, g, h}; funcAddrs: 0..2 entries with names from {f, g}, Prog{ind in code emitted so far, any mi, argnum 0..2, any stack_size >= argnum}; argument names in {a, b, c}, literals one digit; '
                 'register file of <= 2 arbitrary registers (Inv_reg); 3 instructions emitted so far (2 arbitrary); any result register >= 0; __INC__/__DEC__ excluded (C20)',
                 ['dispatchValue', 'dispatchCallArgs', 'FunctionGenState::fetchTemporary', 'FunctionGenState::releaseTemporary', 'FunctionGenState::fetchVariableRegister', 'GenState::emit', 'GenState::err'], rec=(R_VALUE, R_CALLARGS))
            for e, a in ents]


PROGRAM_ENTRIES = [('h_program_noports', 'PROGRAM f DO .. END (PORTS node absent)'), ('h_program_1', 'IN p (OPORTS absent)'), ('h_program_1out', 'IN p OUT o'),
                   ('h_program_2', 'IN p, q (OPORTS absent)'), ('h_program_2out', 'IN p, q OUT o')]


@family('program')
def program_jobs(tier, tags, ub, timeout, quick_subset):
    d = _defs(3, GR_CODE=6, GR_REGS=4, GR_SYMS=2, GR_FUNCS=3, GR_INT=2)
    ents = PROGRAM_ENTRIES if not quick_subset else [e for e in PROGRAM_ENTRIES if e[0] in quick_subset]
    return [_job(e, d, _stubs(NOTEXT, {DISPATCH_VOID: 'stub_body'}), SOLVER, 8, tags, ub, timeout,
                 'real dispatchProgram on %s, body (dispatchVoid) replaced by an observing stub: while the body is compiled funcAddrs is the table from before the header (the routine is not callable; an earlier definition of the name stays bound); '
                 'afterwards funcAddrs[name] = {entry right after the JMP, index of the one pushed stack map, number of parameters, final register count}, other definitions unchanged; the routine is JMP, body, RET(register of OUT or x0); '
                 'RET register and all stack map keys < recorded frame size; JMP listed in backpatching_todo, its label set to the position after RET' % a,
                 'routine name in {f, g, h}; funcAddrs as for the call obligations; parameter and OUT names in {a, b, c} (equal names allowed); body = one temporary + one arbitrary instruction; 2 instructions, 1 label, 1 listed jump, 1 stack map before',
                 ['dispatchProgram', 'dispatchArgs', 'GenState::pushSymbols', 'GenState::popSymbols', 'GenState::createLabel', 'GenState::setLabel', 'GenState::emitBackpatched', 'FunctionGenState::fetchVariableRegister'], rec=(R_ARGS,))
            for e, a in ents]


LABEL_ENTRIES = [('h_labels_fwd', 'p: GOTO x; y:   q: z:', dict(MINISTL_STR_CAP=12, GR_CODE=5, GR_REGS=1, GR_INT=3)),
                 ('h_labels_back', 'p: x: IF..GOTO y   q: z: GOTO w', dict(GR_CODE=10, GR_REGS=4, GR_INT=4)),
                 ('h_labels_two', 'p: IF..GOTO x; GOTO y; z:   q: w:', dict(GR_CODE=10, GR_REGS=4, GR_INT=4)),
                 ('h_labels_mix', 'p: GOTO x; y: z:   q: IF..GOTO w; v:', dict(GR_CODE=10, GR_REGS=4, GR_INT=4))]


@family('labels')
def labels_jobs(tier, tags, ub, timeout, quick_subset):
    ents = LABEL_ENTRIES if not quick_subset else [e for e in LABEL_ENTRIES if e[0] in quick_subset]
    return [_job(e, _defs(4, GR_MARKS=2, **kw), _stubs(NOTEXT), SOLVER + WHOLE, 8, tags, ub, timeout,
                 'two routines of statements %s compiled by the real dispatchGoto / dispatchIf / dispatchMark, closed by the real popSymbols: UNKNOWN_MARK once per label referenced and never set in THAT routine; every JMP/JMPC is in backpatching_todo; '
                 'if all labels are set, the real backpatch() gives every listed jump offset = recorded label position - own position, inside the routine (entry..RET)' % a,
                 'statement kinds fixed per entry, every label name symbolic in {l, m}; node structures as P of parse.cpp builds them',
                 ['dispatchGoto', 'dispatchIf', 'dispatchMark', 'GenState::popSymbols', 'GenState::backpatch', 'GenState::createLabel', 'GenState::setLabel', 'GenState::emitBackpatched', 'GenState::getMarkPos'], rec=(R_VALUE, R_CALLARGS))
            for e, a, kw in ents]


VOID_ENTRIES = [
    ('harness_void_null', 'NULL subtree: dispatchVoid, dispatchValue, dispatchArgs, dispatchCallArgs return without effect'),
    ('harness_void_split', 'SPLIT(l, r), r present or NULL: both handed on in order, once each'),
    ('harness_void_assign', 'ASSIGN(NAME, NAME | NUMBER): one instruction, registers in order of first use'),
    ('harness_void_loop', 'LOOP(NAME, body): counter := bound, JMPC, body (handed on once), counter - 1, JMP; private counter register; labels set; jumps listed'),
    ('harness_void_while', 'WHILE(NAME, body): condition, JMPC, body (handed on once), JMP; temporary released; labels set; jumps listed'),
    ('harness_void_jumps', 'STOP, label, GOTO, IF nodes routed by dispatchVoid: HALT / label set / JMP / TEST+JMPC, jumps listed'),
    ('harness_void_program', 'PROGRAM node with the PORTS node absent, routed by dispatchVoid (parameter list via stub): NULL handed to dispatchArgs, JMP, body, RET; definition recorded'),
    ('harness_void_program_in', 'PROGRAM node IN a (OPORTS absent)'), ('harness_void_program_inout', 'PROGRAM node IN a OUT b'),
    ('harness_void_malformed', 'node kinds that cannot stand in statement / value position: MALFORMED_AST, children untouched'),
    ('harness_gen_ast', 'gen_ast(): parsed correctly => root (or NULL) traversed once; else parse errors forwarded one to one as PARSE_ERROR, nothing generated'),
]


@family('void')
def void_jobs(tier, tags, ub, timeout, quick_subset):
    d = _defs(6, MINISTL_STR_CAP=24, MINISTL_VEC_CAP=3, GR_CODE=8, GR_REGS=4, GR_SYMS=2, GR_FUNCS=2, GR_SITES=2, GR_PERR=2, GR_MARKS=3, GR_INT=3)
    ents = VOID_ENTRIES if not quick_subset else [e for e in VOID_ENTRIES if e[0] in quick_subset]
    # (a generator that follows an absent node makes the query slow instead of quick: give it time to report the violation)
    return [_job(e, d, _stubs({DISPATCH_VOID: 'stub_void', R_ARGS: 'stub_args'}), SOLVER, 10, tags, ub, max(timeout, 700),
                 'layer B, real traversal function on one node with the traversal of its children replaced by an observing stub: ' + a,
                 'one node of the stated kind with the children the parser guarantees (tree invariant in harness/gen_rules.cpp part 6); names concrete; holds for trees of any size by induction over the height',
                 ['dispatchVoid', 'dispatchValue', 'dispatchAssign', 'dispatchLoop', 'dispatchWhile', 'dispatchMark', 'dispatchGoto', 'dispatchIf', 'dispatchProgram', 'dispatchArgs', 'dispatchCallArgs', 'gen_ast'], rec=(R_ARGS, R_CALLARGS, R_VALUE, DISPATCH_VOID))
            for e, a in ents]


@family('frame')
def frame_jobs(tier, tags, ub, timeout, quick_subset):
    d = _defs(7, GR_CODE=5, GR_REGS=2, GR_INT=2, GR_FUNCS=1)
    return [_job('h_gen_frame', d, _stubs({GEN_AST: 'stub_frame'}), SOLVER, 8, tags, ub, timeout,
                 'real Theo::gen() with gen_ast() replaced by an observer: the traversal gets the AST that was passed in and starts from PREPARE + empty root symbol table; afterwards the root routine is closed (frame size and stack map '
                 'patched into the root PREPARE), HALT appended, jumps patched; generated_correctly == (no error recorded), errors returned',
                 'any parsed_correctly flag, root present or NULL; traversal outcome: one variable, one forward jump with its label set, one instruction, optionally one error',
                 ['Theo::gen', 'GenState::pushSymbols', 'GenState::popSymbols', 'GenState::backpatch', 'GenState::emit'])]


ERR_SINK = {'_ZN8GenState3errEN4Theo13CodegenResult5Error4TypeESt6string': 'stub_err8'}
LOWER_TAGS = ['C01', 'C03', 'C16']      # the assertions of part 8 carry the id of the property they serve; each property counts its own
# quick: the counts of the pre-state are constants of the build (2 instructions, 1 label, 1 pending jump, 2 registers), contents symbolic;
# thorough: counts symbolic within 1..3 instructions, 0..2 labels, 0..2 pending jumps, 0..3 registers
LOWER_FIXED = dict(G8_N0=2, G8_N0_LO=2, G8_NL=1, G8_NL_LO=1, G8_NT=1, G8_NT_LO=1, G8_REGS=2, G8_REGS_LO=2)
LOWER_CAPS = dict(MINISTL_STR_CAP=24, MINISTL_VEC_CAP=3, GR_CODE=12, GR_INT=6, GR_REGS=7)


@family('lowering')
def lowering_jobs(tier, tags, ub, timeout, quick_subset):
    kw = dict(LOWER_CAPS)
    if tier == 'quick': kw.update(LOWER_FIXED)
    return [_job('h_assign', _defs(8, **kw), _stubs(), SOLVER, 8, tags, ub, timeout,
                 'real dispatchAssign + dispatchValue on x := y / x := <literal> from an arbitrary generator state: exactly one instruction, ADD(reg x, reg y, 0) / CONST(reg x, value); x and an undeclared y get variable registers '
                 '(appended, never temporaries), known names keep their registers; operands below the register count; earlier code, labels, pending jumps, loop count, existing registers untouched; Inv_reg preserved',
                 'x, y in {a, b, c} (x = y allowed), literal of 1..3 digits; register file satisfying Inv_reg with variables named a, b, c or counters of earlier loops; code / labels / pending jumps satisfying Inv_lab; '
                 + ('counts fixed: 2 instructions, 1 label, 1 pending jump, 2 registers' if tier == 'quick' else 'counts symbolic: 1..3 instructions, 0..2 labels, 0..2 pending jumps, 0..3 registers, 0..8 loops'),
                 ['dispatchAssign', 'dispatchValue', 'FunctionGenState::fetchVariableRegister', 'GenState::emit'])]


@family('lowering_loops')
def lowering_loop_jobs(tier, tags, ub, timeout, quick_subset):
    """h_loop / h_while (real dispatchLoop / dispatchWhile, children replaced by contract stubs, then the real backpatch()): all claim assertions hold on
    the unchanged tree, but the query needs about 1700 s and 8 GB per entry (symbolic execution dominates), so the family is in no plan yet"""
    return [_job(e, _defs(8, **LOWER_CAPS), _stubs(ERR_SINK, {R_VALUE: 'stub_value8', DISPATCH_VOID: 'stub_body8'}), SOLVER, 8, tags, ub, max(timeout, 3000), a,
                 'pre-state: 1..3 instructions, 0..2 labels, 0..2 pending jumps (Inv_lab), 0..3 registers (Inv_reg), loop number 0..8; value stub 0..2 non-jump instructions + optional variable; body stub 0..2 instructions, '
                 'optional temporary, optional jump with new / existing label, optional nested loop', ['dispatchLoop', 'dispatchWhile', 'GenState::backpatch', 'GenState::createLabel', 'GenState::setLabel', 'GenState::emitBackpatched',
                 'FunctionGenState::fetchTemporary', 'FunctionGenState::releaseTemporary', 'FunctionGenState::fetchVariableRegister'])
            for e, a in [('h_loop', 'LOOP: value once into the private counter (variable register, hidden name with loop number, never a temporary), JMPC, body, ADD -1, JMP; jump targets after backpatch()'),
                         ('h_while', 'WHILE: condition between start label and JMPC, re-evaluated by the back jump; exit to the position after the back jump; condition temporary live in the body, released once afterwards')]]


SHAPE_ENTRIES = [('h_shape_assign', 'x := <digit>', True), ('h_shape_seq', 'x := y; (next line) y := <digit>', True), ('h_shape_unknown_mark', 'GOTO l (never set): 2 errors', True),
                 ('h_shape_sugar', 'x := y + 7; x := x - 7 (RUN __INC__/__DEC__ WITH .., .. END from __standards__)', True),
                 ('h_shape_jumps', 'l: x := 7; IF x = 0 THEN GOTO l; GOTO l over three lines', False), ('h_shape_while', 'WHILE x != 0 DO x := 7 END; STOP', False),
                 ('h_shape_loop', 'LOOP x DO y := y END over three lines', False)]
# the statements of Theo::gen() around gen_ast(), as mirrored by run_gen() of the harness (whitespace-free); compared with the source on every run
GEN_FRAME_TEXT = ('gs.emit(Instruction::PrepareExec(-1,-1,0));gs.pushSymbols("#root");gen_ast(gs);gs.popSymbols(0);Progp=gs.funcAddrs["#root"];'
                  'gs.out.code[0].parameters.prepare.count=p.stack_size;gs.out.code[0].parameters.prepare.index=p.mi;gs.emit(Instruction::Halt());gs.backpatch();'
                  'return{.generated_correctly=gs.errors.size()==0,.errors=gs.errors,.code=gs.out,.file_requests={}};')


def _strip_comments(raw):
    src = re.sub(r'//[^\n]*', lambda m: ' ' * len(m.group(0)), raw)
    return re.sub(r'/\*.*?\*/', lambda m: re.sub(r'[^\n]', ' ', m.group(0)), src, flags=re.S)


def _body(src, header_re):
    m = re.search(header_re, src)
    if not m: return None
    i = src.index('{', m.end() - 1); depth = 0
    for k in range(i, len(src)):
        if src[k] == '{': depth += 1
        elif src[k] == '}':
            depth -= 1
            if depth == 0: return (m.start(), k + 1)
    return None


def gen_frame_matches(repo):
    """does the text of Theo::gen() after its GenState initialiser equal the statement list mirrored in the harness (run_gen)?"""
    try:
        src = _strip_comments(open(os.path.join(repo, 'Compiler/src/gen.cpp')).read())
        sp = _body(src, r'CodegenResult\s+Theo::gen\s*\([^)]*\)\s*\{')
        body = re.sub(r'\s+', '', src[sp[0]:sp[1]])
        return body.endswith(GEN_FRAME_TEXT + '}') and '.fs={.name="#root_file_context",.line=0,},};' in body
    except Exception:
        return False


@family('shapes')
def shape_jobs(tier, tags, ub, timeout, quick_subset):
    if not gen_frame_matches(fw.REPO):
        print('NOTE genh: the text of Theo::gen() differs from the frame mirrored in harness/gen_rules.cpp (run_gen); whole-tree cross-checks skipped, the per-function obligations and h_gen_frame still apply')
        return []
    d = _defs(5, MINISTL_STR_CAP=24, MINISTL_VEC_CAP=3, GR_CODE=16, GR_REGS=6, GR_SYMS=2, GR_FUNCS=3, GR_SITES=5, GR_PERR=2, GR_MARKS=3, GR_INT=6)
    ents = [e for e in SHAPE_ENTRIES if (e[2] or tier == 'thorough')]
    return [_job(e, d, _stubs(), SOLVER, 10, tags, ub, max(timeout, 900) if not q else timeout,
                 'layer C cross-check: the real gen_ast / dispatchVoid / dispatchValue / popSymbols / backpatch on the whole tree of: %s - no undefined behaviour, generated_correctly == errors.empty(), expected number of diagnostics, PREPARE .. HALT' % a,
                 'one concrete tree built as parse.cpp builds it (names and line labels concrete, digits symbolic in the two smallest shapes); entered through the frame of Theo::gen() mirrored in the harness (text compared with gen.cpp on every run)',
                 ['gen_ast', 'dispatchVoid', 'dispatchValue', 'dispatchAssign', 'dispatchGoto', 'dispatchIf', 'dispatchMark', 'dispatchLoop', 'dispatchWhile', 'GenState::popSymbols', 'GenState::backpatch', 'GenState::advanceLine'])
            for e, a, q in ents]


def build_jobs(prop, tier, plan, tags=None, ub=None):
    """plan: list of (family, quick_subset or None)"""
    timeout = 1500 if tier == 'thorough' else 900     # the jobs need 6-90 s on /repo; the cap matters only for refactored generator code or a loaded machine (seed C16-entry-created-before-body: 421 s was too tight)
    jobs = []
    for fam, sub in plan:
        jobs += FAMILIES[fam](tier, list(tags or [prop]), ub, timeout, sub if tier == 'quick' else None)
    for j in jobs:
        j.name = '%s.%s' % (j.name, prop)
    return jobs


# ------------------------------------------------------------------------------------------------ syntactic premises (C16)
def funcaddrs_frame_check(repo):
    """premise of the C16 induction, checked on the text of gen.cpp: funcAddrs is assigned only inside popSymbols(); every other use
    is a look-up (find / end / reading operator[] after a successful find); popSymbols() is called only by dispatchProgram() right
    after the RET was emitted, and by gen() for #root after the traversal.  Returns (facts, problems)."""
    facts, problems = [], []
    try:
        src = _strip_comments(open(os.path.join(repo, 'Compiler/src/gen.cpp')).read())
    except Exception as ex:
        return facts, ['gen.cpp not readable: %s' % ex]
    spans = {'popSymbols': _body(src, r'void\s+popSymbols\s*\(\s*ProgramIndex\s+\w+\s*\)\s*\{'),
             'dispatchProgram': _body(src, r'void\s+dispatchProgram\s*\([^)]*\)\s*\{'),
             'dispatchValue': _body(src, r'void\s+dispatchValue\s*\(GenState[^)]*\)\s*\{'),
             'gen': _body(src, r'CodegenResult\s+Theo::gen\s*\([^)]*\)\s*\{')}
    for k, v in spans.items():
        if v is None: problems.append('function %s not found in gen.cpp' % k)
    if problems: return facts, problems
    inside = lambda pos, name: spans[name][0] <= pos < spans[name][1]
    line_of = lambda pos: src.count('\n', 0, pos) + 1
    writes = reads = 0
    for m in re.finditer(r'\bfuncAddrs\b', src):
        rest = src[m.end():m.end() + 200]
        before = src[max(0, m.start() - 40):m.start()]
        if re.match(r'\s*;', rest) and re.search(r'std::map<\s*std::string\s*,\s*Prog\s*>\s*$', before):
            continue                                           # the declaration
        if re.match(r'\s*=\s*\{\s*\}', rest) and inside(m.start(), 'gen') and before.rstrip().endswith('.'):
            continue                                           # designated initialiser of gen()
        if re.match(r'\s*\.\s*(find|end)\s*\(', rest):
            reads += 1; continue
        mm = re.match(r'\s*\[[^\]]*\]\s*(=(?!=))?', rest)
        if mm:
            if mm.group(1):
                writes += 1
                if not inside(m.start(), 'popSymbols'):
                    problems.append('funcAddrs[...] is assigned outside popSymbols() at gen.cpp:%d' % line_of(m.start()))
            else:
                reads += 1
                if not (inside(m.start(), 'dispatchValue') or inside(m.start(), 'gen')):
                    problems.append('funcAddrs[...] is read (operator[] may insert) outside dispatchValue()/gen() at gen.cpp:%d' % line_of(m.start()))
            continue
        problems.append('use of funcAddrs in a form the check does not know at gen.cpp:%d: %s' % (line_of(m.start()), src[m.start():m.start() + 50].split('\n')[0]))
    facts.append('funcAddrs: %d assignment(s), all inside popSymbols(); %d look-ups (find/end/reading operator[])' % (writes, reads))
    if writes != 1: problems.append('expected exactly one assignment to funcAddrs[...], found %d' % writes)
    # the reading operator[] in dispatchValue comes after the find()-guard that returns on a miss
    dv = src[spans['dispatchValue'][0]:spans['dispatchValue'][1]]
    g = re.search(r'funcAddrs\s*\.\s*find\s*\(\s*funcname\s*\)\s*==\s*gs\s*\.\s*funcAddrs\s*\.\s*end\s*\(\s*\)\s*\)\s*\{[^}]*return\s*;\s*\}', dv)
    r = re.search(r'=\s*gs\s*\.\s*funcAddrs\s*\[\s*funcname\s*\]', dv)
    if not (g and r and g.end() <= r.start()):
        problems.append('dispatchValue(): the read funcAddrs[funcname] is not preceded by the find()-guard that returns for an unknown name')
    else:
        facts.append('dispatchValue(): funcAddrs[funcname] is read only after find(funcname) succeeded (no insertion)')
    calls = [m for m in re.finditer(r'\bpopSymbols\s*\(', src) if not (spans['popSymbols'][0] <= m.start() < spans['popSymbols'][0] + 40)]
    where = []
    for m in calls:
        if inside(m.start(), 'dispatchProgram'):
            pre = re.sub(r'\s+', '', src[spans['dispatchProgram'][0]:m.start()])
            if not pre.endswith('gs.emit(Instruction::Ret(ret_val));gs.'):
                problems.append('dispatchProgram(): popSymbols() is not called right after the RET was emitted (gen.cpp:%d)' % line_of(m.start()))
            where.append('dispatchProgram (right after emit(Ret))')
        elif inside(m.start(), 'gen'):
            pre = re.sub(r'\s+', '', src[spans['gen'][0]:m.start()])
            if not pre.endswith('gen_ast(gs);gs.'):
                problems.append('gen(): popSymbols() of the root is not called right after the traversal (gen.cpp:%d)' % line_of(m.start()))
            where.append('gen (#root, after the traversal)')
        else:
            problems.append('popSymbols() is called outside dispatchProgram()/gen() at gen.cpp:%d' % line_of(m.start()))
    facts.append('popSymbols() callers: ' + ', '.join(where))
    if len(calls) != 2: problems.append('expected two calls of popSymbols(), found %d' % len(calls))
    return facts, problems


# ------------------------------------------------------------------------------------------------ running and merging
MODEL_NOTES = [
    'generator obligations (lib/genh.py, harness/gen_rules.cpp): names, table contents and operands are symbolic, the COUNTS (arguments, parameters, statements, instructions emitted before) are constants of each obligation; '
    'names come from three-letter alphabets (f/g/h, a/b/c, l/m): the generator only copies and compares names, the alphabets cover first/middle/last insertion positions of its maps',
    'environment models used by these obligations: strtol on literals of at most 3 digits (literal conversion is C20); std::to_string exact for 0..999, otherwise a string flagged as truncated; the text of diagnostics '
    '(std::operator+ on strings, except where dispatchLoop builds its counter name) is not modelled and flagged as truncated - comparing a flagged string is a model-bound failure, so no verdict can depend on it',
    'Inv_reg (temporaries are named "Temporary Variable", variable registers are in use, not temporary and named otherwise) is assumed for register files of pre-states and shown to be preserved by every register operation and by compiling a call',
    'CBMC runs with --slice-formula (assignments outside the cone of influence of the assertions are dropped), the cadical back end and, where names are symbolic, --no-array-field-sensitivity; these affect speed only',
]


def _retag_replays(prop, out, n0):
    """counterexamples of these harnesses are local generator states without a native twin of the harness: make their replay files
    re-decidable by `check.py --replay` through this module"""
    for v in out.violations[n0:]:
        if v.get('confirmed') is not None: continue
        try:
            r = json.load(open(v['replay']))
            if 'nondet_stream' in r: r['solver_nondet_stream'] = r.pop('nondet_stream')
            r.update({'module': 'genh', 'kind': 'layerAB'})
            json.dump(r, open(v['replay'], 'w'), indent=1)
        except Exception:
            pass


def _run(prop, tier, wd, out, plan, tags=None):
    jobs = build_jobs(prop, tier, plan, tags=tags)
    sub = os.path.join(wd, 'genh_' + prop)       # own build directory: run_jobs numbers its builds from h0 in the directory it is given
    os.makedirs(sub, exist_ok=True)
    n0 = len(out.violations)
    fw.run_jobs(prop, jobs, sub, workers=10)
    fw.classify(prop, jobs, sub, out)
    _retag_replays(prop, out, n0)
    return jobs


def static_rule_obligations(prop, tier, seed, wd, out):
    """C04: static rules of the generator"""
    plan = [('call', ['h_call_0', 'h_call_1n', 'h_call_2nc', 'h_call_2cn']), ('labels', ['h_labels_fwd', 'h_labels_back'])]
    jobs = _run(prop, tier, wd, out, plan)
    return {'gen_obligations': len(jobs), 'gen_model_notes': MODEL_NOTES, 'gen_static_rules': ['UNKNOWN_PROGRAM_NAME <=> callee not a key of funcAddrs (closed definitions)', 'ARGSIZE_MISMATCH <=> known callee, argument count != parameter count',
                                                               'UNKNOWN_MARK <=> a label referenced in the routine is never set in it', 'range error <=> literal >= 2^31-1: C20']}


def obligations(prop, tier, seed, wd, out):
    """C16: no recursion"""
    facts, problems = funcaddrs_frame_check(fw.REPO)
    for p in problems:
        out.inconclusive.append('premise of the no-recursion induction not confirmed on the text of gen.cpp: ' + p)
    plan = [('program', ['h_program_noports', 'h_program_1out', 'h_program_2']), ('call', ['h_call_0', 'h_call_2nc'])]     # (+ ('lowering_loops', None) once h_loop is affordable: its C16 assertions state the privacy of the LOOP counter; h_assign carries no C16 assertion)
    if tier == 'thorough': plan.append(('lowering_loops', None))     # h_loop / h_while: about 1700 s and 8 GB each, thorough tier only
    jobs = _run(prop, tier, wd, out, plan)
    return {'gen_obligations': len(jobs), 'gen_frame_check': facts, 'gen_model_notes': MODEL_NOTES,
            'gen_induction': 'Inv_fa: every entry of funcAddrs is the start of a routine whose RET is already emitted (entry <= RET index < code size). Established by dispatchProgram (recorded only after RET; the table is '
                             'untouched while the body is compiled, so the routine cannot call itself and a redefined name stays bound to the earlier routine), preserved by emit (append only) and by removeTopPotBreak (pops '
                             'breakpoint sites only, C08); used by dispatchValue(CALL): EXEC entry = recorded entry < own index. Hence every EXEC targets a routine closed before the call was compiled: the call graph is acyclic.'}


def wf_emit_obligations(prop, tier, seed, wd, out):
    """C03 (ii): the generator emits well-formed call sequences, frames, stack maps, jumps and register indices"""
    plan = [('regs', None), ('call', ['h_call_0', 'h_call_1c', 'h_call_2nn', 'h_call_2cn']), ('program', ['h_program_noports', 'h_program_1', 'h_program_2out']),
            ('labels', ['h_labels_fwd', 'h_labels_back']), ('void', ['harness_void_assign', 'harness_void_loop', 'harness_void_while', 'harness_void_jumps', 'harness_void_program']), ('frame', None), ('lowering', None)]
    jobs = _run(prop, tier, wd, out, plan)
    return {'gen_obligations': len(jobs), 'gen_model_notes': MODEL_NOTES,
            'gen_wf_argument': 'call sequences: PREPARE(count = recorded frame size, index = recorded stack map, target), ARG k = 0..n-1 with k < argnum <= frame size, EXEC(recorded entry), contiguous (h_call_*); '
                               'recorded frame size = final register count, RET register and stack map keys below it, entry right after the JMP over the routine, JMP listed and its label set (h_program_*); every JMP/JMPC of GOTO, IF, '
                               'LOOP, WHILE is listed and patched to the recorded position inside its routine, every created label is set or reported (h_labels_*, harness_void_loop/while/jumps); register indices are below the size '
                               'of the register file, which never shrinks (h_regs_*); gen() patches the root PREPARE, appends HALT and runs backpatch (h_gen_frame)'}


def lowering_obligations(prop, tier, seed, wd, out):
    """C01: the lowering of assignment (and, once affordable, LOOP / WHILE: family lowering_loops) from an arbitrary generator state"""
    jobs = _run(prop, tier, wd, out, [('lowering', None)] + ([('lowering_loops', None)] if tier == 'thorough' else []))
    return {'gen_obligations': len(jobs), 'gen_model_notes': MODEL_NOTES,
            'gen_lowering': 'x := y / x := c from any generator state satisfying Inv_reg and Inv_lab: one instruction writing the variable register of x from the variable register of y / the constant, nothing else changes (h_assign)'}


def c02_jobs(prop, tier, wd):
    """C02 stage 6: the generator on error-free trees (and on failed parses)"""
    plan = [('void', None), ('frame', None), ('shapes', None), ('call', ['h_call_0', 'h_call_2nc']), ('program', ['h_program_noports', 'h_program_2out']), ('labels', ['h_labels_back'])]
    return build_jobs(prop, tier, plan, tags=[prop], ub=UB_PAT)


def replay(r):
    """check.py --replay <file>: the counterexample is a local generator state; it is re-decided by the solver on the current sources"""
    prop = r.get('property', 'C04')
    wd = fw.workdir('replayGENH')
    try:
        jobs = []
        for fam in FAMILIES:
            jobs += [j for j in FAMILIES[fam]('thorough', [prop], UB_PAT if prop == 'C02' else None, 900, None) if j.entry == r.get('entry')]
        if not jobs:
            print('NOT REPRODUCED (obligation %s no longer exists)' % r.get('entry')); return 0
        j = jobs[0]
        fw.run_jobs(prop, [j], wd)
        if j.result is None or j.result.status != 'done':
            print('NOT REPRODUCED (no verdict: %s)' % (j.error or (j.result.status if j.result else '?'))); return 0
        st = [p['status'] for p in j.result.props.values() if p['description'] == r['assertion']]
        hit = 'FAILURE' in st
        print(json.dumps({'obligation': j.name, 'assertion': r['assertion'], 'solver_status': st, 'choices': r.get('cex')}, indent=1)[:3000])
        print('REPRODUCED' if hit else 'NOT REPRODUCED'); return 1 if hit else 0
    finally:
        shutil.rmtree(wd, ignore_errors=True)
