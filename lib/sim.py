#!/usr/bin/env python3
"""per-construct simulation obligations (harness/ctv.cpp h_sim_*): C01/C07/C16 for executions of any length, through loops and jumps"""
import json
import framework as fw, ctv


def obligations(prop, tier, seed, wd, out):
    # quick: the shapes with data-dependent control flow that bounded runs cannot decide; thorough: every shape
    if tier == 'quick':
        only = ['while_dec', 'goto_back', 'goto_into_loop', 'call_in_loop', 'loop_bound_assigned', 'nested_loops_oneline', 'loop_detour',
                'multi_goto_one_label', 'while_call_dec',     # ('loop_in_callee_in_loop': position 19 needs 200-600 s, thorough tier only)
                'callee_stop']     # a call that never returns: the caller's variables keep their values (seed C01-last-arg-in-result-reg)
    else:
        # exactly the shapes the bounded runs h_ctv leave out (data-dependent control flow): the hand-written LOOPY shapes and the loop/while members of the
        # generated family.  The other shapes are decided completely by their bounded run; simulating them as well tripled the wall time and, for
        # shapes with unreachable reference positions (a shadowed definition) or three nested activations, only produced vacuity / capacity reports.
        only = [n for n, _, _ in ctv.shapes(tier, seed) if n in ctv.LOOPY or n.startswith('gen_loop') or n.startswith('gen_while')]
    jobs, meta, problems = ctv.build_jobs(prop, tier, seed, wd, entries=('h_sim', 'h_sim_base'), tags=[prop, 'C01', 'C07', 'C16'], only=only)
    for j in jobs:
        j.what = 'shape %s, %s: from an arbitrary related pair of states one reference step and exactly cost(r,pc) real VM steps lead to related states (same control flow, live variables equal, older frames untouched, stop iff line event)' % (j.name.split('.')[1], j.entry)
        j.bounds = 'one reference position; all literal values (31 bit) and all variable values; execution length unbounded by induction'
        j.timeout = 600 if tier == 'quick' else 1500
        if j.entry.startswith('h_sim_') and j.entry != 'h_sim_base':
            import vm as _vm
            j.layout = _vm.LAYOUT      # these obligations construct VM states field by field
    fw.run_jobs(prop, jobs, wd, workers=12)
    fw.classify(prop, jobs, wd, out)
    ctv.confirm_problems(prop, wd, problems, out)
    return {'simulation_shapes': sorted(set(j.name.split('.')[1] for j in jobs)), 'simulation_obligations': len(jobs)}
