#!/usr/bin/env python3
"""PROBE: LLVM-14 textual IR (typed pointers) -> C for CBMC.  Scratch prototype."""
import re, sys, hashlib

# ---------------------------------------------------------------- tokenizer
TOK = re.compile(r'''
   (?P<ws>\s+)
 | (?P<str>c"(?:[^"\\]|\\[0-9A-Fa-f]{2}|\\\\)*")
 | (?P<lid>%"(?:[^"\\]|\\.)*"|%[-a-zA-Z$._0-9]+)
 | (?P<gid>@"(?:[^"\\]|\\.)*"|@[-a-zA-Z$._0-9]+)
 | (?P<qstr>"[^"]*")
 | (?P<meta>![-a-zA-Z$._0-9]*(?:\([^)]*\))?|!\{[^}]*\})
 | (?P<attrgrp>\#[0-9]+)
 | (?P<num>-?[0-9]+)
 | (?P<word>[a-zA-Z_][a-zA-Z0-9_.]*)
 | (?P<dots>\.\.\.)
 | (?P<punct><\{|\}>|[\[\]{}()<>,=*:])
''', re.X)

def tokenize(s):
    out = []; i = 0
    while i < len(s):
        m = TOK.match(s, i)
        if not m:
            raise SyntaxError('cannot tokenize at: ' + s[i:i+40])
        i = m.end()
        k = m.lastgroup
        if k == 'ws': continue
        out.append((k, m.group(k)))
    return out

# ---------------------------------------------------------------- types
class Ty:
    def __init__(s, kind, **kw): s.kind = kind; s.__dict__.update(kw)
    def key(s):
        k = s.kind
        if k == 'int': return 'i%d' % s.bits
        if k == 'void': return 'void'
        if k == 'named': return 'N:' + s.name
        if k == 'ptr': return 'P(' + s.to.key() + ')'
        if k == 'arr': return 'A%d(' % s.n + s.el.key() + ')'
        if k == 'struct': return ('PS' if s.packed else 'S') + '{' + ','.join(e.key() for e in s.els) + '}'
        if k == 'func': return 'F(' + s.ret.key() + ':' + ','.join(a.key() for a in s.args) + (',...' if s.vararg else '') + ')'
        if k == 'label': return 'label'
        raise Exception(k)
    def __eq__(s, o): return isinstance(o, Ty) and s.key() == o.key()
    def __hash__(s): return hash(s.key())
    def __repr__(s): return s.key()

class P:
    """token stream parser"""
    def __init__(s, toks): s.t = toks; s.i = 0
    def peek(s, o=0): return s.t[s.i+o] if s.i+o < len(s.t) else (None, None)
    def next(s): x = s.t[s.i]; s.i += 1; return x
    def accept(s, v):
        if s.peek()[1] == v: s.i += 1; return True
        return False
    def expect(s, v):
        x = s.next()
        if x[1] != v: raise SyntaxError('expected %r got %r in %r' % (v, x, s.t[max(0,s.i-6):s.i+4]))
    def eof(s): return s.i >= len(s.t)

    def type(s):
        k, v = s.next()
        if k == 'word' and re.fullmatch(r'i[0-9]+', v): t = Ty('int', bits=int(v[1:]))
        elif v == 'void': t = Ty('void')
        elif v == 'label': t = Ty('label')
        elif k == 'lid': t = Ty('named', name=v)
        elif v == '[':
            n = int(s.next()[1]); s.expect('x'); el = s.type(); s.expect(']'); t = Ty('arr', n=n, el=el)
        elif v == '{' or v == '<{':
            packed = v == '<{'; els = []
            close = '}>' if packed else '}'
            if not s.accept(close):
                while True:
                    els.append(s.type())
                    if s.accept(close): break
                    s.expect(',')
            t = Ty('struct', els=els, packed=packed)
        elif v == 'opaque': t = Ty('struct', els=[], packed=False)
        else: raise SyntaxError('type? %r %r' % (k, v))
        while True:
            if s.accept('*'): t = Ty('ptr', to=t)
            elif s.peek()[1] == '(' :
                # function type
                s.next(); args = []; va = False
                if not s.accept(')'):
                    while True:
                        if s.accept('...'): va = True
                        else: args.append(s.type())
                        if s.accept(')'): break
                        s.expect(',')
                t = Ty('func', ret=t, args=args, vararg=va)
            else: break
        return t

ATTR_WORDS = set('''noundef nonnull zeroext signext nocapture readonly writeonly noalias returned inreg immarg nofree
 nest swiftself readnone dso_local local_unnamed_addr unnamed_addr internal private linkonce_odr weak_odr external hidden
 available_externally tail musttail notail fastcc ccc inbounds nsw nuw exact volatile constant global weak common
 nounwind noreturn mustprogress noinline optnone uwtable cold willreturn dso_preemptable extern_weak linkonce thread_local'''.split())

def skip_attrs(p):
    """skip parameter/call/function attributes; returns dict of interesting ones"""
    got = {}
    while True:
        k, v = p.peek()
        if k == 'word' and v in ATTR_WORDS: p.next(); got[v] = True
        elif k == 'word' and v in ('align', 'dereferenceable', 'dereferenceable_or_null', 'sret', 'byval', 'byref', 'preallocated', 'inalloca', 'elementtype'):
            p.next()
            if p.accept('('):
                if v in ('sret', 'byval', 'byref', 'inalloca', 'preallocated', 'elementtype'): got[v] = p.type()
                else: p.next()
                p.expect(')')
            else:
                p.next()
            if v == 'align': got['align'] = True
        elif k == 'attrgrp': p.next()
        else: break
    return got

# ---------------------------------------------------------------- module model
class Module:
    def __init__(s):
        s.named = {}      # name -> Ty(struct)
        s.globals = {}    # name -> (Ty valuetype, init tokens or None, isconst)
        s.funcs = {}      # name -> Func
        s.aliases = {}
        s.order = []

class Func:
    def __init__(s): s.name=None; s.ret=None; s.params=[]; s.blocks=[]; s.defined=False; s.vararg=False

def cname(n):
    """C identifier for %x / @x"""
    raw = n[1:]
    if raw.startswith('"'): raw = raw[1:-1]
    s = re.sub(r'[^A-Za-z0-9_]', lambda m: '_%02x' % ord(m.group(0)), raw)
    if len(s) > 120: s = s[:80] + '_' + hashlib.md5(raw.encode()).hexdigest()[:12]
    if n[0] == '%': return 'v_' + s
    return ('g_' if not re.match(r'[A-Za-z_]', s) else '') + s

class Emitter:
    def __init__(s, mod):
        s.m = mod; s.tynames = {}; s.defs = []; s.fwd = []; s.done = set(); s.inprog = set(); s.fwdset = set(); s.pending = []
    # ---- layout
    def resolve(s, t):
        while t.kind == 'named': t = s.m.named[t.name]
        return t
    def align(s, t):
        t = s.resolve(t)
        if t.kind == 'int': return max(1, min(8, (t.bits + 7)//8 if t.bits not in (1,) else 1)) if t.bits <= 64 else 16
        if t.kind in ('ptr', 'func'): return 8
        if t.kind == 'arr': return s.align(t.el)
        if t.kind == 'struct': return 1 if t.packed or not t.els else max(s.align(e) for e in t.els)
        raise Exception('align ' + t.kind)
    def size(s, t):
        t = s.resolve(t)
        if t.kind == 'int': return {1:1,8:1,16:2,32:4,64:8}[t.bits]
        if t.kind in ('ptr', 'func'): return 8
        if t.kind == 'arr': return t.n * s.size(t.el)
        if t.kind == 'struct':
            off = 0
            for e in t.els:
                a = 1 if t.packed else s.align(e)
                off = (off + a - 1)//a*a + s.size(e)
            a = s.align(t)
            return (off + a - 1)//a*a
        raise Exception('size ' + t.kind)
    def dsize(s, t):
        """size without tail padding (what clang copies for a trivially copyable non-POD class)"""
        t = s.resolve(t)
        if t.kind == 'struct' and t.els:
            off = 0
            for i, e in enumerate(t.els):
                a = 1 if t.packed else s.align(e)
                off = (off + a - 1)//a*a
                if i == len(t.els) - 1: return off + s.dsize(e)
                off += s.size(e)
        if t.kind == 'arr' and t.n > 0: return (t.n - 1) * s.size(t.el) + s.dsize(t.el)
        return s.size(t)
    # ---- C type names
    def ct(s, t):
        k = t.kind
        if k == 'int':
            if t.bits == 1: return 'u8'
            if t.bits in (8,16,32,64): return 'u%d' % t.bits
            raise Exception('int width %d' % t.bits)
        if k == 'void': return 'void'
        if k == 'ptr':
            if t.to.kind == 'func': return s.functy(t.to) + '*'
            if t.to.kind == 'void': return 'void*'
            if t.to.kind == 'named':
                nm = 'struct S_' + cname(t.to.name)
                if nm + ';' not in s.fwdset: s.fwdset.add(nm + ';'); s.fwd.append(nm + ';')
                s.pending.append(t.to)
                return nm + '*'
            return s.ct(t.to) + '*'
        if k == 'named':
            nm = 'struct S_' + cname(t.name)
            s.need_struct(t.key(), nm, s.m.named[t.name])
            return nm
        if k == 'struct':
            key = t.key()
            if key not in s.tynames: s.tynames[key] = 'struct L%d' % len(s.tynames)
            s.need_struct(key, s.tynames[key], t)
            return s.tynames[key]
        if k == 'arr':
            key = t.key()
            if key not in s.tynames: s.tynames[key] = 'struct A%d' % len(s.tynames)
            s.need_arr(key, s.tynames[key], t)
            return s.tynames[key]
        if k == 'func': return s.functy(t)
        raise Exception('ct ' + k)
    def functy(s, t):
        key = t.key()
        if key not in s.tynames:
            nm = 'FT%d' % len(s.tynames); s.tynames[key] = nm
            args = ', '.join(s.ct(a) for a in t.args) or 'void'
            if t.vararg: args += ', ...'
            s.defs.append('typedef %s %s(%s);' % (s.ct(t.ret), nm, args))
        return s.tynames[key]
    def need_struct(s, key, nm, t):
        if key in s.done or key in s.inprog: return
        s.inprog.add(key)
        s.fwd.append(nm + ';')
        fields = []
        for i, e in enumerate(t.els):
            fields.append('  %s f%d;' % (s.ct_value(e), i))
        if not fields: fields = ['  u8 _empty;']
        s.defs.append('%s%s {\n%s\n};' % (nm.replace('struct ', 'struct __attribute__((packed)) ') if t.packed else nm, '', '\n'.join(fields)))
        if t.els:
            try: s.defs.append('_Static_assert(sizeof(%s) == %d, "ir2c: C layout differs from LLVM layout");' % (nm, s.size(t)))
            except Exception: pass
        s.inprog.discard(key); s.done.add(key)
    def need_arr(s, key, nm, t):
        if key in s.done or key in s.inprog: return
        s.inprog.add(key)
        s.fwd.append(nm + ';')
        el = s.ct_value(t.el)
        s.defs.append('%s { %s a[%d]; };' % (nm, el, max(t.n, 1)))
        s.inprog.discard(key); s.done.add(key)
    def ct_value(s, t):
        """C type for a by-value member: forces definition ordering"""
        return s.ct(t)

# ---------------------------------------------------------------- parsing the module
def split_toplevel(text):
    lines = text.split('\n'); i = 0; items = []
    while i < len(lines):
        ln = lines[i]
        if ln.startswith('define '):
            body = [ln]; i += 1
            while not lines[i].startswith('}'): body.append(lines[i]); i += 1
            items.append(('define', body)); i += 1; continue
        if ln.startswith('declare '): items.append(('declare', ln))
        elif ln.startswith('%') and ' = type ' in ln: items.append(('type', ln))
        elif ln.startswith('@'): items.append(('global', ln))
        i += 1
    return items

def strip_meta(toks):
    out = []; i = 0
    while i < len(toks):
        k, v = toks[i]
        if k == 'meta':
            # drop ", !tbaa !5" pairs
            if out and out[-1][1] == ',': out.pop()
            i += 1
            while i < len(toks) and toks[i][0] == 'meta': i += 1
            continue
        out.append(toks[i]); i += 1
    return out

def parse_header(p, f):
    # after 'define'/'declare'
    skip_attrs(p)
    f.ret = p.type()
    k, v = p.next(); assert k == 'gid', v
    f.name = v
    p.expect('(')
    if not p.accept(')'):
        while True:
            if p.accept('...'): f.vararg = True
            else:
                t = p.type(); a = skip_attrs(p)
                nm = None
                if p.peek()[0] == 'lid': nm = p.next()[1]
                f.params.append((t, nm, a))
            if p.accept(')'): break
            p.expect(',')

def parse_module(text):
    m = Module()
    for kind, item in split_toplevel(text):
        if kind == 'type':
            toks = tokenize(item); p = P(toks)
            name = p.next()[1]; p.expect('='); p.expect('type')
            m.named[name] = p.type()
        elif kind == 'global':
            toks = strip_meta(tokenize(item)); p = P(toks)
            name = p.next()[1]; p.expect('=')
            isalias = False; isconst = False; ext = False
            while True:
                k, v = p.peek()
                if v == 'alias': isalias = True; p.next(); break
                if v in ('constant',): isconst = True; p.next(); break
                if v == 'global': p.next(); break
                if v == 'external': ext = True
                p.next()
            if isalias:
                p.type(); p.expect(','); p.type(); tgt = p.next()[1]
                m.aliases[name] = tgt; continue
            t = p.type()
            rest = toks[p.i:]
            # cut trailing ", align N" / section etc.
            depth = 0; cut = len(rest)
            for j, (k, v) in enumerate(rest):
                if v in ('(', '[', '{', '<{'): depth += 1
                elif v in (')', ']', '}', '}>'): depth -= 1
                elif v == ',' and depth == 0: cut = j; break
            init = rest[:cut] if not ext and cut > 0 else None
            m.globals[name] = (t, init, isconst); m.order.append(name)
        elif kind == 'declare':
            toks = strip_meta(tokenize(item)); p = P(toks); p.expect('declare')
            f = Func(); parse_header(p, f); m.funcs[f.name] = f
        elif kind == 'define':
            toks = strip_meta(tokenize(item[0])); p = P(toks); p.expect('define')
            f = Func(); parse_header(p, f); f.defined = True
            blocks = []; cur = None
            # implicit entry label
            body = item[1:]
            j = 0
            while j < len(body):
                ln = body[j]; j += 1
                if not ln.strip() or ln.lstrip().startswith(';'): continue
                mlab = re.match(r'^([-a-zA-Z$._0-9]+|"[^"]*"):', ln)
                if mlab:
                    cur = (mlab.group(1), []); blocks.append(cur); continue
                if cur is None:
                    nun = sum(1 for (t_, nm_, a_) in f.params if nm_ is None or re.fullmatch(r'%[0-9]+', nm_))
                    cur = (str(nun), []); blocks.append(cur)
                # switch spans lines
                if ln.lstrip().startswith('switch '):
                    while ']' not in ln: ln += ' ' + body[j]; j += 1
                cur[1].append(strip_meta(tokenize(ln.split(' ; ')[0] if False else ln)))
            f.blocks = blocks
            m.funcs[f.name] = f
    return m

# ---------------------------------------------------------------- function translation
class FuncTr:
    def __init__(s, em, f, mod):
        s.em = em; s.f = f; s.m = mod; s.types = {}; s.decl = []; s.out = []; s.tmpn = 0; s.origin = {}
        s.entry_label = None
        # address forwarding: an SSA pointer defined by alloca / getelementptr / bitcast-to-first-member is not
        # materialised as a C pointer variable; its uses are replaced by the structured address expression
        # (&root.f1.a[i].f0).  CBMC then sees member/index expressions instead of pointer arithmetic on bytes
        # (which it resolves wrongly for a symbolic index into an array of structs, and slowly in general).
        # Sound because all operands are SSA values: any path from a re-definition of an operand to a use of
        # the pointer passes the pointer's own definition again (dominance), so late evaluation sees the same values.
        s.fwd = {}
    @staticmethod
    def strip_addr(e):
        """if e is exactly '(&X)' return X else None"""
        if not (e.startswith('(&') and e.endswith(')')): return None
        depth = 0
        for i, ch in enumerate(e):
            if ch == '(': depth += 1
            elif ch == ')':
                depth -= 1
                if depth == 0 and i != len(e) - 1: return None
        return e[2:-1]
    def deref(s, pe):
        x = s.strip_addr(pe)
        return x if x is not None else '(*%s)' % pe
    def lab(s, l):
        l = l.lstrip('%')
        return 'bb_' + re.sub(r'[^A-Za-z0-9_]', '_', l)
    def val(s, p, t):
        """parse operand of (known) type t -> C expr"""
        k, v = p.next()
        if k == 'lid':
            c = cname(v)
            return s.fwd.get(c, c)
        if k == 'num':
            if t.kind == 'int':
                n = int(v); bits = 8 if t.bits == 1 else t.bits
                if n < 0: n += 1 << bits
                return '((%s)%dU%s)' % (s.em.ct(t), n, 'LL' if bits == 64 else '')
            raise Exception('num for ' + t.key())
        if v == 'true': return '((u8)1)'
        if v == 'false': return '((u8)0)'
        if v == 'null': return '((%s)0)' % s.em.ct(t)
        if v in ('undef', 'poison'):
            if t.kind in ('int', 'ptr'): return '((%s)0)' % s.em.ct(t)
            s.em.need_zero(t); return 'ZERO_' + re.sub(r'\W', '_', s.em.ct(t))
        if v == 'zeroinitializer':
            s.em.need_zero(t); return 'ZERO_' + re.sub(r'\W', '_', s.em.ct(t))
        if k == 'gid':
            return s.em.gref(v)
        if v in ('getelementptr', 'bitcast', 'ptrtoint', 'inttoptr'):
            p.i -= 1
            return s.em.constexpr(p)[1]
        if v in ('{', '<{', '['):
            close = {'{': '}', '<{': '}>', '[': ']'}[v]; parts = []
            if not p.accept(close):
                while True:
                    et = p.type(); parts.append(s.val(p, et))
                    if p.accept(close): break
                    p.expect(',')
            inner = ', '.join(parts)
            return '((%s){%s})' % (s.em.ct(t), inner if v != '[' else '{' + inner + '}')
        raise Exception('operand? %r %r' % (k, v))
    def typed(s, p):
        t = p.type(); a = skip_attrs(p); return t, s.val(p, t), a
    def settype(s, name, t):
        s.types[name] = t
    def emit(s, line): s.out.append('  ' + line)
    def gep_expr(s, base_t, base, idx):
        """idx: list of (Ty, expr, const_or_None). returns (C lvalue-address expr, result pointee type)"""
        t = base_t  # pointee type for first index
        first = idx[0]
        e = '%s[(s64)%s]' % (base, s.sx(first)) if not (first[2] == 0) else s.deref(base)
        for it in idx[1:]:
            rt = s.em.resolve(t)
            if rt.kind == 'struct':
                k = it[2]; assert k is not None
                e = '%s.f%d' % (e, k); t = rt.els[k]
            elif rt.kind == 'arr':
                e = '%s.a[(s64)%s]' % (e, s.sx(it)); t = rt.el
            else: raise Exception('gep into ' + rt.kind)
        return '(&%s)' % e, t
    def sx(s, it):
        t, e, c = it
        if c is not None: return str(c)
        bits = t.bits
        return '(s%d)%s' % (bits, e)
    def cast_signed(s, t, e):
        b = 8 if t.bits == 1 else t.bits
        return '((s%d)%s)' % (b, e)

    def translate(s):
        f = s.f; em = s.em
        # pass 1: result types
        for t, nm, a in f.params:
            if nm: s.types[nm] = t
        for lab, insts in f.blocks:
            for toks in insts:
                if len(toks) > 2 and toks[0][0] == 'lid' and toks[1][1] == '=':
                    s.types[toks[0][1]] = s.result_type(toks)
        # pass 2: code
        # typed allocation: operator new(N) whose result is bitcast to T* with sizeof(T)==N
        s.newtype = {}
        for lab, insts in f.blocks:
            for toks in insts:
                if len(toks) > 3 and toks[1][1] == '=' and toks[2][1] == 'bitcast' and toks[3][1] == 'i8' and toks[5][0] == 'lid':
                    j = len(toks) - 1
                    while toks[j][1] != 'to': j -= 1
                    t2 = P(toks[j+1:]).type()
                    if t2.kind == 'ptr' and t2.to.kind in ('named', 'struct'): s.newtype.setdefault(toks[5][1], t2.to)
        # Emit the blocks in reverse post-order of the CFG: then the only backward gotos are the genuine loop back edges (latch -> header).
        # In LLVM's textual order the unique latch of a loop with several `continue`s precedes its predecessors, every `continue` becomes a
        # backward goto of its own and CBMC reports a failed unwinding assertion for any bound.
        def succs(insts):
            t = insts[-1] if insts else []
            return [t[i + 1][1].lstrip('%') for i in range(len(t) - 1) if t[i][1] == 'label' and t[i + 1][0] == 'lid']
        bmap = {lab.lstrip('%'): (lab, insts) for lab, insts in f.blocks}
        order = []; seen = set()
        if f.blocks:
            stack = [(f.blocks[0][0].lstrip('%'), iter(succs(f.blocks[0][1])))]; seen.add(f.blocks[0][0].lstrip('%'))
            while stack:
                lab, it = stack[-1]
                nxt = None
                for x in it:
                    if x in bmap and x not in seen: nxt = x; break
                if nxt is None: order.append(lab); stack.pop()
                else: seen.add(nxt); stack.append((nxt, iter(succs(bmap[nxt][1]))))
            order.reverse()
            rest = [lab.lstrip('%') for lab, _ in f.blocks if lab.lstrip('%') not in seen]
            f.blocks = [bmap[l] for l in order + rest]
        for bi, (lab, insts) in enumerate(f.blocks):
            s.cur = lab
            s.out.append('%s: ;' % s.lab(lab))
            for toks in insts:
                s.inst(toks)
        params = ', '.join('%s %s' % (em.ct(t), cname(nm) if nm else 'p%d' % i) for i, (t, nm, a) in enumerate(f.params)) or 'void'
        hdr = '%s %s(%s)' % (em.ct(f.ret), em.fname(f.name), params)
        decls = []
        pnames = set(nm for t, nm, a in f.params)
        for nm, t in s.types.items():
            if nm in pnames: continue
            if t.kind == 'void': continue
            decls.append('  %s %s;' % (em.ct(t), cname(nm)))
        return hdr, decls + s.decl, s.out

    def result_type(s, toks):
        p = P(toks); p.next(); p.expect('=')
        op = p.next()[1]
        while p.peek()[1] in ATTR_WORDS: p.next()
        if op == 'alloca': return Ty('ptr', to=p.type())
        if op == 'load': return p.type()
        if op == 'getelementptr':
            bt = p.type(); p.expect(','); pt = p.type()
            # need indices to compute type
            s_tmp = FuncTr(s.em, s.f, s.m); s_tmp.types = s.types
            k, v = p.next()  # base
            t = bt; idx = []
            first = True
            while p.accept(','):
                it = p.type(); k, v = p.next()
                if first: first = False; continue
                rt = s.em.resolve(t)
                if rt.kind == 'struct': t = rt.els[int(v)]
                elif rt.kind == 'arr': t = rt.el
                else: raise Exception('gep type')
            return Ty('ptr', to=t)
        if op in ('bitcast', 'sext', 'zext', 'trunc', 'ptrtoint', 'inttoptr'):
            # ... to T
            j = len(toks) - 1
            while toks[j][1] != 'to': j -= 1
            return P(toks[j+1:]).type()
        if op in ('add','sub','mul','udiv','sdiv','urem','srem','and','or','xor','shl','lshr','ashr','freeze'):
            return p.type()
        if op == 'icmp': return Ty('int', bits=1)
        if op == 'select':
            p.type(); p.next(); p.expect(','); return p.type()
        if op == 'phi': return p.type()
        if op == 'call':
            skip_attrs(p); t = p.type()
            if t.kind == 'func': t = t.ret
            if t.kind == 'ptr' and t.to.kind == 'func' and p.peek()[0] in ('gid', 'lid') and False: pass
            return t
        if op == 'extractvalue':
            t = p.type(); p.next()
            while p.accept(','):
                k = int(p.next()[1]); rt = s.em.resolve(t); t = rt.els[k] if rt.kind == 'struct' else rt.el
            return t
        if op == 'insertvalue': return p.type()
        raise Exception('result_type op ' + op)

    def edge(s, target):
        """phi copies for edge cur->target then goto"""
        tb = None
        for lab, insts in s.f.blocks:
            if lab == target.lstrip('%') or '%' + lab == target or lab == target: tb = insts; break
        if tb is None: raise Exception('no block ' + target)
        copies = []
        for toks in tb:
            if len(toks) > 2 and toks[1][1] == '=' and toks[2][1] == 'phi':
                p = P(toks); dst = p.next()[1]; p.expect('='); p.expect('phi'); t = p.type()
                while True:
                    p.expect('['); v = s.val(p, t); p.expect(','); l = p.next()[1]; p.expect(']')
                    if l.lstrip('%') == s.cur.lstrip('%'): copies.append((dst, t, v))
                    if not p.accept(','): break
            else: break
        if not copies: return 'goto %s;' % s.lab(target)
        pre = []; post = []
        for dst, t, v in copies:
            s.tmpn += 1; tmp = 'phi_t%d' % s.tmpn
            s.decl.append('  %s %s;' % (s.em.ct(t), tmp))
            pre.append('%s = %s;' % (tmp, v)); post.append('%s = %s;' % (cname(dst), tmp))
        return '{ ' + ' '.join(pre + post) + ' goto %s; }' % s.lab(target)

    def inst(s, toks):
        em = s.em; p = P(toks)
        dst = None
        if len(toks) > 2 and toks[0][0] == 'lid' and toks[1][1] == '=':
            dst = toks[0][1]; p.i = 2
        op = p.next()[1]
        flags = set()
        while p.peek()[1] in ('nsw','nuw','exact','inbounds','volatile','tail','musttail','notail'): flags.add(p.next()[1])
        D = cname(dst) if dst else None
        if op == 'alloca':
            t = p.type()
            s.decl.append('  %s %s_mem;' % (em.ct(t), D)); s.fwd[D] = '(&%s_mem)' % D; return
        if op == 'load':
            t = p.type(); p.expect(','); pt, pe, _ = s.typed(p)
            s.emit('%s = %s;' % (D, s.deref(pe))); return
        if op == 'store':
            t, v, _ = s.typed(p); p.expect(','); pt, pe, _ = s.typed(p)
            s.emit('%s = %s;' % (s.deref(pe), v)); return
        if op == 'getelementptr':
            bt = p.type(); p.expect(','); pt, base, _ = s.typed(p)
            idx = []
            while p.accept(','):
                it = p.type(); k, v = p.peek()
                c = int(v) if k == 'num' else None
                e = s.val(p, it); idx.append((it, e, c))
            e, rt = s.gep_expr(bt, base, idx)
            s.fwd[D] = e; return
        if op in ('bitcast', 'inttoptr', 'ptrtoint'):
            t, v, _ = s.typed(p); p.expect('to'); t2 = p.type()
            if op == 'bitcast' and t.kind == 'ptr': s.origin[D] = (t, v)
            if op == 'bitcast' and t.kind == 'ptr' and t2.kind == 'ptr':
                # bitcast to (nested) first member -> typed member access
                path = ''; cur = t.to; ok = False
                for _ in range(8):
                    if cur == t2.to or em.resolve(cur) == em.resolve(t2.to): ok = True; break
                    rc = em.resolve(cur)
                    if rc.kind == 'struct' and rc.els: path += '.f0'; cur = rc.els[0]
                    elif rc.kind == 'arr': path += '.a[0]'; cur = rc.el
                    else: break
                if ok and path:
                    s.fwd[D] = '(&%s%s)' % (s.deref(v), path); return
            s.emit('%s = (%s)%s;' % (D, em.ct(t2), v)); return
        if op == 'zext':
            t, v, _ = s.typed(p); p.expect('to'); t2 = p.type()
            s.emit('%s = (%s)%s;' % (D, em.ct(t2), v)); return
        if op == 'sext':
            t, v, _ = s.typed(p); p.expect('to'); t2 = p.type()
            if t.bits == 1: s.emit('%s = (%s)(%s ? -1 : 0);' % (D, em.ct(t2), v))
            else: s.emit('%s = (%s)(s%d)(s%d)%s;' % (D, em.ct(t2), t2.bits, t.bits, v))
            return
        if op == 'trunc':
            t, v, _ = s.typed(p); p.expect('to'); t2 = p.type()
            if t2.bits == 1: s.emit('%s = (u8)(%s & 1);' % (D, v))
            else: s.emit('%s = (%s)%s;' % (D, em.ct(t2), v))
            return
        if op in ('add','sub','mul','and','or','xor','udiv','urem','sdiv','srem','shl','lshr','ashr'):
            t = p.type(); a = s.val(p, t); p.expect(','); b = s.val(p, t)
            ct = em.ct(t); bits = 8 if t.bits == 1 else t.bits
            sym = {'add':'+','sub':'-','mul':'*','and':'&','or':'|','xor':'^','udiv':'/','urem':'%','sdiv':'/','srem':'%','shl':'<<','lshr':'>>','ashr':'>>'}[op]
            if op in ('sdiv','srem') or (op in ('add','sub','mul') and 'nsw' in flags and bits >= 32):
                s.emit('%s = (%s)((s%d)%s %s (s%d)%s);' % (D, ct, bits, a, sym, bits, b))
            elif op == 'ashr':
                s.emit('%s = (%s)((s%d)%s >> %s);' % (D, ct, bits, a, b))
            else:
                wide = 'u64' if bits == 64 else 'u32'
                s.emit('%s = (%s)((%s)%s %s (%s)%s);' % (D, ct, wide, a, sym, wide, b))
                if t.bits == 1 and op in ('add','sub','mul'): s.emit('%s &= 1;' % D)
            return
        if op == 'icmp':
            pred = p.next()[1]; t = p.type(); a = s.val(p, t); p.expect(','); b = s.val(p, t)
            sym = {'eq':'==','ne':'!=','ugt':'>','uge':'>=','ult':'<','ule':'<=','sgt':'>','sge':'>=','slt':'<','sle':'<='}[pred]
            if t.kind == 'ptr':
                if pred in ('eq','ne'): s.emit('%s = (u8)((void*)%s %s (void*)%s);' % (D, a, sym, b))
                else: s.emit('%s = (u8)((char*)%s %s (char*)%s);' % (D, a, sym, b))
            elif pred[0] == 's':
                s.emit('%s = (u8)(%s %s %s);' % (D, s.cast_signed(t, a), sym, s.cast_signed(t, b)))
            else:
                s.emit('%s = (u8)(%s %s %s);' % (D, a, sym, b))
            return
        if op == 'select':
            ct_, c, _ = s.typed(p); p.expect(','); t, a, _ = s.typed(p); p.expect(','); t2, b, _ = s.typed(p)
            s.emit('%s = %s ? %s : %s;' % (D, c, a, b)); return
        if op == 'freeze':
            t, v, _ = s.typed(p); s.emit('%s = %s;' % (D, v)); return
        if op == 'phi': return
        if op == 'br':
            if p.peek()[1] == 'label':
                p.next(); l = p.next()[1]; s.emit(s.edge(l)); return
            t, c, _ = s.typed(p); p.expect(','); p.expect('label'); a = p.next()[1]; p.expect(','); p.expect('label'); b = p.next()[1]
            s.emit('if (%s) %s else %s' % (c, s.edge(a), s.edge(b))); return
        if op == 'switch':
            t, v, _ = s.typed(p); p.expect(','); p.expect('label'); d = p.next()[1]; p.expect('[')
            s.emit('switch (%s) {' % v)
            while not p.accept(']'):
                ct_ = p.type(); c = s.val(p, ct_); p.expect(','); p.expect('label'); l = p.next()[1]
                s.emit('  case %s: %s' % (c.replace('((u32)', '(').replace('((u8)','(').replace('((u64)','(').replace('((u16)','('), s.edge(l)))
            s.emit('  default: %s' % s.edge(d)); s.emit('}'); return
        if op == 'ret':
            t = p.type()
            if t.kind == 'void': s.emit('return;')
            else: s.emit('return %s;' % s.val(p, t))
            return
        if op == 'unreachable':
            s.emit('__CPROVER_assert(0, "llvm unreachable reached (UB in source)"); __CPROVER_assume(0);'); return
        if op == 'call':
            skip_attrs(p); rt = p.type()
            fty = None
            if rt.kind == 'func': fty = rt; rt = rt.ret
            elif rt.kind == 'ptr' and rt.to.kind == 'func' and p.peek()[0] in ('gid','lid') and p.peek(1)[1] == '(':
                fty = rt.to; rt = fty.ret
            k, v = p.next()
            p.expect('('); args = []
            if not p.accept(')'):
                while True:
                    at = p.type(); aa = skip_attrs(p); ae = s.val(p, at)
                    if 'byval' in aa:
                        s.tmpn += 1; tmp = 'byval_t%d' % s.tmpn
                        s.decl.append('  %s %s;' % (em.ct(aa['byval']), tmp))
                        s.emit('%s = %s;' % (tmp, s.deref(ae))); ae = '(&' + tmp + ')'
                    args.append((at, ae))
                    if p.accept(')'): break
                    p.expect(',')
            call = None
            if k == 'gid':
                if v.startswith('@llvm.'):
                    call = s.intrinsic(v, args)
                    if call is None: return
                elif v == '@_Znwm' and dst in s.newtype and re.fullmatch(r'\(\(u64\)(\d+)ULL\)', args[0][1]) and s.em.size(s.newtype[dst]) == int(re.fullmatch(r'\(\(u64\)(\d+)ULL\)', args[0][1]).group(1)):
                    tn = s.em.ct(s.newtype[dst])
                    s.emit('%s = (u8*)malloc(sizeof(%s)); __CPROVER_assume(%s != 0);' % (D, tn, D)); return
                else:
                    if v[1:] in STUBS and not s.f.name[1:].startswith('harness'):
                        v = '@' + STUBS[v[1:]]
                    em.used_funcs.add(v)
                    if v == '@__CPROVER_assert':
                        mm = re.search(r'\(&\(&(\w+)\)\[0\]\.a\[0\]\)', args[1][1])
                        lit = em.strlit.get(mm.group(1)) if mm else None
                        args[1] = (args[1][0], lit if lit else '"assertion"')
                    call = '%s(%s)' % (em.fname(v), ', '.join(a[1] for a in args))
            else:
                call = '(%s)(%s)' % (cname(v), ', '.join(a[1] for a in args))
            if dst and rt.kind != 'void': s.emit('%s = %s;' % (D, call))
            else: s.emit(call + ';')
            return
        if op == 'extractvalue':
            t, v, _ = s.typed(p); e = v
            while p.accept(','):
                k = int(p.next()[1]); rt_ = em.resolve(t)
                if rt_.kind == 'struct': e += '.f%d' % k; t = rt_.els[k]
                else: e += '.a[%d]' % k; t = rt_.el
            s.emit('%s = %s;' % (D, e)); return
        if op == 'insertvalue':
            t, v, _ = s.typed(p); p.expect(','); t2, v2, _ = s.typed(p); e = D
            s.emit('%s = %s;' % (D, v)); tt = t
            while p.accept(','):
                k = int(p.next()[1]); rt_ = em.resolve(tt)
                if rt_.kind == 'struct': e += '.f%d' % k; tt = rt_.els[k]
                else: e += '.a[%d]' % k; tt = rt_.el
            s.emit('%s = %s;' % (e, v2)); return
        raise Exception('unsupported instruction: ' + ' '.join(t[1] for t in toks))

    def intrinsic(s, name, args):
        if name.startswith('@llvm.lifetime') or name.startswith('@llvm.dbg') or name.startswith('@llvm.assume') or name.startswith('@llvm.experimental.noalias'): return None
        if name.startswith('@llvm.memcpy') or name.startswith('@llvm.memmove'):
            oa = s.origin.get(args[0][1]); ob = s.origin.get(args[1][1]); mm = re.fullmatch(r'\(\(u64\)(\d+)ULL\)', args[2][1])
            if oa and ob and mm and oa[0] == ob[0] and oa[0].to.kind != 'func' and s.em.dsize(oa[0].to) <= int(mm.group(1)) <= s.em.size(oa[0].to):
                s.emit('%s = %s;' % (s.deref(oa[1]), s.deref(ob[1]))); return None
        if name.startswith('@llvm.memset'):
            oa = s.origin.get(args[0][1]); mm = re.fullmatch(r'\(\(u64\)(\d+)ULL\)', args[2][1])
            if oa and mm and args[1][1] == '((u8)0U)' and oa[0].to.kind != 'func' and s.em.dsize(oa[0].to) <= int(mm.group(1)) <= s.em.size(oa[0].to):
                s.em.need_zero(oa[0].to)
                s.emit('%s = ZERO_%s;' % (s.deref(oa[1]), re.sub(r'\W', '_', s.em.ct(oa[0].to)))); return None
        if name.startswith('@llvm.memcpy'): return 'memcpy(%s, %s, %s)' % (args[0][1], args[1][1], args[2][1])
        if name.startswith('@llvm.memmove'): return 'memmove(%s, %s, %s)' % (args[0][1], args[1][1], args[2][1])
        if name.startswith('@llvm.memset'): return 'memset(%s, %s, %s)' % (args[0][1], args[1][1], args[2][1])
        m = re.match(r'@llvm\.(s|u)(max|min)\.i(\d+)', name)
        if m:
            a, b = args[0][1], args[1][1]; bits = int(m.group(3))
            if m.group(1) == 's': a2, b2 = '(s%d)%s' % (bits, a), '(s%d)%s' % (bits, b)
            else: a2, b2 = a, b
            cmp = '>' if m.group(2) == 'max' else '<'
            return '((%s %s %s) ? %s : %s)' % (a2, cmp, b2, a, b)
        if name.startswith('@llvm.expect'): return args[0][1]
        raise Exception('intrinsic ' + name)

# ---------------------------------------------------------------- globals / constants
class Em2(Emitter):
    def __init__(s, mod):
        super().__init__(mod); s.used_funcs = set(); s.zero = {}; s.strlit = {}
        for n, (t, init, isconst) in mod.globals.items():
            if init and len(init) == 1 and init[0][0] == 'str':
                raw = init[0][1][2:-1]
                if raw.endswith('\\00') and '\\' not in raw[:-3] and '"' not in raw:
                    s.strlit[cname(n)] = '"' + raw[:-3] + '"'
    def fname(s, n):
        n = s.m.aliases.get(n, n)
        return cname(n)
    def gref(s, n):
        n = s.m.aliases.get(n, n)
        if n in s.m.funcs: s.used_funcs.add(n); return '(&%s)' % cname(n) if False else cname(n)
        return '(&%s)' % cname(n)
    def need_zero(s, t):
        ct = s.ct(t); key = re.sub(r'\W', '_', ct)
        s.zero[key] = ct
    def constexpr(s, p):
        """parse constant expression, return (type, C expr)"""
        k, v = p.next()
        if v == 'getelementptr':
            p.accept('inbounds'); p.expect('('); bt = p.type(); p.expect(',')
            pt = p.type(); base = s.const(p, pt); idx = []
            while p.accept(','):
                it = p.type(); idx.append(int(p.next()[1]))
            p.expect(')')
            e = '%s[%d]' % (base, idx[0]); t = bt
            for k_ in idx[1:]:
                rt = s.resolve(t)
                if rt.kind == 'struct': e += '.f%d' % k_; t = rt.els[k_]
                else: e += '.a[%d]' % k_; t = rt.el
            return Ty('ptr', to=t), '(&%s)' % e
        if v in ('bitcast', 'ptrtoint', 'inttoptr'):
            p.expect('('); t = p.type(); e = s.const(p, t); p.expect('to'); t2 = p.type(); p.expect(')')
            return t2, '((%s)%s)' % (s.ct(t2), e)
        raise Exception('constexpr ' + v)
    def const(s, p, t):
        """parse a constant initializer of type t -> C initializer text"""
        k, v = p.peek()
        rt = s.resolve(t)
        if k == 'num':
            p.next(); n = int(v)
            return str(n) if n >= 0 else '(%s)%d' % (s.ct(t), n)
        if v in ('true', 'false'): p.next(); return '1' if v == 'true' else '0'
        if v == 'null': p.next(); return '0'
        if v in ('undef', 'poison', 'zeroinitializer'):
            p.next(); return '{0}' if rt.kind in ('struct', 'arr') else '0'
        if k == 'gid': p.next(); return s.gref(v)
        if k == 'str':
            p.next(); raw = v[2:-1]; bs = []
            i = 0
            while i < len(raw):
                if raw[i] == '\\':
                    if raw[i+1] == '\\': bs.append(92); i += 2
                    else: bs.append(int(raw[i+1:i+3], 16)); i += 3
                else: bs.append(ord(raw[i])); i += 1
            return '{{' + ','.join(str(b) for b in bs) + '}}'
        if v in ('getelementptr', 'bitcast', 'ptrtoint', 'inttoptr'): return s.constexpr(p)[1]
        if v in ('{', '<{'):
            p.next(); close = '}' if v == '{' else '}>'; parts = []
            if not p.accept(close):
                while True:
                    et = p.type(); parts.append(s.const(p, et))
                    if p.accept(close): break
                    p.expect(',')
            return '{' + ', '.join(parts) + '}'
        if v == '[':
            p.next(); parts = []
            if not p.accept(']'):
                while True:
                    et = p.type(); parts.append(s.const(p, et))
                    if p.accept(']'): break
                    p.expect(',')
            return '{{' + ', '.join(parts) + '}}'
        raise Exception('const? %r %r' % (k, v))

STUBS = {}
PRELUDE = '''#include <stdint.h>
#include <string.h>
#include <stdlib.h>
typedef uint8_t u8; typedef uint16_t u16; typedef uint32_t u32; typedef uint64_t u64;
typedef int8_t s8; typedef int16_t s16; typedef int32_t s32; typedef int64_t s64;
static inline u8* _Znwm(u64 n){ u8* p = malloc(n); __CPROVER_assume(p != 0); return p; }
static inline void _ZdlPv(u8* p){ free(p); }
'''

def main():
    text = open(sys.argv[1]).read()
    rest = sys.argv[3:]
    global STUBS
    STUBS = dict(a[len('--stub='):].split('=') for a in rest if a.startswith('--stub='))
    only = set(a for a in rest if not a.startswith('--'))  # root function names (mangled) -> emit reachable only
    m = parse_module(text)
    em = Em2(m)
    bodies = []
    # translate all defined functions (or reachable set)
    todo = [n for n, f in m.funcs.items() if f.defined]
    if only:
        reach = set(); work = ['@' + o for o in only]
        if '@llvm.global_ctors' in m.globals:
            work += [v for k, v in m.globals['@llvm.global_ctors'][1] if k == 'gid']
        while work:
            n = work.pop(); n = m.aliases.get(n, n)
            if n in reach or n not in m.funcs: continue
            reach.add(n); f = m.funcs[n]
            if f.defined:
                for lab, insts in f.blocks:
                    for toks in insts:
                        for k, v in toks:
                            if k == 'gid':
                                work.append(v)
                                if v[1:] in STUBS: work.append('@' + STUBS[v[1:]])
        todo = [n for n in todo if n in reach]
    protos = []
    for n in todo:
        f = m.funcs[n]
        tr = FuncTr(em, f, m)
        hdr, decls, code = tr.translate()
        bodies.append((hdr, decls, code))
    # prototypes for all used/declared
    names = set(todo) | em.used_funcs
    for n in sorted(names):
        n = m.aliases.get(n, n)
        if n not in m.funcs or n.startswith('@llvm.'): continue
        f = m.funcs[n]
        if n in ('@__CPROVER_assert', '@__CPROVER_assume', '@memcpy', '@memmove', '@memset', '@malloc', '@free', '@strtol', '@abort', '@_Znwm', '@_ZdlPv'): continue
        params = ', '.join(em.ct(t) for t, nm, a in f.params) or 'void'
        if f.vararg: params += ', ...'
        protos.append('%s %s(%s);' % (em.ct(f.ret), cname(n), params))
    # globals
    gdecl = []; gdef = []
    ctors = []
    if '@llvm.global_ctors' in m.globals:
        for k, v in m.globals['@llvm.global_ctors'][1]:
            if k == 'gid': ctors.append(v); em.used_funcs.add(v)
    for n in m.order:
        if n.startswith('@llvm.'): continue
        t, init, isconst = m.globals[n]
        ct = em.ct(t)
        gdecl.append('extern %s %s;' % (ct, cname(n)))
        if init is not None:
            p = P(init); ini = em.const(p, t)
            gdef.append('%s %s = %s;' % (ct, cname(n), ini))
    # flush pending pointer-only struct types
    while em.pending:
        t = em.pending.pop(); em.ct(t)
    out = [PRELUDE]
    out += em.fwd
    out += em.defs
    for key, ct in em.zero.items(): out.append('static const %s ZERO_%s = {0};' % (ct, key))
    out += gdecl + protos + gdef
    for hdr, decls, code in bodies:
        out.append(hdr + ' {'); out += decls; out += code; out.append('}')
    out.append('void __ir2c_global_ctors(void) { ' + ' '.join('%s();' % cname(c) for c in ctors) + ' }')
    open(sys.argv[2], 'w').write('\n'.join(out) + '\n')
    print('translated %d functions, %d globals' % (len(bodies), len(gdef)), file=sys.stderr)

if __name__ == '__main__':
    main()
