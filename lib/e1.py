#!/usr/bin/env python3
"""Engine E1: real C++ of /repo -> LLVM IR (clang 14, ministl container model) -> C (ir2c.py) -> CBMC.

Everything is regenerated from /repo's working tree on every call.  Nothing here decides a property;
it only builds the encoding, runs the solver and parses its per-assertion verdicts.
"""
import json, os, re, resource, shutil, subprocess, sys, time, hashlib

VERIF = os.path.dirname(os.path.dirname(os.path.abspath(__file__)))
REPO = os.environ.get('VERIF_REPO', '/repo')
CLANG = 'clang++-14'
IR2C = os.path.join(VERIF, 'lib', 'ir2c.py')

BASE_CXX = ['-std=c++20', '-nostdinc++', '-isystem', os.path.join(VERIF, 'ministl'), '-I' + REPO,
            '-I' + os.path.join(REPO, 'Compiler', 'include'), '-I' + os.path.join(VERIF, 'harness'),
            '-O0', '-Xclang', '-disable-O0-optnone', '-fno-exceptions', '-fno-rtti', '-fno-threadsafe-statics',
            '-Wno-everything', '-S', '-emit-llvm']

CBMC_FLAGS = ['--unwinding-assertions', '--signed-overflow-check', '--pointer-overflow-check',
              '--undefined-shift-check', '--drop-unused-functions', '--no-malloc-may-fail']


class BuildError(Exception):
    pass


def sh(cmd, cwd=None, timeout=None):
    p = subprocess.run(cmd, cwd=cwd, stdout=subprocess.PIPE, stderr=subprocess.PIPE, text=True, timeout=timeout)
    if p.returncode != 0:
        raise BuildError('command failed (%d): %s\n%s\n%s' % (p.returncode, ' '.join(cmd), p.stdout[-3000:], p.stderr[-3000:]))
    return p


def build(workdir, name, harness, repo_tus=(), roots=(), stubs=None, defines=(), caps=None, opt_passes='-mem2reg -sroa -instsimplify -loop-simplify -lcssa -loop-rotate -loop-unroll -unroll-threshold=100000000 -unroll-full-max-count=128 -unroll-runtime=false -unroll-allow-partial=false -unroll-allow-remainder=false -instsimplify'):
    """Compile repo TUs + harness to IR, link, simplify, translate to C.  Returns path of the C file."""
    os.makedirs(workdir, exist_ok=True)
    lls = []
    dflags = ['-D' + d for d in defines]
    if caps:
        dflags.append('-DMINISTL_CAPS_HEADER="%s"' % caps)
    for tu in repo_tus:
        src = os.path.join(REPO, tu)
        out = os.path.join(workdir, name + '.' + re.sub(r'[^A-Za-z0-9]', '_', tu) + '.ll')
        sh([CLANG] + BASE_CXX + dflags + [src, '-o', out])
        lls.append(out)
    hout = os.path.join(workdir, name + '.harness.ll')
    sh([CLANG] + BASE_CXX + dflags + ['-fno-access-control', '-DVERIF_REPO="%s"' % REPO, harness, '-o', hout])
    lls.append(hout)
    linked = os.path.join(workdir, name + '.linked.ll')
    sh(['llvm-link-14', '-S'] + lls + ['-o', linked])
    opt = os.path.join(workdir, name + '.opt.ll')
    sh(['opt-14', '-S'] + opt_passes.split() + [linked, '-o', opt])
    cfile = os.path.join(workdir, name + '.c')
    cmd = [sys.executable, IR2C, opt, cfile] + list(roots)
    for k, v in (stubs or {}).items():
        cmd.append('--stub=%s=%s' % (k, v))
    sh(cmd)
    return cfile


def _limits(mem_gb):
    def f():
        lim = int(mem_gb * (1 << 30))
        resource.setrlimit(resource.RLIMIT_AS, (lim, lim))
        os.setsid()
    return f


class Result:
    """Outcome of one CBMC query."""
    def __init__(s):
        s.status = 'error'      # 'done' (all assertions decided) | 'timeout' | 'oom' | 'error'
        s.props = {}            # property name -> dict(description, status, trace)
        s.wall = 0.0
        s.rss_mb = 0
        s.cmd = ''
        s.log = ''

    def failed(s, pat=None):
        return [(k, v) for k, v in s.props.items() if v['status'] == 'FAILURE' and (pat is None or re.search(pat, v['description']))]

    def succeeded(s, pat=None):
        return [(k, v) for k, v in s.props.items() if v['status'] == 'SUCCESS' and (pat is None or re.search(pat, v['description']))]


class Slot:
    """machine-wide limit on concurrently running solver processes (several check.py processes may run at once): one of N lock files"""
    N = int(os.environ.get('VERIF_SLOTS', '14'))
    def __enter__(s):
        import fcntl
        d = os.path.join(VERIF, 'build', '.slots'); os.makedirs(d, exist_ok=True)
        while True:
            for i in range(s.N):
                f = open(os.path.join(d, 'slot%d' % i), 'w')
                try:
                    fcntl.flock(f, fcntl.LOCK_EX | fcntl.LOCK_NB); s.f = f; return s
                except OSError:
                    f.close()
            time.sleep(0.5)
    def __exit__(s, *a):
        import fcntl
        try: fcntl.flock(s.f, fcntl.LOCK_UN); s.f.close()
        except Exception: pass


def cbmc(cfile, entry, unwind=None, unwindset=None, timeout=300, mem_gb=24, extra=(), trace=True, flags=None, objbits=None):
    with Slot():
        return _cbmc(cfile, entry, unwind, unwindset, timeout, mem_gb, extra, trace, flags, objbits)


def _cbmc(cfile, entry, unwind=None, unwindset=None, timeout=300, mem_gb=24, extra=(), trace=True, flags=None, objbits=None):
    r = Result()
    cmd = ['cbmc', cfile, '--function', entry, '--json-ui'] + list(CBMC_FLAGS if flags is None else flags)
    if unwind is not None:
        cmd += ['--unwind', str(unwind)]
    if unwindset:
        cmd += ['--unwindset', ','.join('%s:%d' % kv for kv in unwindset.items())]
    if trace:
        cmd += ['--trace']
    if objbits:
        cmd += ['--object-bits', str(objbits)]
    cmd += list(extra)
    r.cmd = ' '.join(cmd)
    t0 = time.time()
    outp = cfile + '.' + entry + '.json'
    with open(outp, 'w') as fo:
        p = subprocess.Popen(['/usr/bin/time', '-f', 'MAXRSS_KB=%M'] + cmd, stdout=fo, stderr=subprocess.PIPE, text=True,
                             preexec_fn=_limits(mem_gb))
        try:
            _, err = p.communicate(timeout=timeout)
        except subprocess.TimeoutExpired:
            try:
                os.killpg(p.pid, 9)
            except Exception:
                p.kill()
            p.communicate()
            r.status = 'timeout'; r.wall = time.time() - t0
            return r
    r.wall = time.time() - t0
    m = re.search(r'MAXRSS_KB=(\d+)', err or '')
    if m:
        r.rss_mb = int(m.group(1)) // 1024
    try:
        data = json.load(open(outp))
    except Exception as e:
        txt = open(outp).read()
        r.log = txt[-2000:] + (err or '')[-2000:]
        r.status = 'oom' if ('bad_alloc' in r.log or 'Out of memory' in r.log or p.returncode in (-9, 137, -6, 134)) else 'error'
        return r
    got_result = False
    msgs = []
    for item in data:
        if 'result' in item:
            got_result = True
            for pr in item['result']:
                desc = pr.get('description', '')
                r.props[pr['property']] = {'description': desc, 'status': pr['status'],
                                           'trace': None if desc.startswith('WITNESS') else pr.get('trace'), 'loc': pr.get('sourceLocation', {})}
        if item.get('messageType') == 'ERROR':
            msgs.append(item.get('messageText', ''))
    r.log = '\n'.join(msgs)[-3000:]
    r.status = 'done' if got_result else 'error'
    try:
        os.remove(outp)
    except OSError:
        pass
    return r


def trace_values(trace, names=None):
    """last assigned value of each (base) lhs in a CBMC JSON trace; arrays/structs are flattened by lhs string."""
    out = {}
    for st in trace or []:
        if st.get('stepType') != 'assignment':
            continue
        lhs = st.get('lhs')
        if lhs is None:
            continue
        if names is not None and not any(lhs == n or lhs.startswith(n + '[') or lhs.startswith(n + '.') for n in names):
            continue
        v = st.get('value', {})
        out[lhs] = _val(v)
    return out


def _val(v):
    nm = v.get('name')
    if nm == 'integer':
        b = v.get('binary')
        if b is not None:
            x = int(b, 2); w = len(b)
            if w in (32, 64) and x >= 1 << (w - 1):
                x -= 1 << w          # ir2c carries IR integers as unsigned C types; CEX_ read-outs are C ints
            return x
        try:
            return int(re.sub(r'[a-zA-Z]+$', '', str(v.get('data'))))
        except ValueError:
            return v.get('data')
    if nm == 'boolean':
        d = v.get('data')
        return d if isinstance(d, bool) else d == 'true'
    if nm == 'array':
        return [_val(e['value']) for e in v.get('elements', [])]
    if nm == 'struct':
        return {m['name']: _val(m['value']) for m in v.get('members', [])}
    if nm == 'union':
        m = v.get('member')
        return {m['name']: _val(m['value'])} if m else None
    return v.get('data')
