#!/usr/bin/env python3
"""Layer C-tv driver: enumerate program shapes, compile each natively with /repo's compiler, generate the per-shape data
header for harness/ctv.cpp, run CBMC, replay counterexamples through the public API of the native build."""
import hashlib, itertools, json, os, random, re, subprocess, sys, time

sys.path.insert(0, os.path.dirname(os.path.abspath(__file__)))
import framework as fw, e1, theolang as TL

H = os.path.join(fw.VERIF, 'harness', 'ctv.cpp')
TUS = ['VM/src/vm.cpp', 'VM/src/program.cpp', 'VM/src/instr.cpp']
OPN = {'LINE': 0, 'SETC': 1, 'COPY': 2, 'ADDC': 3, 'SUBC': 4, 'JZ': 5, 'JMP': 6, 'IFEQ': 7, 'DEC': 8, 'CALL': 9, 'RET': 10, 'STOP': 11, 'HALT': 12}


# ------------------------------------------------------------------------------------------------ shapes
LOOPY = {'loop_bound_assigned', 'while_dec', 'goto_back', 'goto_into_loop', 'goto_out_of_loop', 'stop_mid', 'call_in_loop', 'call_two_args_out', 'call_nested_arg', 'callee_stop', 'nested_loops', 'while_in_loop'}


def shapes(tier, seed):
    """finite family of program shapes (concrete structure; every literal symbolic).  Returns list of (name, prog, include)."""
    L = []
    def P(main, defs=()): return {'defs': list(defs), 'main': main}
    f1 = {'name': 'f', 'params': ['a'], 'out': None, 'body': [('add', 'x0', 'a', 0)]}
    g2 = {'name': 'g', 'params': ['a', 'b'], 'out': 'b', 'body': [('loop', 'a', [('add', 'b', 'b', 0)])]}
    # one representative per statement kind and per interaction the statement of C01/C07/C16 names
    L.append(('assign', P([('set', 'x0', 0), ('copy', 'x1', 'x0'), ('add', 'x2', 'x1', 1), ('sub', 'x0', 'x2', 2)])))
    L.append(('loop_bound_assigned', P([('set', 'n', 0), ('loop', 'n', [('add', 'x0', 'x0', 1), ('set', 'n', 2)])])))
    L.append(('while_dec', P([('set', 'x1', 0), ('while', 'x1', [('sub', 'x1', 'x1', 1), ('add', 'x0', 'x0', 2)])])))
    L.append(('goto_back', P([('set', 'x1', 0), ('label', 'l', ('ifgoto', 'x1', 1, 'e')), ('sub', 'x1', 'x1', 2), ('add', 'x0', 'x0', 3), ('goto', 'l'), ('label', 'e', ('copy', 'x2', 'x0'))])))
    L.append(('goto_into_loop', P([('set', 'n', 0), ('goto', 'lin'), ('loop', 'n', [('add', 'x0', 'x0', 1), ('label', 'lin', ('add', 'x1', 'x1', 2))])])))
    L.append(('goto_out_of_loop', P([('set', 'n', 0), ('loop', 'n', [('add', 'x0', 'x0', 1), ('ifgoto', 'x0', 2, 'lout')]), ('label', 'lout', ('copy', 'x1', 'x0'))])))
    L.append(('stop_mid', P([('set', 'x0', 0), ('ifgoto', 'x0', 1, 's'), ('set', 'x1', 2), ('label', 's', ('stop',)), ('set', 'x2', 3)])))
    L.append(('call_simple', P([('set', 'y', 0), ('call', 'x1', 'f', [('var', 'y')])], [f1])))
    L.append(('call_in_loop', P([('set', 'n', 0), ('loop', 'n', [('call', 'y', 'f', [('var', 'y')])])], [dict(f1, body=[('add', 'x0', 'a', 1)])])))
    L.append(('call_two_args_out', P([('set', 'u', 0), ('set', 'v', 1), ('call', 'w', 'g', [('var', 'u'), ('var', 'v')])], [dict(g2, body=[('loop', 'a', [('add', 'b', 'b', 2)])])])))
    L.append(('call_nested_arg', P([('call', 'z', 'g', [('call', 'f', [('lit', 0)]), ('lit', 1)])], [dict(f1, body=[('add', 'x0', 'a', 2)]), dict(g2, body=[('loop', 'a', [('add', 'b', 'b', 3)])])])))
    L.append(('callee_stop', P([('call', 'x1', 'h', [('lit', 0)]), ('set', 'x2', 1)], [{'name': 'h', 'params': ['a'], 'out': None, 'body': [('ifgoto', 'a', 2, 'q'), ('stop',), ('label', 'q', ('set', 'x0', 3))]}])))
    L.append(('callee_calls', P([('call', 'r', 'k', [('lit', 0)])], [dict(f1, body=[('add', 'x0', 'a', 1)]), {'name': 'k', 'params': ['p'], 'out': None, 'body': [('call', 'x0', 'f', [('var', 'p')]), ('add', 'x0', 'x0', 2)]}])))
    L.append(('redefinition', P([('call', 'r', 'f', [('lit', 0)])], [dict(f1, body=[('add', 'x0', 'a', 1)]), dict(f1, body=[('sub', 'x0', 'a', 2)])])))
    L.append(('no_params', P([('call', 'r', 'c', [])], [{'name': 'c', 'params': [], 'out': None, 'body': [('set', 'x0', 0)]}])))
    L.append(('out_is_param', P([('call', 'r', 'o', [('lit', 0)])], [{'name': 'o', 'params': ['a'], 'out': 'a', 'body': [('add', 'a', 'a', 1)]}])))
    L.append(('nested_loops', P([('set', 'n', 0), ('set', 'm', 1), ('loop', 'n', [('loop', 'm', [('add', 'x0', 'x0', 2)])])])))
    L.append(('while_in_loop', P([('set', 'n', 0), ('loop', 'n', [('set', 'w', 1), ('while', 'w', [('sub', 'w', 'w', 2), ('add', 'x0', 'x0', 3)])])])))
    L.append(('include_defs', P([('set', 'y', 0), ('call', 'x1', 'f', [('var', 'y')]), ('add', 'x1', 'x1', 1)], [dict(f1, body=[('add', 'x0', 'a', 2)])]), True))
    out = [(n, p, (rest[0] if rest else False)) for (n, p, *rest) in L]
    if tier == 'thorough':
        out += generated_family(seed)
    return out


def generated_family(seed, limit=120):
    """systematic sequences of length <= 3 over the simple statement kinds with the identifier positions enumerated"""
    rnd = random.Random(seed)
    vars_ = ['x0', 'x1', 'a']
    atoms = []
    for x in vars_:
        atoms.append(lambda k, x=x: ('set', x, k))
        for y in vars_:
            atoms.append(lambda k, x=x, y=y: ('add', x, y, k))
            atoms.append(lambda k, x=x, y=y: ('sub', x, y, k))
            if x != y: atoms.append(lambda k, x=x, y=y: ('copy', x, y))
    fam = []
    for n in (2, 3):
        for combo in itertools.product(range(len(atoms)), repeat=n):
            fam.append(combo)
    rnd.shuffle(fam)
    out = []
    for combo in fam[:limit]:
        body = [atoms[c](i) for i, c in enumerate(combo)]
        wrap = rnd.choice(['plain', 'loop', 'while', 'call'])
        k = len(body)
        if wrap == 'plain': prog = {'defs': [], 'main': body}
        elif wrap == 'loop': prog = {'defs': [], 'main': [('set', 'n', k), ('loop', 'n', body)]}
        elif wrap == 'while': prog = {'defs': [], 'main': [('set', 'x1', k), ('while', 'x1', body + [('sub', 'x1', 'x1', k + 1)])]}
        else: prog = {'defs': [{'name': 'f', 'params': ['a'], 'out': None, 'body': body}], 'main': [('set', 'x1', k), ('call', 'x0', 'f', [('var', 'x1')])]}
        out.append(('gen_%s_%s' % (wrap, '_'.join(map(str, combo))), prog, False))
    return out


def steps_until_inside_callee(code, limit=200):
    """number of VM steps (concrete run on the sentinel literals) after which the first callee has executed its first instruction"""
    ip = 0; data = []; stack = []; steps = 0
    while steps < limit:
        op, a, b, c = code[ip]; steps += 1
        base = stack[-1][0] if stack else 0
        if op in (0, 1): ip += 1
        elif op == 2: return None
        elif op == 3: data[base + a] = max(data[base + b] + c, 0); ip += 1
        elif op == 11: data[base + a] = 0 if data[base + b] == data[base + c] else 1; ip += 1
        elif op == 10: data[base + a] = b; ip += 1
        elif op == 4: ip += a
        elif op == 5: ip = ip + a if data[base + b] == 0 else ip + 1
        elif op == 6: stack.append([len(data), a, c, -1]); data += [0] * a; ip += 1
        elif op == 7: data[stack[-1][0] + a] = data[stack[-2][0] + b]; ip += 1
        elif op == 8: stack[-1][3] = ip + 1; ip = a; return steps + 1
        elif op == 9:
            fr = stack.pop(); data[stack[-1][0] + fr[2]] = data[fr[0] + a]; ip = fr[3]; del data[fr[0]:]
    return None


def nlits(prog):
    m = [-1]
    def walk(x):
        if isinstance(x, (list, tuple)):
            if x and x[0] in ('set',): m[0] = max(m[0], x[2])
            elif x and x[0] in ('add', 'sub'): m[0] = max(m[0], x[3])
            elif x and x[0] == 'ifgoto': m[0] = max(m[0], x[2])
            elif x and x[0] == 'lit': m[0] = max(m[0], x[1])
            for y in x: walk(y)
        elif isinstance(x, dict):
            for y in x.values(): walk(y)
    walk(prog)
    return m[0] + 1


# ------------------------------------------------------------------------------------------------ native compiler
_native = {}


def native_tool(wd):
    """build native/theoc_dump.cpp against /repo's working tree (real libstdc++)"""
    if wd in _native: return _native[wd]
    exe = os.path.join(wd, 'theoc_dump')
    R = fw.REPO
    srcs = [os.path.join(fw.VERIF, 'native', 'theoc_dump.cpp')] + [os.path.join(R, 'Compiler/src', f) for f in ('ast.cpp', 'parse.cpp', 'gen.cpp', 'compiler.cpp', 'scan.cpp', 'macro.cpp', 'ParserGenerator/grammar.cpp', 'ParserGenerator/lrdea.cpp')] + \
           ['-x', 'c++', os.path.join(R, 'Compiler/src/lex.yy.c'), '-x', 'none'] + [os.path.join(R, 'VM/src', f) for f in ('vm.cpp', 'program.cpp', 'instr.cpp')]
    p = subprocess.run(['g++', '-std=c++20', '-O1', '-fno-access-control', '-w', '-I' + R, '-I' + os.path.join(R, 'Compiler/include')] + srcs + ['-o', exe], stdout=subprocess.PIPE, stderr=subprocess.PIPE, text=True)
    if p.returncode != 0: raise e1.BuildError('native build of /repo failed: ' + p.stderr[-1500:])
    _native[wd] = exe
    return exe


def native_compile(wd, files, main='m', run_steps=None, tag='p'):
    exe = native_tool(wd)
    args = [exe, main]
    for name, text in files.items():
        path = os.path.join(wd, '%s_%s.theo' % (tag, re.sub(r'\W', '_', name)))
        open(path, 'w').write(text); args += [name, path]
    env = dict(os.environ)
    if run_steps: env['VERIF_RUN'] = str(run_steps)
    p = subprocess.run(args, stdout=subprocess.PIPE, stderr=subprocess.PIPE, text=True, env=env, timeout=120)
    if p.returncode != 0: return {'crash': True, 'rc': p.returncode, 'stderr': p.stderr[-800:]}
    return json.loads(p.stdout)


# ------------------------------------------------------------------------------------------------ data header
def make_data(name, prog, include, dump, kv, nev):
    rc = TL.RefCompiler(prog, include)
    routines = TL.resolve_calls(rc)
    nl = nlits(prog)
    code = dump['code']
    sent = {TL.SENT + k: k for k in range(nl)}
    rows = []
    for (op, a, b, c) in code:
        which = 0; k = 0
        if op == 10 and b in sent: which, k = 2, sent[b]
        elif op == 3 and c in sent: which, k = 3, sent[c]
        elif op == 3 and -c in sent: which, k = -3, sent[-c]
        rows.append((op, a, b, c, which, k))
    smaps = dump['stack_maps']
    if len(smaps) != len(routines): raise Exception('routine count mismatch: %d stack maps vs %d reference routines' % (len(smaps), len(routines)))
    maxv = max(len(r['vars']) for r in routines)
    maxrc = max(len(r['code']) for r in routines)
    maxp = max([len(r['params']) for r in routines] + [1])
    argv = []
    refrows = []
    for r in routines:
        rr = []
        for (op, a, b, c) in r['code']:
            cost = {'LINE': 1, 'SETC': 1, 'COPY': 1, 'ADDC': 3, 'SUBC': 3, 'JZ': 1, 'JMP': 1, 'IFEQ': 4, 'DEC': 1, 'RET': 1, 'STOP': 1, 'HALT': 1}.get(op, 0)
            if op == 'LINE': a = {'m': 0, 'i': 1}[a]
            if op == 'CALL':
                off = len(argv); argv += list(c); cost = len(c) + 2; c = off
            rr.append((OPN[op], a if a is not None else 0, b if b is not None else 0, c if c is not None else 0, cost))
        refrows.append(rr)
    # while-JZ costs 2 (condition copy + JMPC), loop-JZ costs 1: a JZ whose variable is a user variable is a WHILE test
    for ri, r in enumerate(routines):
        for i, (op, a, b, c) in enumerate(r['code']):
            if op == 'JZ' and not r['vars'][a].startswith('%'):
                t = refrows[ri][i]; refrows[ri][i] = (t[0], t[1], t[2], t[3], 2)
    varreg = []
    for ri, r in enumerate(routines):
        m = {v: int(k) for k, v in smaps[ri]['map'].items()}
        varreg.append([(-1 if v.startswith('%') else m.get(v, -2)) for v in r['vars']] + [-1] * (maxv - len(r['vars'])))
    fsizes = [row[1] for row in code if row[0] == 6]
    maxfs = max(fsizes + [1])
    dw = sum(sorted(fsizes, reverse=True)[:len(routines)]) + 1
    maxarg = max([len(r['params']) for r in routines] + [1])
    sites = dump['line_info']
    o = []
    o.append('// generated by lib/ctv.py for shape %s' % name)
    o.append('#define CTV_NCODE %d\n#define CTV_NLIT %d\n#define CTV_KV %d\n#define CTV_F %d\n#define CTV_NR %d\n#define CTV_MAXV %d\n#define CTV_MAXDEPTH %d' % (len(code), nl, kv, kv, len(routines), maxv, len(routines)))
    o.append('#define CTV_DW %d\n#define CTV_MAXFS %d\n#define CTV_MAXARG %d\n#define CTV_NEV %d\n#define CTV_NSITES %d\n#define CTV_LIT_BOUNDS' % (dw, maxfs, max(maxarg, 1), nev, len(sites)))
    o.append('#define MINISTL_CTV 1')
    o.append('static const int VMCODE[CTV_NCODE][6] = {%s};' % ', '.join('{%d,%d,%d,%d,%d,%d}' % r for r in rows))
    o.append('static const int REFCODE[CTV_NR][%d][5] = {%s};' % (maxrc, ', '.join('{' + ', '.join('{%d,%d,%d,%d,%d}' % t for t in rr) + '}' for rr in refrows)))
    o.append('static const int REFNPARAMS[CTV_NR] = {%s};' % ', '.join(str(len(r['params'])) for r in routines))
    o.append('static const int REFPARAMS[CTV_NR][%d] = {%s};' % (maxp, ', '.join('{' + ', '.join(str(x) for x in (r['params'] + [0] * (maxp - len(r['params'])))) + '}' for r in routines)))
    o.append('static const int REFARGV[%d] = {%s};' % (len(argv) + 1, ', '.join(map(str, argv + [0]))))
    o.append('static const int REFSMAP[CTV_NR] = {%s};' % ', '.join(str(i) for i in range(len(routines))))
    o.append('static const int VARREG[CTV_NR][CTV_MAXV] = {%s};' % ', '.join('{' + ', '.join(map(str, v)) + '}' for v in varreg))
    o.append('static const int SITE_IDX[%d] = {%s};' % (len(sites) + 1, ', '.join(str(s[0]) for s in sites) + (', 0' if sites else '0')))
    o.append('static const int SITE_FILE[%d] = {%s};' % (len(sites) + 1, ', '.join(str({'m': 0, 'i': 1}.get(s[1], 2)) for s in sites) + (', 0' if sites else '0')))
    o.append('static const int SITE_LINE[%d] = {%s};' % (len(sites) + 1, ', '.join(str(s[2]) for s in sites) + (', 0' if sites else '0')))
    return '\n'.join(o) + '\n', routines, {'ncode': len(code), 'nlit': nl, 'dw': dw, 'routines': len(routines), 'maxv': maxv, 'maxfs': maxfs}


# ------------------------------------------------------------------------------------------------ jobs
def build_jobs(prop, tier, seed, wd, entries=('h_ctv',), tags=None, only=None):
    kv = int(os.environ.get("CTV_KV", "40")) if tier == 'quick' else 56
    nev = 14 if tier == 'quick' else 20
    fam = shapes(tier, seed)
    if only: fam = [s for s in fam if s[0] in only]
    jobs = []; meta = {}; problems = []
    for (name, prog, include) in fam:
        files = TL.Printer(prog, None, include).text()
        try:
            dump = native_compile(wd, files, 'm', tag=name)
        except Exception as ex:
            problems.append('%s: native compile failed: %s' % (name, ex)); continue
        if dump.get('crash') or not dump.get('ok'):
            problems.append({'shape': name, 'source': files, 'result': {k: dump.get(k) for k in ('crash', 'rc', 'errors', 'stderr')}})
            continue
        try:
            data, routines, info = make_data(name, prog, include, dump, kv, nev)
        except Exception as ex:
            problems.append({'shape': name, 'source': files, 'result': 'reference/bytecode mismatch: %s' % ex}); continue
        dpath = os.path.join(wd, 'ctv_%s.hpp' % name)
        open(dpath, 'w').write(data)
        defines = ['CTV_DATA="%s"' % dpath, 'MINISTL_VEC_CAP=%d' % (info['routines'] + 1), 'MINISTL_STR_CAP=12', 'MINISTL_MAP_CAP=%d' % max(3, len(dump['line_info']) + 1),
                   'VM_CAPS_L=%d' % info['ncode'], 'VM_CAPS_DW=%d' % info['dw'], 'VM_CAPS_NSITE=%d' % max(1, len(dump['line_info']))]
        ents = []
        for entry in entries:
            if entry == 'h_ctv_hist':
                # reset points: inside the first callee (right after the first EXEC) and after about half of the straight-line run
                inside = steps_until_inside_callee(dump['code'])
                k1s = sorted(set(([inside] if inside else []) + [max(2, len(dump['code']) // 2)]))
                if tier == 'quick': k1s = k1s[:1]
                ents += [(entry, k1) for k1 in k1s]
            else: ents.append((entry, None))
        for entry, k1 in ents:
            j = fw.Job('ctv.%s.%s%s' % (name, entry, '' if k1 is None else '.k%d' % k1), H, entry, tus=TUS, defines=defines + ([] if k1 is None else ['CTV_K1=%d' % k1]), caps='caps_ctv.hpp', unwind=info['maxfs'] + 2, unwindset={'_ZL15run_and_compareRN4Theo2VMEb.0': kv + 1}, tags=tags or [prop],
                       timeout=600 if tier == 'quick' else 1500,
                       what='shape %s: real VM on the natively compiled program (every literal symbolic) vs reference interpreter; stepping run' % name,
                       bounds='%d VM steps, %d reference steps, %d literals (31-bit symbolic), %d instructions, <= %d stops' % (kv, kv, info['nlit'], info['ncode'], nev),
                       functions=['Theo::VM::executeSingle', 'Theo::VM::getCurrentBreak', 'Theo::VM::setSteppingMode', 'Theo::compile (native, per shape)'],
                       build_key=('ctv', name, k1), extra=['--object-bits', '12'])
            jobs.append(j)
        meta[name] = {'prog': prog, 'include': include, 'files': files, 'routines': routines, 'info': info}
    return jobs, meta, problems


def run_family(prop, tier, seed, wd, out, entries, loopy=False, tags=None):
    """build + run the C-tv jobs and merge their verdicts into `out`; returns coverage keys"""
    fam_only = None
    jobs, meta, problems = build_jobs(prop, tier, seed, wd, entries=entries, tags=tags or [prop])
    if not loopy:
        # shapes with data-dependent control flow are decided by the per-construct simulation obligations (sim.py), not by bounded runs:
        # a symbolic instruction pointer makes the bounded run intractable (measured: 16 VM steps of while_dec = 577 s / 11 GB)
        jobs = [j for j in jobs if j.entry == 'h_wf' or j.name.split('.')[1] not in LOOPY and not j.name.split('.')[1].startswith('gen_loop') and not j.name.split('.')[1].startswith('gen_while')]
    for j in jobs:
        if j.entry == 'h_wf': j.native = False
    fw.run_jobs(prop, jobs, wd, workers=8)
    fw.classify(prop, jobs, wd, out)
    for pr in problems:
        out.inconclusive.append('shape could not be compiled natively: %s' % json.dumps(pr)[:400])
    return {'programs': len(set(j.name.split('.')[1] for j in jobs)), 'shapes': sorted(set(j.name.split('.')[1] for j in jobs))}


def semantics_obligations(prop, tier, seed, wd, out):
    cov = run_family(prop, tier, seed, wd, out, ('h_ctv',))
    try:
        import sim
        cov.update(sim.obligations(prop, tier, seed, wd, out) or {})
    except ImportError:
        pass
    return cov


def wf_obligations(prop, tier, seed, wd, out):
    return run_family(prop, tier, seed, wd, out, ('h_wf',), loopy=True)
