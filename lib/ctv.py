#!/usr/bin/env python3
"""Layer C-tv driver: enumerate program shapes, compile each natively with /repo's compiler, generate the per-shape data
header for harness/ctv.cpp, run CBMC, replay counterexamples through the public API of the native build."""
import hashlib, itertools, json, os, random, re, subprocess, sys, time

sys.path.insert(0, os.path.dirname(os.path.abspath(__file__)))
import framework as fw, e1, theolang as TL

H = os.path.join(fw.VERIF, 'harness', 'ctv.cpp')
TUS = ['VM/src/vm.cpp', 'VM/src/program.cpp', 'VM/src/instr.cpp']
OPN = {'LINE': 0, 'SETC': 1, 'COPY': 2, 'ADDC': 3, 'SUBC': 4, 'JZ': 5, 'JMP': 6, 'IFEQ': 7, 'DEC': 8, 'CALL': 9, 'RET': 10, 'STOP': 11, 'HALT': 12}


# ------------------------------------------------------------------------------------------------ shapes
LOOPY = {'multi_goto_one_label', 'label_per_routine', 'while_call_dec', 'loop_in_callee_in_loop', 'sub_bound_skip', 'loop_detour', 'nested_loops_oneline', 'call_in_loop_oneline', 'loop_bound_assigned', 'while_dec', 'goto_back', 'goto_into_loop', 'goto_out_of_loop', 'stop_mid', 'call_in_loop', 'call_two_args_out', 'call_nested_arg', 'callee_stop', 'nested_loops', 'while_in_loop'}


def shapes(tier, seed):
    """finite family of program shapes (concrete structure; every literal symbolic).  Returns list of (name, prog, include)."""
    L = []
    def P(main, defs=()): return {'defs': list(defs), 'main': main}
    f1 = {'name': 'f', 'params': ['a'], 'out': None, 'body': [('add', 'x0', 'a', 0)]}
    g2 = {'name': 'g', 'params': ['a', 'b'], 'out': 'b', 'body': [('loop', 'a', [('add', 'b', 'b', 0)])]}
    # one representative per statement kind and per interaction the statement of C01/C07/C16 names
    L.append(('assign', P([('set', 'x0', 0), ('copy', 'x1', 'x0'), ('add', 'x2', 'x1', 1), ('sub', 'x0', 'x2', 2)])))
    L.append(('loop_bound_assigned', P([('set', 'n', 0), ('loop', 'n', [('add', 'x0', 'x0', 1), ('set', 'n', 2)])])))
    L.append(('while_dec', P([('set', 'x1', 0), ('while', 'x1', [('sub', 'x1', 'x1', 1), ('add', 'x0', 'x0', 2)])])))
    L.append(('goto_back', P([('set', 'x1', 0), ('label', 'l', ('ifgoto', 'x1', 1, 'e')), ('sub', 'x1', 'x1', 2), ('add', 'x0', 'x0', 3), ('goto', 'l'), ('label', 'e', ('copy', 'x2', 'x0'))])))
    L.append(('goto_into_loop', P([('set', 'n', 0), ('goto', 'lin'), ('loop', 'n', [('add', 'x0', 'x0', 1), ('label', 'lin', ('add', 'x1', 'x1', 2))])])))
    L.append(('goto_out_of_loop', P([('set', 'n', 0), ('loop', 'n', [('add', 'x0', 'x0', 1), ('ifgoto', 'x0', 2, 'lout')]), ('label', 'lout', ('copy', 'x1', 'x0'))])))
    # detour: jump out of a LOOP body to code behind the loop that needs a temporary, and back into the body (the counter must survive the detour)
    L.append(('loop_detour', P([('set', 'n', 0), ('loop', 'n', [('add', 'a', 'a', 1), ('goto', 'lo'), ('label', 'lb', ('add', 'b', 'b', 2))]), ('goto', 'lf'),
                                ('label', 'lo', ('add', 'c', 'c', 3)), ('goto', 'lb'), ('label', 'lf', ('copy', 'd', 'a'))])))
    L.append(('stop_mid', P([('set', 'x0', 0), ('ifgoto', 'x0', 1, 's'), ('set', 'x1', 2), ('label', 's', ('stop',)), ('set', 'x2', 3)])))
    L.append(('call_simple', P([('set', 'y', 0), ('call', 'x1', 'f', [('var', 'y')])], [f1])))
    L.append(('call_in_loop', P([('set', 'n', 0), ('loop', 'n', [('call', 'y', 'f', [('var', 'y')])])], [dict(f1, body=[('add', 'x0', 'a', 1)])])))
    L.append(('call_two_args_out', P([('set', 'u', 0), ('set', 'v', 1), ('call', 'w', 'g', [('var', 'u'), ('var', 'v')])], [dict(g2, body=[('loop', 'a', [('add', 'b', 'b', 2)])])])))
    L.append(('call_nested_arg', P([('call', 'z', 'g', [('call', 'f', [('lit', 0)]), ('lit', 1)])], [dict(f1, body=[('add', 'x0', 'a', 2)]), dict(g2, body=[('loop', 'a', [('add', 'b', 'b', 3)])])])))
    L.append(('callee_stop', P([('call', 'x1', 'h', [('lit', 0)]), ('set', 'x2', 1)], [{'name': 'h', 'params': ['a'], 'out': None, 'body': [('ifgoto', 'a', 2, 'q'), ('stop',), ('label', 'q', ('set', 'x0', 3))]}])))
    L.append(('callee_calls', P([('call', 'r', 'k', [('lit', 0)])], [dict(f1, body=[('add', 'x0', 'a', 1)]), {'name': 'k', 'params': ['p'], 'out': None, 'body': [('call', 'x0', 'f', [('var', 'p')]), ('add', 'x0', 'x0', 2)]}])))
    L.append(('redefinition', P([('call', 'r', 'f', [('lit', 0)])], [dict(f1, body=[('add', 'x0', 'a', 1)]), dict(f1, body=[('sub', 'x0', 'a', 2)])])))
    L.append(('no_params', P([('call', 'r', 'c', [])], [{'name': 'c', 'params': [], 'out': None, 'body': [('set', 'x0', 0)]}])))
    L.append(('out_is_param', P([('call', 'r', 'o', [('lit', 0)])], [{'name': 'o', 'params': ['a'], 'out': 'a', 'body': [('add', 'a', 'a', 1)]}])))
    # the result variable (implicit x0 / declared OUT) is neither a parameter nor mentioned in the body: it still needs its own zeroed register
    L.append(('out_unmentioned', P([('call', 'r', 'u', [('lit', 0)]), ('call', 's', 'v', [('lit', 1)])],
                                   [{'name': 'u', 'params': ['a'], 'out': None, 'body': [('copy', 'b', 'a')]}, {'name': 'v', 'params': ['a'], 'out': 'z', 'body': [('add', 'b', 'a', 2)]}])))
    L.append(('nested_loops', P([('set', 'n', 0), ('set', 'm', 1), ('loop', 'n', [('loop', 'm', [('add', 'x0', 'x0', 2)])])])))
    L.append(('while_in_loop', P([('set', 'n', 0), ('loop', 'n', [('set', 'w', 1), ('while', 'w', [('sub', 'w', 'w', 2), ('add', 'x0', 'x0', 3)])])])))
    L.append(('include_defs', P([('set', 'y', 0), ('call', 'x1', 'f', [('var', 'y')]), ('add', 'x1', 'x1', 1)], [dict(f1, body=[('add', 'x0', 'a', 2)])]), True))
    # an earlier definition stays reachable after its name is redefined with more variables
    L.append(('redefinition_reachable', P([('call', 'r', 'g', [('lit', 0)]), ('call', 's', 'f', [('lit', 1)])],
                                          [dict(f1, body=[('add', 'x0', 'a', 2)]), {'name': 'g', 'params': ['p'], 'out': None, 'body': [('call', 'x0', 'f', [('var', 'p')])]},
                                           {'name': 'f', 'params': ['a'], 'out': None, 'body': [('copy', 'b', 'a'), ('copy', 'c', 'b'), ('sub', 'x0', 'c', 3)]}])))
    # non-canonical layout: the whole program on one line (C01/C16 quantify over every layout; C07 does not)
    L.append(('nested_loops_oneline', P([('set', 'n', 0), ('set', 'm', 1), ('loop', 'n', [('loop', 'm', [('add', 'x0', 'x0', 2)])])]), 'compact'))
    L.append(('call_in_loop_oneline', P([('set', 'n', 0), ('loop', 'n', [('call', 'y', 'f', [('var', 'y')])])], [dict(f1, body=[('add', 'x0', 'a', 1)])]), 'compact'))
    # ---- round 5: interactions named by C01's quantifier that the first family left out
    t3 = {'name': 't', 'params': ['a', 'b', 'c'], 'out': 'c', 'body': [('add', 'c', 'c', 2), ('copy', 'd', 'a'), ('copy', 'e', 'b')]}
    # two calls as arguments of one call: the first result must survive the evaluation of the second (temporaries across a call)
    L.append(('two_call_args', P([('set', 'y', 0), ('call', 'z', 'p2', [('call', 'f', [('var', 'y')]), ('call', 'f', [('lit', 1)])])],
                                 [dict(f1, body=[('add', 'x0', 'a', 2)]), {'name': 'p2', 'params': ['a', 'b'], 'out': None, 'body': [('copy', 'u', 'a'), ('sub', 'x0', 'b', 3)]}])))
    # three arguments of three kinds (literal, variable, call); the result variable is the last parameter
    L.append(('three_args', P([('set', 'y', 0), ('call', 'r', 't', [('lit', 1), ('var', 'y'), ('call', 'f', [('var', 'y')])])], [dict(f1, body=[('add', 'x0', 'a', 3)]), t3])))
    # calls nested three deep in argument position
    L.append(('deep_nested_arg', P([('call', 'z', 'f', [('call', 'f', [('call', 'f', [('lit', 0)])])])], [dict(f1, body=[('add', 'x0', 'a', 1)])])))
    # the assigned variable is also passed twice as argument; result is a parameter
    L.append(('call_arg_is_target', P([('set', 'y', 0), ('call', 'y', 'q', [('var', 'y'), ('var', 'y')])], [{'name': 'q', 'params': ['a', 'b'], 'out': 'b', 'body': [('add', 'b', 'a', 1), ('set', 'a', 2)]}])))
    # several jumps to one forward label (a backpatch list with three entries) and a label that is never the target of anything
    L.append(('multi_goto_one_label', P([('set', 'x0', 0), ('ifgoto', 'x0', 1, 'e'), ('ifgoto', 'x0', 2, 'e'), ('set', 'x1', 3), ('goto', 'e'), ('label', 'u', ('set', 'x1', 4)), ('label', 'e', ('copy', 'x2', 'x1'))])))
    # the same label name in a program and in the main part (labels are per routine), a forward jump in each
    L.append(('label_per_routine', P([('call', 'r', 'h', [('lit', 0)]), ('ifgoto', 'r', 1, 'q'), ('set', 'r', 2), ('label', 'q', ('copy', 's', 'r'))],
                                     [{'name': 'h', 'params': ['a'], 'out': None, 'body': [('ifgoto', 'a', 3, 'q'), ('set', 'x0', 4), ('label', 'q', ('add', 'x0', 'x0', 5))]}])))
    # WHILE whose variable is recomputed by a call in the body; the callee truncates at zero
    L.append(('while_call_dec', P([('set', 'w', 0), ('while', 'w', [('call', 'w', 'd', [('var', 'w')]), ('add', 'x0', 'x0', 1)])], [{'name': 'd', 'params': ['a'], 'out': None, 'body': [('sub', 'x0', 'a', 2)]}])))
    # LOOP inside a callee that is called from inside a LOOP: two live hidden counters in two activations
    L.append(('loop_in_callee_in_loop', P([('set', 'n', 0), ('loop', 'n', [('call', 'y', 'm', [('var', 'y')])])], [{'name': 'm', 'params': ['a'], 'out': 'a', 'body': [('set', 'k', 1), ('loop', 'k', [('add', 'a', 'a', 2)])]}])))
    # truncated subtraction feeding a LOOP bound, the loop skipped or run; jump forward over a whole loop
    L.append(('sub_bound_skip', P([('set', 'n', 0), ('sub', 'n', 'n', 1), ('ifgoto', 'n', 2, 'z'), ('loop', 'n', [('add', 'x0', 'x0', 3)]), ('label', 'z', ('copy', 'x1', 'x0'))])))
    out = [(n, p, (rest[0] if rest else False)) for (n, p, *rest) in L]
    if tier == 'thorough':
        out += generated_family(seed)
    if os.environ.get('CTV_ONLY'): out = [x for x in out if x[0] in os.environ['CTV_ONLY'].split(',')]
    return out


def generated_family(seed, limit=120):
    """systematic sequences of length <= 3 over the simple statement kinds with the identifier positions enumerated"""
    rnd = random.Random(seed)
    vars_ = ['x0', 'x1', 'a']
    atoms = []
    for x in vars_:
        atoms.append(lambda k, x=x: ('set', x, k))
        for y in vars_:
            atoms.append(lambda k, x=x, y=y: ('add', x, y, k))
            atoms.append(lambda k, x=x, y=y: ('sub', x, y, k))
            if x != y: atoms.append(lambda k, x=x, y=y: ('copy', x, y))
    fam = []
    for n in (2, 3):
        for combo in itertools.product(range(len(atoms)), repeat=n):
            fam.append(combo)
    rnd.shuffle(fam)
    out = []
    for combo in fam[:limit]:
        body = [atoms[c](i) for i, c in enumerate(combo)]
        wrap = rnd.choice(['plain', 'loop', 'while', 'call'])
        k = len(body)
        if wrap == 'plain': prog = {'defs': [], 'main': body}
        elif wrap == 'loop': prog = {'defs': [], 'main': [('set', 'n', k), ('loop', 'n', body)]}
        elif wrap == 'while': prog = {'defs': [], 'main': [('set', 'x1', k), ('while', 'x1', body + [('sub', 'x1', 'x1', k + 1)])]}
        else: prog = {'defs': [{'name': 'f', 'params': ['a'], 'out': None, 'body': body}], 'main': [('set', 'x1', k), ('call', 'x0', 'f', [('var', 'x1')])]}
        out.append(('gen_%s_%s' % (wrap, '_'.join(map(str, combo))), prog, False))
    return out


def steps_until_inside_callee(code, limit=200):
    """number of VM steps (concrete run on the sentinel literals) after which the first callee has executed its first instruction"""
    ip = 0; data = []; stack = []; steps = 0
    while steps < limit:
        op, a, b, c = code[ip]; steps += 1
        base = stack[-1][0] if stack else 0
        if op in (0, 1): ip += 1
        elif op == 2: return None
        elif op == 3: data[base + a] = max(data[base + b] + c, 0); ip += 1
        elif op == 11: data[base + a] = 0 if data[base + b] == data[base + c] else 1; ip += 1
        elif op == 10: data[base + a] = b; ip += 1
        elif op == 4: ip += a
        elif op == 5: ip = ip + a if data[base + b] == 0 else ip + 1
        elif op == 6: stack.append([len(data), a, c, -1]); data += [0] * a; ip += 1
        elif op == 7: data[stack[-1][0] + a] = data[stack[-2][0] + b]; ip += 1
        elif op == 8: stack[-1][3] = ip + 1; ip = a; return steps + 1
        elif op == 9:
            fr = stack.pop(); data[stack[-1][0] + fr[2]] = data[fr[0] + a]; ip = fr[3]; del data[fr[0]:]
    return None


def hidden_name_problem(name, prog, include, dump, routines):
    """the hidden counter of a LOOP must not be a variable a user can write: its register name must not be identifier-shaped (the scanner's ID rule,
    C14).  If it is, derive a program that assigns that name inside the loop body; the concrete public-API replay then decides."""
    import copy
    for ri, sm in enumerate(dump['stack_maps']):
        user = set(v for v in routines[ri]['vars'] if not v.startswith('%'))
        for reg, nm in sm['map'].items():
            if nm in user or not re.fullmatch(r'[A-Za-z_][A-Za-z0-9_]*', nm): continue
            p2 = copy.deepcopy(prog); k = nlits(prog); done = [False]
            def patch(body):
                for i, st in enumerate(body):
                    if done[0]: return
                    if st[0] in ('loop',):
                        body[i] = (st[0], st[1], [('set', nm, k)] + list(st[2])); done[0] = True; return
                    if st[0] in ('while',): patch(st[2])
                    if st[0] == 'label' and st[2][0] == 'loop':
                        body[i] = ('label', st[1], ('loop', st[2][1], [('set', nm, k)] + list(st[2][2]))); done[0] = True; return
            tgt = p2['main'] if ri == len(dump['stack_maps']) - 1 else p2['defs'][ri]['body']
            patch(tgt)
            if done[0]:
                return {'shape': name + '_counter_alias', 'prog': p2, 'include': include, 'result': 'the hidden loop counter is named %r, which a user can write as a variable' % nm, 'source': {}}
    return None


def nlits(prog):
    m = [-1]
    def walk(x):
        if isinstance(x, (list, tuple)):
            if x and x[0] in ('set',): m[0] = max(m[0], x[2])
            elif x and x[0] in ('add', 'sub'): m[0] = max(m[0], x[3])
            elif x and x[0] == 'ifgoto': m[0] = max(m[0], x[2])
            elif x and x[0] == 'lit': m[0] = max(m[0], x[1])
            for y in x: walk(y)
        elif isinstance(x, dict):
            for y in x.values(): walk(y)
    walk(prog)
    return m[0] + 1


# ------------------------------------------------------------------------------------------------ native compiler
_native = {}


def native_tool(wd, sanitize=False):
    """build native/theoc_dump.cpp against /repo's working tree (real libstdc++); sanitize: ASan+UBSan+libstdc++ assertions (replay builds)"""
    if (wd, sanitize) in _native: return _native[(wd, sanitize)]
    exe = os.path.join(wd, 'theoc_dump' + ('_san' if sanitize else ''))
    R = fw.REPO
    srcs = [os.path.join(fw.VERIF, 'native', 'theoc_dump.cpp')] + [os.path.join(R, 'Compiler/src', f) for f in ('ast.cpp', 'parse.cpp', 'gen.cpp', 'compiler.cpp', 'scan.cpp', 'macro.cpp', 'ParserGenerator/grammar.cpp', 'ParserGenerator/lrdea.cpp')] + \
           ['-x', 'c++', os.path.join(R, 'Compiler/src/lex.yy.c'), '-x', 'none'] + [os.path.join(R, 'VM/src', f) for f in ('vm.cpp', 'program.cpp', 'instr.cpp')]
    san = ['-fsanitize=address,undefined', '-fno-sanitize-recover=undefined', '-D_GLIBCXX_ASSERTIONS', '-g'] if sanitize else []
    p = subprocess.run(['g++', '-std=c++20', '-O1', '-fno-access-control', '-w', '-I' + R, '-I' + os.path.join(R, 'Compiler/include')] + san + srcs + ['-o', exe], stdout=subprocess.PIPE, stderr=subprocess.PIPE, text=True)
    if p.returncode != 0: raise e1.BuildError('native build of /repo failed: ' + p.stderr[-1500:])
    _native[(wd, sanitize)] = exe
    return exe


def native_compile(wd, files, main='m', run_steps=None, tag='p', sanitize=False):
    exe = native_tool(wd, sanitize)
    args = [exe, main]
    for name, text in files.items():
        path = os.path.join(wd, '%s_%s.theo' % (tag, re.sub(r'\W', '_', name)))
        open(path, 'w').write(text); args += [name, path]
    env = dict(os.environ, ASAN_OPTIONS='detect_leaks=0')
    if run_steps: env['VERIF_RUN'] = str(run_steps)
    p = subprocess.run(args, stdout=subprocess.PIPE, stderr=subprocess.PIPE, text=True, env=env, timeout=120)
    if p.returncode != 0: return {'crash': True, 'rc': p.returncode, 'stderr': p.stderr[-800:]}
    return json.loads(p.stdout)


# ------------------------------------------------------------------------------------------------ data header
class ShapeMismatch(Exception):
    pass


def wf_only_data(name, dump):
    """data header sufficient for h_wf when the reference side cannot be matched to the compiler output"""
    code = dump['code']
    fs = [row[1] for row in code if row[0] == 6]
    nsm = len(dump['stack_maps'])
    o = ['// generated by lib/ctv.py (WF only) for shape %s' % name]
    o.append('#define CTV_WF_ONLY 1\n#define CTV_NCODE %d\n#define CTV_NLIT 0\n#define CTV_NR %d\n#define CTV_DW %d\n#define CTV_MAXFS %d\n#define CTV_MAXARG 3\n#define CTV_LIT_BOUNDS\n#define CTV_NSMAPS %d' % (len(code), max(1, nsm), sum(fs) + 1, max(fs + [1]), max(1, nsm)))
    o.append('static const int VMCODE[CTV_NCODE][6] = {%s};' % ', '.join('{%d,%d,%d,%d,0,0}' % tuple(r) for r in code))
    o.append('static const int SMAP_MAXREG[CTV_NSMAPS] = {%s};' % ', '.join(str(max([int(k) for k in m['map']] + [-1])) for m in dump['stack_maps']))
    return '\n'.join(o) + '\n', {'ncode': len(code), 'nlit': 0, 'dw': sum(fs) + 1, 'routines': max(1, nsm), 'maxv': 1, 'maxfs': max(fs + [1])}


def make_data(name, prog, include, dump, kv, nev):
    rc = TL.RefCompiler(prog, include is True, include == 'compact')
    routines = TL.resolve_calls(rc)
    nl = nlits(prog)
    code = dump['code']
    sent = {TL.SENT + k: k for k in range(nl)}
    rows = []
    for (op, a, b, c) in code:
        which = 0; k = 0
        if op == 10 and b in sent: which, k = 2, sent[b]
        elif op == 3 and c in sent: which, k = 3, sent[c]
        elif op == 3 and -c in sent: which, k = -3, sent[-c]
        rows.append((op, a, b, c, which, k))
    smaps = dump['stack_maps']
    if len(smaps) != len(routines): raise ShapeMismatch('routine count mismatch: %d stack maps vs %d reference routines' % (len(smaps), len(routines)))
    maxv = max(len(r['vars']) for r in routines)
    maxrc = max(len(r['code']) for r in routines)
    maxp = max([len(r['params']) for r in routines] + [1])
    argv = []
    refrows = []
    for r in routines:
        rr = []
        for (op, a, b, c) in r['code']:
            cost = {'LINE': 1, 'SETC': 1, 'COPY': 1, 'ADDC': 3, 'SUBC': 3, 'JZ': 1, 'JMP': 1, 'IFEQ': 4, 'DEC': 1, 'RET': 1, 'STOP': 1, 'HALT': 1}.get(op, 0)
            if op == 'LINE': a = {'m': 0, 'i': 1}[a]
            if op == 'CALL':
                off = len(argv); argv += list(c); cost = len(c) + 2; c = off
            rr.append((OPN[op], a if a is not None else 0, b if b is not None else 0, c if c is not None else 0, cost))
        refrows.append(rr)
    # while-JZ costs 2 (condition copy + JMPC), loop-JZ costs 1: a JZ whose variable is a user variable is a WHILE test
    for ri, r in enumerate(routines):
        for i, (op, a, b, c) in enumerate(r['code']):
            if op == 'JZ' and not r['vars'][a].startswith('%'):
                t = refrows[ri][i]; refrows[ri][i] = (t[0], t[1], t[2], t[3], 2)
    varreg = []
    for ri, r in enumerate(routines):
        m = {v: int(k) for k, v in smaps[ri]['map'].items()}
        varreg.append([(-1 if v.startswith('%') else m.get(v, -2)) for v in r['vars']] + [-1] * (maxv - len(r['vars'])))
    fsizes = [row[1] for row in code if row[0] == 6]
    maxfs = max(fsizes + [1])
    dw = sum(sorted(fsizes, reverse=True)[:len(routines)]) + 1
    maxarg = max([len(r['params']) for r in routines] + [1])
    sites = dump['line_info']
    o = []
    o.append('// generated by lib/ctv.py for shape %s' % name)
    o.append('#define CTV_NCODE %d\n#define CTV_NLIT %d\n#define CTV_KV %d\n#define CTV_F %d\n#define CTV_NR %d\n#define CTV_MAXV %d\n#define CTV_MAXDEPTH %d' % (len(code), nl, kv, kv, len(routines), maxv, len(routines)))
    o.append('#define CTV_DW %d\n#define CTV_MAXFS %d\n#define CTV_MAXARG %d\n#define CTV_NEV %d\n#define CTV_NSITES %d\n#define CTV_LIT_BOUNDS' % (dw, maxfs, max(maxarg, 1), nev, len(sites)))
    o.append('#define MINISTL_CTV 1\n#define CTV_NSMAPS %d' % len(smaps))
    o.append('static const int SMAP_MAXREG[CTV_NSMAPS] = {%s};' % ', '.join(str(max([int(k) for k in m['map']] + [-1])) for m in smaps))
    o.append('static const int VMCODE[CTV_NCODE][6] = {%s};' % ', '.join('{%d,%d,%d,%d,%d,%d}' % r for r in rows))
    o.append('static const int REFCODE[CTV_NR][%d][5] = {%s};' % (maxrc, ', '.join('{' + ', '.join('{%d,%d,%d,%d,%d}' % t for t in rr) + '}' for rr in refrows)))
    o.append('static const int REFNPARAMS[CTV_NR] = {%s};' % ', '.join(str(len(r['params'])) for r in routines))
    o.append('static const int REFPARAMS[CTV_NR][%d] = {%s};' % (maxp, ', '.join('{' + ', '.join(str(x) for x in (r['params'] + [0] * (maxp - len(r['params'])))) + '}' for r in routines)))
    o.append('static const int REFARGV[%d] = {%s};' % (len(argv) + 1, ', '.join(map(str, argv + [0]))))
    o.append('static const int REFSMAP[CTV_NR] = {%s};' % ', '.join(str(i) for i in range(len(routines))))
    o.append('static const int VARREG[CTV_NR][CTV_MAXV] = {%s};' % ', '.join('{' + ', '.join(map(str, v)) + '}' for v in varreg))
    o.append('static const int SITE_IDX[%d] = {%s};' % (len(sites) + 1, ', '.join(str(s[0]) for s in sites) + (', 0' if sites else '0')))
    o.append('static const int SITE_FILE[%d] = {%s};' % (len(sites) + 1, ', '.join(str({'m': 0, 'i': 1}.get(s[1], 2)) for s in sites) + (', 0' if sites else '0')))
    o += sim_tables(routines, code, smaps, refrows, maxv, maxrc)
    o.append('static const int SITE_LINE[%d] = {%s};' % (len(sites) + 1, ', '.join(str(s[2]) for s in sites) + (', 0' if sites else '0')))
    return '\n'.join(o) + '\n', routines, {'ncode': len(code), 'nlit': nl, 'dw': dw, 'routines': len(routines), 'maxv': maxv, 'maxfs': maxfs}


def sim_tables(routines, code, smaps, refrows, maxv, maxrc):
    """tables for the per-construct simulation obligations (h_sim): instruction pointer of every reference position, VM register of every
    reference variable (user variables and loop counters from the stack map, argument temporaries from the ARG instructions), live ranges"""
    nr = len(routines)
    # routine starts: code[0] PREPARE; per definition: JMP over, body; then the main code
    starts = []; idx = 1
    for r in range(nr - 1):
        if code[idx][0] != 4: raise Exception('expected JMP over definition %d at %d' % (r, idx))
        starts.append(idx + 1); idx = idx + code[idx][1]
    starts.append(idx)
    ipmap = []
    for r in range(nr):
        ip = starts[r]; row = []
        for t in refrows[r]:
            row.append(ip); ip += t[4]
        ipmap.append(row + [0] * (maxrc - len(row)))
    fullreg = []; live = []
    for r, rt in enumerate(routines):
        m = {v: int(k) for k, v in smaps[r]['map'].items()}
        loops = sorted(int(k) for k, v in smaps[r]['map'].items() if v.startswith('Loop Variable'))
        regs = {}; lc = 0; temps_def = {}; temps_use = {}
        hidden_loop = []
        for pc, (op, a, b, c) in enumerate(rt['code']):
            if op == 'COPY' and rt['vars'][a].startswith('%') and pc + 1 < len(rt['code']) and rt['code'][pc + 1][0] == 'JZ' and rt['code'][pc + 1][1] == a:
                hidden_loop.append(a)
        for i, v in enumerate(rt['vars']):
            if not v.startswith('%'): regs[i] = m.get(v, -2)
        for k, a in enumerate(hidden_loop):
            regs[a] = loops[k] if k < len(loops) else -2
        for pc, (op, a, b, c) in enumerate(rt['code']):
            if op == 'CALL':
                ip = ipmap[r][pc]
                for k, av in enumerate(c):
                    ins = code[ip + 1 + k]
                    if ins[0] != 7: raise Exception('expected ARG at %d' % (ip + 1 + k))
                    regs[av] = ins[2]; temps_use[av] = pc
            if op in ('COPY', 'SETC', 'CALL') and rt['vars'][a].startswith('%') and a not in hidden_loop: temps_def[a] = pc
        fullreg.append([regs.get(i, -1) for i in range(len(rt['vars']))] + [-1] * (maxv - len(rt['vars'])))
        lv = []
        for pc in range(len(rt['code']) + 1):
            mask = 0
            for i in range(len(rt['vars'])):
                if regs.get(i, -1) < 0: continue
                if i in temps_use:
                    if not (temps_def.get(i, 10**9) < pc <= temps_use[i]): continue
                mask |= 1 << i
            lv.append(mask)
        live.append(lv + [0] * (maxrc + 1 - len(lv)))
    fsize = [0] * nr
    fsize[nr - 1] = code[0][1]
    for row in code[1:]:
        if row[0] == 6 and 0 <= row[2] < nr: fsize[row[2]] = row[1]
    callers = []
    for r, rt in enumerate(routines):
        for pc, (op, a, b, c) in enumerate(rt['code']):
            if op == 'CALL': callers.append((r, pc, b, a))
    ops = [(r, pc) for r in range(nr) for pc in range(len(routines[r]['code']))]
    o = []
    o.append('#define SIM_NOPS %d\n#define SIM_MAXRC %d\n#define SIM_NCALLERS %d\n#define CTV_MAXCOST %d' % (len(ops), maxrc, max(1, len(callers)), max(t[4] for rr in refrows for t in rr)))
    o.append('static const int SIM_R[SIM_NOPS] = {%s};' % ', '.join(str(x[0]) for x in ops))
    o.append('static const int SIM_PC[SIM_NOPS] = {%s};' % ', '.join(str(x[1]) for x in ops))
    o.append('static const int IPMAP[CTV_NR][SIM_MAXRC] = {%s};' % ', '.join('{' + ', '.join(map(str, r)) + '}' for r in ipmap))
    o.append('static const int FULLREG[CTV_NR][CTV_MAXV] = {%s};' % ', '.join('{' + ', '.join(map(str, r)) + '}' for r in fullreg))
    o.append('static const unsigned LIVE[CTV_NR][SIM_MAXRC + 1] = {%s};' % ', '.join('{' + ', '.join('%uU' % x for x in r) + '}' for r in live))
    o.append('static const int FSIZE[CTV_NR] = {%s};' % ', '.join(map(str, fsize)))
    cal = callers or [(0, 0, -1, 0)]
    o.append('static const int CALLER_R[SIM_NCALLERS] = {%s};' % ', '.join(str(x[0]) for x in cal))
    o.append('static const int CALLER_PC[SIM_NCALLERS] = {%s};' % ', '.join(str(x[1]) for x in cal))
    o.append('static const int CALLER_CALLEE[SIM_NCALLERS] = {%s};' % ', '.join(str(x[2]) for x in cal))
    o.append('static const int CALLER_TGT[SIM_NCALLERS] = {%s};' % ', '.join(str(x[3]) for x in cal))
    o.append('static const int REFLEN[CTV_NR] = {%s};' % ', '.join(str(len(r['code'])) for r in routines))
    return o


# ------------------------------------------------------------------------------------------------ jobs
def build_jobs(prop, tier, seed, wd, entries=('h_ctv',), tags=None, only=None):
    kv = int(os.environ.get("CTV_KV", "40")) if tier == 'quick' else 56
    nev = 14 if tier == 'quick' else 20
    fam = shapes(tier, seed)
    if only: fam = [s for s in fam if s[0] in only]
    jobs = []; meta = {}; problems = []
    for (name, prog, include) in fam:
        files = TL.Printer(prog, None, include is True, include == 'compact').text()
        try:
            dump = native_compile(wd, files, 'm', tag=name)
        except Exception as ex:
            problems.append('%s: native compile failed: %s' % (name, ex)); continue
        if dump.get('crash') or not dump.get('ok'):
            problems.append({'shape': name, 'source': files, 'result': {k: dump.get(k) for k in ('crash', 'rc', 'errors', 'stderr')}})
            continue
        wf_only = False
        try:
            data, routines, info = make_data(name, prog, include, dump, kv, nev)
        except Exception as ex:
            problems.append({'shape': name, 'source': files, 'result': 'reference/bytecode mismatch: %s' % ex, 'prog': prog, 'include': include})
            if 'h_wf' not in entries: continue
            data, info = wf_only_data(name, dump); routines = []; wf_only = True
        if not wf_only:
            hid = hidden_name_problem(name, prog, include, dump, routines)
            if hid: problems.append(hid)
        dpath = os.path.join(wd, 'ctv_%s.hpp' % name)
        open(dpath, 'w').write(data)
        defines = ['CTV_DATA="%s"' % dpath, 'MINISTL_VEC_CAP=%d' % (info['routines'] + 1), 'MINISTL_STR_CAP=12', 'MINISTL_MAP_CAP=%d' % max(3, len(dump['line_info']) + 1),
                   'VM_CAPS_L=%d' % info['ncode'], 'VM_CAPS_DW=%d' % info['dw'], 'VM_CAPS_NSITE=%d' % max(1, len(dump['line_info']))]
        ents = []
        for entry in (('h_wf',) if wf_only else entries):
            if entry == 'h_ctv_hist':
                # reset points: inside the first callee (right after the first EXEC) and after about half of the straight-line run
                inside = steps_until_inside_callee(dump['code'])
                k1s = sorted(set(([inside] if inside else []) + [max(2, len(dump['code']) // 2)]))
                if tier == 'quick': k1s = k1s[:1]
                ents += [(entry, k1) for k1 in k1s]
            elif entry == 'h_sim':
                nops = sum(len(r['code']) for r in routines)
                if nops > 40: problems.append('%s: %d reference positions > 40 simulation entries' % (name, nops))
                ents += [('h_sim_%d' % k, None) for k in range(min(nops, 40))]
            else: ents.append((entry, None))
        for entry, k1 in ents:
            j = fw.Job('ctv.%s.%s%s' % (name, entry, '' if k1 is None else '.k%d' % k1), H, entry, tus=TUS, defines=defines + ([] if k1 is None else ['CTV_K1=%d' % k1]) + (['CTV_FLAT_TABLES=1'] if entry.startswith('h_sim') else []), caps='caps_ctv.hpp', unwind=info['maxfs'] + 2, unwindset=dict([('_ZL15run_and_compareRN4Theo2VMEb.0', kv + 1)] + [('_ZL14sim_obligationii.%d' % q, 24) for q in range(8)]), tags=tags or [prop],
                       timeout=600 if tier == 'quick' else 1500,
                       what='shape %s: real VM on the natively compiled program (every literal symbolic) vs reference interpreter; stepping run' % name,
                       bounds='%d VM steps, %d reference steps, %d literals (31-bit symbolic), %d instructions, <= %d stops' % (kv, kv, info['nlit'], info['ncode'], nev),
                       functions=['Theo::VM::executeSingle', 'Theo::VM::getCurrentBreak', 'Theo::VM::setSteppingMode', 'Theo::compile (native, per shape)'],
                       build_key=('ctv', name, k1, entry.startswith('h_sim')), extra=['--object-bits', '12'])
            jobs.append(j)
        meta[name] = {'prog': prog, 'include': include, 'files': files, 'routines': routines, 'info': info}
    return jobs, meta, problems


def run_family(prop, tier, seed, wd, out, entries, loopy=False, tags=None):
    """build + run the C-tv jobs and merge their verdicts into `out`; returns coverage keys"""
    fam_only = None
    jobs, meta, problems = build_jobs(prop, tier, seed, wd, entries=entries, tags=tags or [prop])
    if not loopy:
        # shapes with data-dependent control flow are decided by the per-construct simulation obligations (sim.py), not by bounded runs:
        # a symbolic instruction pointer makes the bounded run intractable (measured: 16 VM steps of while_dec = 577 s / 11 GB)
        jobs = [j for j in jobs if j.entry == 'h_wf' or j.name.split('.')[1] not in LOOPY and not j.name.split('.')[1].startswith('gen_loop') and not j.name.split('.')[1].startswith('gen_while')]
    for j in jobs:
        if j.entry == 'h_wf': j.native = False
    fw.run_jobs(prop, jobs, wd, workers=8)
    fw.classify(prop, jobs, wd, out)
    confirm_problems(prop, wd, problems, out)
    return {'programs': len(set(j.name.split('.')[1] for j in jobs)), 'shapes': sorted(set(j.name.split('.')[1] for j in jobs))}


def semantics_obligations(prop, tier, seed, wd, out):
    cov = run_family(prop, tier, seed, wd, out, ('h_ctv',))
    try:
        import sim
        cov.update(sim.obligations(prop, tier, seed, wd, out) or {})
    except ImportError:
        pass
    return cov


def wf_obligations(prop, tier, seed, wd, out):
    return run_family(prop, tier, seed, wd, out, ('h_wf',), loopy=True)


def replay_concrete(wd, prog, include, lits, tag='replay'):
    """public-API replay: print the shape with concrete literals, compile and run it with the sanitized native build of /repo (complete stepping
    run), compare with the reference interpreter.  Returns None if everything agrees, else a description of the first difference."""
    files = TL.Printer(prog, lits, include is True, include == 'compact').text()
    try:
        d = native_compile(wd, files, 'm', run_steps=50000, tag=tag, sanitize=True)
    except Exception as ex:
        return 'native build/run failed: %s' % str(ex)[:300]
    if d.get('crash'): return 'native run crashed (rc %s): %s' % (d.get('rc'), (d.get('stderr') or '')[-300:])
    if not d.get('ok'): return 'rejected by the compiler: %s' % json.dumps(d.get('errors'))[:300]
    ref = TL.interpret(TL.resolve_calls(TL.RefCompiler(prog, include is True, include == 'compact')), lits, 20000)
    if ref['out_of_range'] or not ref['done']: return None      # outside the property's domain (values >= 2^31-1) or not halting within the budget
    if not d.get('done'): return 'reference halts after %d steps, the VM does not halt within 50000 steps' % ref['steps']
    def sub(rv, vv):
        if len(rv) != len(vv): return 'activation count %d vs %d' % (len(vv), len(rv))
        for k, (a, b) in enumerate(zip(rv, vv)):
            for name, val in a.items():
                if name not in b: return 'variable %s missing from the view of activation %d' % (name, k)
                if b[name] != val: return 'variable %s of activation %d is %s, reference %s' % (name, k, b[name], val)
        return None
    if include != 'compact':
        if [(e['file'], e['line']) for e in ref['events']] != [(e['file'], e['line']) for e in d['stops']]:
            return 'stops %s, reference line events %s' % ([(e['file'], e['line']) for e in d['stops']][:12], [(e['file'], e['line']) for e in ref['events']][:12])
        for k, (a, b) in enumerate(zip(ref['events'], d['stops'])):
            m = sub(a['views'], b['views'])
            if m: return 'at stop %d (%s:%d): %s' % (k, a['file'], a['line'], m)
    m = sub(ref['final'], d['final'])
    if m: return 'at the end: ' + m
    if d.get('max_depth', 0) > len(prog['defs']) + 1: return 'activation stack depth %d > definitions + 1' % d['max_depth']
    return None


def confirm_problems(prop, wd, problems, out):
    """a shape whose compiler output cannot be matched with the reference side (routine count, loop counters, ...) is replayed concretely through
    the public API: a reproduced difference is a violation, otherwise the shape is inconclusive"""
    for pr in problems:
        if not isinstance(pr, dict) or 'prog' not in pr:
            out.inconclusive.append('shape could not be compiled natively: %s' % json.dumps(pr)[:400]); continue
        nl = nlits(pr['prog']); found = None
        for lits in ([2] * nl, [3] * nl, list(range(1, nl + 1)), [1] * nl):
            m = replay_concrete(wd, pr['prog'], pr['include'], lits, tag='fb_' + pr['shape'])
            if m: found = (lits, m); break
        if found:
            os.makedirs(fw.REPLAYS, exist_ok=True)
            rp = os.path.join(fw.REPLAYS, '%s-%s.json' % (prop, hashlib.md5((pr['shape'] + str(found[0])).encode()).hexdigest()[:10]))
            json.dump({'module': 'ctv', 'property': prop, 'shape': pr['shape'], 'prog': pr['prog'], 'include': pr['include'], 'lits': found[0], 'difference': found[1], 'structural_problem': pr['result']}, open(rp, 'w'), indent=1)
            out.violations.append({'property': prop, 'job': 'ctv.%s.structure' % pr['shape'], 'assertion': '%s (%s)' % (found[1], pr['result']), 'replay': rp, 'confirmed': True, 'cex': {'lits': found[0]}})
        else:
            out.inconclusive.append('shape %s: compiler output could not be matched with the reference side (%s) and the concrete public-API replay showed no difference' % (pr['shape'], pr['result']))


def replay(r):
    wd = fw.workdir('replay')
    try:
        m = replay_concrete(wd, r['prog'], r['include'], r['lits'])
    finally:
        import shutil; shutil.rmtree(wd, ignore_errors=True)
    print('difference: %s' % m)
    print('REPRODUCED' if m else 'NOT REPRODUCED')
    return 1 if m else 0
